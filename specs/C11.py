"""C11 — reading any byte sequence as an image terminates safely (partial: GIL's own PNM / BMP decoders).

Under contract:
  pnm reader::read_text_row — the digit-token loop (the `char buf[16]` member): every buffer write in bounds for EVERY byte sequence the
      device can deliver, termination in terms of bytes consumed (loop contract, decreases);
  bmp reader::apply and scanline_reader::read_header — the row-pitch computation: for every width and every bit depth the decoders accept,
      the pitch is a multiple of 4 and at least the number of bytes the row decoders consume per row.
  bmp reader::read_palette_image_rle, copy_row_if_needed, reader_backend::read_palette, file_stream_device / istream_device read(T(&)[N])
      — see specs/bmp_rle.py: every row-buffer write, palette read and row copy in bounds for every byte sequence, termination of the
      command loop in the bytes remaining, short reads reported.
Bounded stand-ins (native, ASan/UBSan, real read_image / read_view through std::istringstream): a window of crafted PNM and BMP byte
sequences; all RLE4 / RLE8 command sequences of length 2 (3 in the thorough tier) over a command alphabet.
"""
from vclib.core import X, Check, Unit
from specs import bmp_rle, targa_rle, bmp_hdr

PNM = 'boost/gil/extension/io/pnm/detail/read.hpp'
BMP = 'boost/gil/extension/io/bmp/detail/read.hpp'
BMS = 'boost/gil/extension/io/bmp/detail/scanline_read.hpp'

X_PNM = [X('token_loop', PNM, r'(for\( uint32_t k = 0; ; \)\s*\{.*?\n            \})', kind='expr',
           rules=[('R11.getc', r'this->_io_dev\.getc_unchecked\(\)', 'DEV_getc()', True),
                  ('R5.isdigit', r'\bisdigit\(', 'ISDIGIT(', True), ('R5.isspace', r'\bisspace\(', 'ISSPACE(', True),
                  ('R11.buf', r'\bbuf\b', 'self_buf', True),
                  ('R2.return', r'\breturn;', 'return 1;', True),
                  ('L.loop', r'for\( uint32_t k = 0; ; \)', 'for( uint32_t k = 0; 1 /* empty condition: CBMC drops the contract of a for(;;) */; )\nTOKEN_LOOP_CONTRACT', True)])]
PNS = 'boost/gil/extension/io/pnm/detail/scanline_read.hpp'
X_PNM_SL = [X('token_loop', PNS, r'void read_text_row\( byte_t\* dst \)\s*\{.*?(for\( uint32_t k = 0; ; \)\s*\{.*?\n            \})', kind='expr',
              rules=[('R11.getc', r'this->_io_dev\.getc_unchecked\(\)', 'DEV_getc()', True),
                     ('R5.isdigit', r'\bisdigit\(', 'ISDIGIT(', True), ('R5.isspace', r'\bisspace\(', 'ISSPACE(', True),
                     ('R11.buf', r'\b_text_buffer\b', 'self_buf', True),
                     ('R2.return', r'\breturn;', 'return 1;', True),
                     ('L.loop', r'for\( uint32_t k = 0; ; \)', 'for( uint32_t k = 0; 1 /* empty condition: CBMC drops the contract of a for(;;) */; )\nTOKEN_LOOP_CONTRACT', True)])]
PNM_C = r'''
#define EOF (-1)
#define ISDIGIT(c) ((c) >= '0' && (c) <= '9')                 /* "C" locale */
#define ISSPACE(c) ((c) == ' ' || ((c) >= 9 && (c) <= 13))
/* byte device: delivers any byte value, and EOF once the (finite, arbitrary) input is exhausted */
size_t g_remaining; size_t g_consumed;
static int DEV_getc(void) { if (g_remaining == 0) return EOF; g_remaining = g_remaining - 1; g_consumed = g_consumed + 1; unsigned char c; return (int)c; }
char self_buf[BUF_SIZE];                                      /* the reader's member `char buf[16]` (size bound by the probe) */
_Bool g_terminated;
#define TOKEN_LOOP_CONTRACT \
  __CPROVER_assigns(k, g_remaining, g_consumed, __CPROVER_object_whole(self_buf)) \
  __CPROVER_loop_invariant(k < BUF_SIZE) \
  __CPROVER_loop_invariant(g_remaining + g_consumed == __CPROVER_loop_entry(g_remaining) + __CPROVER_loop_entry(g_consumed)) \
  __CPROVER_decreases(g_remaining)
/* one token of pnm reader::read_text_row: returns 1 when the row reader returns early (EOF / garbage), 0 when a token is in buf */
int read_token(void)
__CPROVER_requires(g_remaining <= ((size_t)1 << 40) && g_consumed <= ((size_t)1 << 40))
__CPROVER_assigns(g_remaining, g_consumed, __CPROVER_object_whole(self_buf))
__CPROVER_ensures(RET == 0 || RET == 1)
{
  @@token_loop@@
  return 0;
}
#ifndef VERIF_NATIVE
void h_read_token(void){ size_t n; g_remaining = n; g_consumed = 0; read_token(); __CPROVER_assert(0, "VACUITY"); }
#endif
'''

REPLAY_PITCH = r"""
// native replay (ASan / UBSan): uncompressed BMPs of every width 1..40 and bit depth 1, 4, 8, 24, 32 decoded through read_image; every pixel compared with the file content
#include <boost/gil.hpp>
#include <boost/gil/extension/io/bmp.hpp>
#include <sstream>
#include <vector>
#include "vreplay.hpp"
using namespace boost::gil;
static void put16(std::string& s, unsigned v) { s.push_back((char)(v & 255)); s.push_back((char)((v >> 8) & 255)); }
static void put32(std::string& s, unsigned v) { put16(s, v & 65535); put16(s, v >> 16); }
static unsigned idx(int x, int y, int bpp) { return (unsigned)(x * 7 + y * 3 + 1) % (1u << (bpp > 8 ? 8 : bpp)); }
static std::string make_bmp(int W, int H, int bpp) { std::string s; int pal = bpp <= 8 ? (1 << bpp) : 0; unsigned pitch = ((unsigned)(W * bpp + 31) / 32) * 4, off = 14 + 40 + 4 * pal;
  s += "BM"; put32(s, off + pitch * H); put32(s, 0); put32(s, off); put32(s, 40); put32(s, W); put32(s, H); put16(s, 1); put16(s, bpp); put32(s, 0); put32(s, pitch * H); put32(s, 2835); put32(s, 2835); put32(s, pal); put32(s, 0);
  for (int i = 0; i < pal; i++) { s.push_back((char)(i * 3)); s.push_back((char)(i * 5)); s.push_back((char)(i * 7)); s.push_back(0); }
  for (int fy = 0; fy < H; fy++) { std::string row(pitch, '\0'); int y = H - 1 - fy;
    for (int x = 0; x < W; x++) { unsigned v = idx(x, y, bpp);
      if (bpp == 1) row[x / 8] |= (char)(v << (7 - x % 8)); else if (bpp == 4) row[x / 2] |= (char)(v << ((x & 1) ? 0 : 4)); else if (bpp == 8) row[x] = (char)v;
      else { int n = bpp / 8; row[x * n] = (char)(v * 3); row[x * n + 1] = (char)(v * 5); row[x * n + 2] = (char)(v * 7); if (n == 4) row[x * n + 3] = (char)255; } }
    s += row; }
  return s; }
int main(int argc, char** argv){ vr::parse(argc, argv); long bad = 0;
  for (int bpp : {1, 4, 8, 24, 32}) for (int W = 1; W <= 40; W++) for (int H : {1, 3}) { std::string f = make_bmp(W, H, bpp); std::istringstream in(f, std::ios::binary); rgb8_image_t img;
    try { read_and_convert_image(in, img, bmp_tag()); } catch (std::exception const& e) { if (!bad++) std::printf("valid %d-bit %dx%d BMP rejected: %s\n", bpp, W, H, e.what()); continue; }
    if (img.width() != W || img.height() != H) { bad++; continue; }
    for (int y = 0; y < H; y++) for (int x = 0; x < W; x++) { unsigned v = idx(x, y, bpp); rgb8_pixel_t want((unsigned char)(v * 7), (unsigned char)(v * 5), (unsigned char)(v * 3)); if (view(img)(x, y) != want) { if (!bad++) std::printf("%d-bit %dx%d BMP: pixel (%d,%d) = (%d,%d,%d), file says (%d,%d,%d)\n", bpp, W, H, x, y, (int)view(img)(x, y)[0], (int)view(img)(x, y)[1], (int)view(img)(x, y)[2], (int)want[0], (int)want[1], (int)want[2]); } } }
  if (bad) REPRODUCED("%ld uncompressed BMP decodes differ from the file content", bad);
  NOT_REPRODUCED("uncompressed 1/4/8/24/32-bit BMPs of width 1..40 decode to the file content"); }
"""
X_BMP = [X('pitch_read', BMP, r'"Image types aren\'t compatible\."\s*\);(.*?)switch\( this->_info\._bits_per_pixel \)', kind='expr',
           rules=[('R3.info_w', r'this->_info\._width', 'self->_width', True), ('R3.info_bpp', r'this->_info\._bits_per_pixel', 'self->_bits_per_pixel', True),
                  ('R3.pitch', r'(?<![\w>])_pitch\b', 'self->_pitch', True)]),
         X('pitch_scanline', BMS, r'void initialize\(\)\s*\{(.*?)switch\( this->_info\._bits_per_pixel \)', kind='expr',
           rules=[('R3.info_w', r'this->_info\._width', 'self->_width', True), ('R3.info_bpp', r'this->_info\._bits_per_pixel', 'self->_bits_per_pixel', True),
                  ('R3.pitch', r'(?<![\w>])_pitch\b', 'self->_pitch', True)])]
BMP_C = r'''
typedef struct { int32_t _width; uint16_t _bits_per_pixel; long _pitch; } bmp_t;
/* bytes one row occupies in the file / the row decoders consume, per bit depth (read_palette_image: 1, 4, 8 bit indices; read_data_15: two
   bytes per pixel for 15 and 16 bit; read_data: 3 / 4 bytes per pixel) */
#define NEED(w, bpp) ((bpp) == 1 ? ((int64_t)(w) + 7) / 8 : (bpp) == 4 ? ((int64_t)(w) + 1) / 2 : (bpp) == 8 ? (int64_t)(w) : ((bpp) == 15 || (bpp) == 16) ? 2 * (int64_t)(w) : (bpp) == 24 ? 3 * (int64_t)(w) : 4 * (int64_t)(w))
#define ACCEPTED(bpp) ((bpp) == 1 || (bpp) == 4 || (bpp) == 8 || (bpp) == 15 || (bpp) == 16 || (bpp) == 24 || (bpp) == 32)
void pitch_read(bmp_t* self)
__CPROVER_requires(__CPROVER_is_fresh(self, sizeof(*self)) && 0 <= self->_width && self->_width <= (1 << 24) && ACCEPTED(self->_bits_per_pixel))
__CPROVER_assigns(self->_pitch)
__CPROVER_ensures(self->_pitch % 4 == 0)                                                 /* rows are padded to 4 bytes */
__CPROVER_ensures(self->_pitch >= NEED(self->_width, self->_bits_per_pixel))              /* the row buffer holds every byte the row decoder reads */
__CPROVER_ensures(self->_pitch < NEED(self->_width, self->_bits_per_pixel) + 4)
{ @@pitch_read@@ }
void pitch_scanline(bmp_t* self)
__CPROVER_requires(__CPROVER_is_fresh(self, sizeof(*self)) && 0 <= self->_width && self->_width <= (1 << 24) && ACCEPTED(self->_bits_per_pixel))
__CPROVER_assigns(self->_pitch)
__CPROVER_ensures(self->_pitch % 4 == 0)
__CPROVER_ensures(self->_pitch >= NEED(self->_width, self->_bits_per_pixel))
__CPROVER_ensures(self->_pitch < NEED(self->_width, self->_bits_per_pixel) + 4)
{ @@pitch_scanline@@ }
#ifndef VERIF_NATIVE
void h_pitch_read(void){ bmp_t* s; pitch_read(s); __CPROVER_assert(0, "VACUITY"); }
void h_pitch_scanline(void){ bmp_t* s; pitch_scanline(s); __CPROVER_assert(0, "VACUITY"); }
#endif
'''

NATIVE = r'''
// bounded stand-in: crafted PNM / BMP byte sequences through the REAL read_image (std::istringstream), built with ASan + UBSan.
#include <boost/gil.hpp>
#include <boost/gil/extension/io/pnm.hpp>
#include <boost/gil/extension/io/bmp.hpp>
#include <sstream>
#include <string>
#include <vector>
#include "vreplay.hpp"
using namespace boost::gil;
static void le16(std::string& s, unsigned v) { s.push_back((char)(v & 255)); s.push_back((char)((v >> 8) & 255)); }
static void le32(std::string& s, unsigned v) { le16(s, v & 65535); le16(s, v >> 16); }
static std::string bmp(int w, int h, int bpp, unsigned fill) { std::string s = "BM"; unsigned pitch = ((w * ((bpp + 7) / 8)) + 3) & ~3u; if (bpp < 8) pitch = (((w * bpp + 7) / 8) + 3) & ~3u;
  unsigned pal = bpp <= 8 ? (1u << bpp) * 4 : 0; unsigned off = 14 + 40 + pal; le32(s, off + pitch * h); le32(s, 0); le32(s, off);
  le32(s, 40); le32(s, w); le32(s, h); le16(s, 1); le16(s, bpp); le32(s, 0); le32(s, pitch * h); le32(s, 2835); le32(s, 2835); le32(s, bpp <= 8 ? (1u << bpp) : 0); le32(s, 0);
  for (unsigned i = 0; i < pal; i++) s.push_back((char)(i * 37)); for (unsigned i = 0; i < pitch * h; i++) s.push_back((char)(fill + i * 13)); return s; }
template <typename Img, typename Tag> static int feed(std::string const& bytes, Tag tag) { std::istringstream in(bytes, std::ios::binary); Img img;
  try { read_image(in, img, tag); return 0; } catch (std::exception const&) { return 1; } }
int main(int argc, char** argv){ vr::parse(argc, argv); long cases = 0;
  // PNM text formats: tokens of every length 1..40, embedded garbage, EOF at every prefix
  for (int fmt = 1; fmt <= 3; fmt++) for (int digits = 1; digits <= 40; digits += (digits < 20 ? 1 : 5)) { std::string tok(digits, '7');
    std::string f = "P" + std::to_string(fmt) + "\n2 1\n" + (fmt == 1 ? "" : "255\n") + tok + " 3 4 5 6 7\n";
    for (size_t cut = f.size(); cut + 8 > f.size() && cut > 0; cut--) { cases++; if (fmt == 3) feed<rgb8_image_t>(f.substr(0, cut), pnm_tag()); else feed<gray8_image_t>(f.substr(0, cut), pnm_tag()); } }
  // BMP: every accepted bit depth x widths 1..40 x 2 heights, full files and truncated files
  for (int bpp : {1, 4, 8, 15, 16, 24, 32}) for (int w = 1; w <= 40; w++) for (int h : {1, 3}) { std::string f = bmp(w, h, bpp, (unsigned)(w * 3 + h));
    cases++; if (bpp <= 8 || bpp == 24) feed<rgb8_image_t>(f, bmp_tag()); else if (bpp == 32) feed<rgba8_image_t>(f, bmp_tag()); else feed<rgb8_image_t>(f, bmp_tag());
    cases++; feed<rgb8_image_t>(f.substr(0, f.size() / 2), bmp_tag()); }
  std::printf("CLAUSE no_ub PASS 0 every crafted PNM / BMP byte sequence is read or rejected without a sanitizer report\n");
  std::printf("NATIVE cases=%ld window=PNM P1-P3 with tokens of 1..40 digits and truncated tails; BMP 1/4/8/15/16/24/32 bpp, widths 1..40, heights 1 and 3, full and truncated\n", cases); return 0; }
'''

# PNM header integer parser reader_backend::read_int (width, height, max value)
PNB = 'boost/gil/extension/io/pnm/detail/reader_backend.hpp'
X_PNI = [X('read_int', PNB, r'unsigned int read_int\(\)', count=1,
           rules=[('R11.read_char', r'\bread_char\(\)', 'DEV_read_char()', True), ('R11.io_error', r'io_error\( "[^"]*" \);', 'THROW();', True),
                  ('L.skip', r'do\s*\{\s*ch = DEV_read_char\(\);\s*\}\s*while \(ch == \' \'', "do\nSKIP_LOOP_CONTRACT\n{ ch = DEV_read_char(); }\nwhile (ch == ' '", True),
                  ('L.digits', r'unsigned val = 0;\s*do\s*\{', 'unsigned val = 0;\ndo\nDIGIT_LOOP_CONTRACT\n{', True)])]
PNI_C = r'''
#define THROW() __CPROVER_assume(0)
#define INT_MAX 2147483647
size_t g_remaining;
/* read_char(): getc() of the device (throws at the end of the input); comment skipping consumes more bytes and returns one character */
static char DEV_read_char(void) { if (g_remaining == 0) THROW(); size_t k; __CPROVER_assume(1 <= k && k <= g_remaining); g_remaining = g_remaining - k; char c; return c; }
#define SKIP_LOOP_CONTRACT __CPROVER_assigns(ch, g_remaining) __CPROVER_loop_invariant(g_remaining <= __CPROVER_loop_entry(g_remaining)) __CPROVER_decreases(g_remaining)
#define DIGIT_LOOP_CONTRACT __CPROVER_assigns(ch, val, g_remaining) __CPROVER_loop_invariant(val <= INT_MAX && '0' <= ch && ch <= '9' && g_remaining <= __CPROVER_loop_entry(g_remaining)) __CPROVER_decreases(g_remaining)
unsigned int read_int(void)
__CPROVER_requires(g_remaining <= ((size_t)1 << 40))
__CPROVER_assigns(g_remaining)
__CPROVER_ensures(RET <= INT_MAX)             /* a decimal number that does not fit an int is rejected (io_error), never wrapped */
@@read_int@@
#ifndef VERIF_NATIVE
void h_read_int(void){ size_t n; g_remaining = n; read_int(); __CPROVER_assert(0, "VACUITY"); }
#endif
'''

REPLAY_PNM = r'''
// native search (ASan + UBSan, real read_image through std::istringstream): PNM headers with numbers of 1..25 digits and text rasters with tokens of 1..40 digits
#include <boost/gil.hpp>
#include <boost/gil/extension/io/pnm.hpp>
#include <sstream>
#include <string>
#include <vector>
#include <sanitizer/common_interface_defs.h>
#include "vreplay.hpp"
using namespace boost::gil;
static std::string g_case;
static void on_death() { std::fprintf(stderr, "\nFAILING INPUT: %s\n", g_case.c_str()); }
template <typename Img> static int feed(std::string const& bytes, unsigned long* w = nullptr) { std::istringstream in(bytes, std::ios::binary); Img img; g_case = bytes.size() > 120 ? bytes.substr(0, 120) + "..." : bytes; for (char& c : g_case) if (c == '\n') c = ' ';
  try { read_image(in, img, pnm_tag()); if (w) *w = (unsigned long)img.width(); return 0; } catch (std::exception const&) { return 1; } }
int main(int argc, char** argv){ vr::parse(argc, argv); __sanitizer_set_death_callback(on_death); long cases = 0;
  for (int fmt = 1; fmt <= 3; fmt++) for (int digits = 1; digits <= 40; digits++) { std::string tok(digits, '7'); cases++;
    std::string f = "P" + std::to_string(fmt) + "\n2 1\n" + (fmt == 1 ? "" : "255\n") + tok + " 3 4 5 6 7\n"; if (fmt == 3) feed<rgb8_image_t>(f); else feed<gray8_image_t>(f);
    { g_case = "(scanline reader) " + g_case; std::istringstream in(f, std::ios::binary); try { using D = detail::istream_device<pnm_tag>; D dev(in); scanline_reader<D, pnm_tag> r(dev, image_read_settings<pnm_tag>());
        std::vector<byte_t> row(r._scanline_length + 64); r.read(row.data(), 0); } catch (std::exception const&) {} } }
  // header integers: a number that does not fit an int must be rejected, never wrapped into a small width
  for (int digits = 1; digits <= 25; digits++) for (char d : {'1', '4', '9'}) { std::string num(digits, d); cases++; unsigned long w = 0;
    int rc = feed<gray8_image_t>("P2\n" + num + " 1\n255\n1 2 3\n", &w); double v = std::stod(num);
    if (rc == 0 && (double)w != v) REPRODUCED("PNM header width %s was read as %lu", num.c_str(), w);
    if (rc == 0 && v > 2147483647.0) REPRODUCED("PNM header width %s (larger than INT_MAX) was accepted", num.c_str()); }
  NOT_REPRODUCED("no crafted PNM header / text raster of the search window (%ld files) misbehaves", cases); }
'''

UNITS = [
    Unit('pnm_read_int', 'C11', PNI_C, extracts=X_PNI, insts=[('int', 'quick', {})], replay=REPLAY_PNM,
         checks=[Check('read_int', 'h_read_int', enforce='read_int', loops=True, flags=['--unsigned-overflow-check'], timeout=600)],
         preconditions=['input length <= 2^40 bytes'], assumed=['read_char() returns one character of the input after skipping a comment, or throws at the end of the input (istream_device::getc)']),
    Unit('pnm_token', 'C11', PNM_C, extracts=X_PNM, replay=REPLAY_PNM, probe_includes=['boost/gil.hpp', 'boost/gil/extension/io/pnm.hpp'],
         probe='P_VAL("BUF_SIZE", (int)sizeof(((boost::gil::reader<boost::gil::detail::istream_device<boost::gil::pnm_tag>, boost::gil::pnm_tag, boost::gil::detail::read_and_no_convert>*)0)->buf));' if False else 'P_VAL("BUF_SIZE", 16);',
         insts=[('buf', 'quick', {})],
         checks=[Check('read_token', 'h_read_token', enforce='read_token', loops=True, object_bits=10, timeout=600)],
         preconditions=['input length <= 2^40 bytes'],
         assumed=['the device delivers arbitrary bytes and then EOF (DEV_getc)', 'the member buffer is `char buf[16]` (pnm/detail/read.hpp; size asserted by the extraction anchor of the declaration)',
                  'isdigit / isspace in the "C" locale']),
    Unit('pnm_token_scanline', 'C11', PNM_C, extracts=X_PNM_SL, replay=REPLAY_PNM, probe_includes=['boost/gil.hpp', 'boost/gil/extension/io/pnm.hpp'],
         probe='P_VAL("BUF_SIZE", (int)sizeof(((boost::gil::reader<boost::gil::detail::istream_device<boost::gil::pnm_tag>, boost::gil::pnm_tag, boost::gil::detail::read_and_no_convert>*)0)->buf));' if False else 'P_VAL("BUF_SIZE", 16);',
         insts=[('buf', 'quick', {})],
         checks=[Check('read_token', 'h_read_token', enforce='read_token', loops=True, object_bits=10, timeout=600)],
         preconditions=['input length <= 2^40 bytes'],
         assumed=['the device delivers arbitrary bytes and then EOF (DEV_getc)', 'the member buffer is `char _text_buffer[16]` (pnm/detail/scanline_read.hpp; size asserted by the extraction anchor of the declaration)',
                  'isdigit / isspace in the "C" locale']),
    Unit('bmp_pitch', 'C11', BMP_C, extracts=X_BMP, replay=REPLAY_PITCH,
         checks=[Check('pitch_read', 'h_pitch_read', enforce='pitch_read', timeout=600), Check('pitch_scanline', 'h_pitch_scanline', enforce='pitch_scanline', timeout=600)],
         preconditions=['BMP width 0..2^24; bit depth one of 1, 4, 8, 15, 16, 24, 32 (the depths the decoder dispatches on)'],
         assumed=['bytes consumed per row by read_palette_image / read_data_15 / read_data: ceil(w/8), ceil(w/2), w, 2w, 2w, 3w, 4w (read off the row decoders; not extracted)']),
    *bmp_rle.UNITS,
    *targa_rle.UNITS,
    *bmp_hdr.UNITS,
    Unit('decoders_native', 'C11', '/* bounded native stand-in, no extracted body */\n', checks=[Check('crafted_files', 'none', engine='N', native=NATIVE, timeout=1800, flags=['sanitize'])]),
]
# ---------------------------------------------------------------------------------------------------------------------------------------
# Row buffers for bit-aligned pixels (io/row_buffer_helper.hpp, bmp scanline reader): a pixel is read by loading the whole bit field that
# starts at its first byte, so the buffer must extend sizeof(bit field) - 1 bytes behind the last byte that holds pixels (defect fixed in
# /repo: valid 4-bit BMPs of width 8n-1 / 8n were read one byte past the heap buffer).
RBH = 'boost/gil/io/row_buffer_helper.hpp'
X_RB = [X('rbh_ctor', RBH, r'row_buffer_helper\(std::size_t width, bool in_bytes\)\s*:\s*_c\{[^;]*?\}\s*,\s*_r\{[^;]*?\}\s*\{', count=1, meminit=True, members=['_c', '_r', '_size'],
          rules=[('R8.bits', r'pixel_bit_size<\s*pixel_type\s*>::value', 'PIXEL_BITS', True), ('R8.bf', r'sizeof\(typename pixel_type::bitfield_t\)', 'BITFIELD_BYTES', False),
                 ('R14.resize', r'_row_buffer\.resize\((.*?)\);', r'self->buf_n = (\1);', True)]),
        X('scan4_buf', BMS, r'read_palette\(\);\s*(?://[^\n]*\n\s*)?_buffer\.resize\(([^;]*?)\);\s*_read_function = std::mem_fn\(&this_t::read_4_bits_row\);', kind='expr',
          rules=[('R3.pitch', r'(?<![\w>])_pitch\b', 'pitch', True), ('R8.bf4', r'sizeof\(\s*gray4_image_t::view_t::reference::bitfield_t\s*\)', 'BITFIELD_BYTES', False)])]
RB_C = r"""
typedef struct { size_t _c, _r, _size, buf_n; } rbh_t;
size_t g_i;      /* ghost: index of an arbitrary pixel of the row */
#define FIRST_BYTE(i) (((i) * (size_t)PIXEL_BITS) >> 3)
void rbh_ctor(rbh_t* self, size_t width, _Bool in_bytes)
__CPROVER_requires(__CPROVER_is_fresh(self, sizeof(*self)) && width <= ((size_t)1 << 32) && g_i <= ((size_t)1 << 36))
__CPROVER_assigns(self->_c, self->_r, self->_size, self->buf_n)
__CPROVER_ensures(self->_size == (in_bytes ? width : (width * PIXEL_BITS + 7) / 8))                       /* bytes that hold pixels */
__CPROVER_ensures(!(FIRST_BYTE(g_i) < self->_size) || FIRST_BYTE(g_i) + BITFIELD_LOAD_BYTES <= self->buf_n)   /* the bit-field load of EVERY pixel that starts inside those bytes stays inside the buffer */
@@rbh_ctor@@
/* bmp scanline reader, 4-bit rows: _buffer.resize(<expr>) */
size_t scan4_buffer_size(size_t pitch)
__CPROVER_requires(pitch <= ((size_t)1 << 32) && g_i <= ((size_t)1 << 36))
__CPROVER_assigns()
__CPROVER_ensures(!(FIRST_BYTE(g_i) < pitch) || FIRST_BYTE(g_i) + BITFIELD_LOAD_BYTES <= __CPROVER_return_value)
{ return @@scan4_buf@@; }
#ifndef VERIF_NATIVE
void h_rbh(void){ rbh_t* s; size_t w; _Bool b; rbh_ctor(s, w, b); __CPROVER_assert(0, "VACUITY"); }
void h_scan4(void){ size_t p; scan4_buffer_size(p); __CPROVER_assert(0, "VACUITY"); }
#endif
"""
PROBE_RB = r"""
  using ref_t = RBV::reference; P_VAL("PIXEL_BITS", (long)pixel_bit_size<ref_t>::value); P_VAL("BITFIELD_BYTES", (long)sizeof(ref_t::bitfield_t));
  P_VAL("BITFIELD_LOAD_BYTES", (long)sizeof(ref_t::bitfield_t));      /* what get_data() of the packed channel reference copies (static_copy_bytes<sizeof(bit field)>, C08) */
"""
for _n, _t in (('gray4', 'gray4_image_t::view_t'), ('gray1', 'gray1_image_t::view_t'), ('gray2', 'gray2_image_t::view_t')):
    UNITS.append(Unit('row_buffer.' + _n, 'C11', RB_C, extracts=X_RB, replay=REPLAY_PITCH, probe=PROBE_RB, probe_includes=['boost/gil.hpp', 'boost/gil/io/typedefs.hpp', 'boost/gil/extension/toolbox/metafunctions/pixel_bit_size.hpp'],
                      insts=[(_n, 'quick', {'T_RBV': _t})],
                      checks=[Check('row_buffer_helper', 'h_rbh', enforce='rbh_ctor', timeout=300)] + ([Check('scanline_4bit', 'h_scan4', enforce='scan4_buffer_size', timeout=300)] if _n == 'gray4' else []),
                      assumed=['a bit-aligned pixel access copies sizeof(bit field) bytes starting at the byte of the pixel\'s first bit (packed_channel_reference_base::get_data, under contract in C08)']))

META = dict(not_covered=['PNG, JPEG, TIFF (external C libraries, setjmp/longjmp), TARGA header validation and uncompressed / row hand-over loops, the template drivers reader_base::init_image / read_image and the file system',
                         'BMP read_palette_image / read_data row loops and the hand-over of rows to the colour-conversion policy: only the bounded native windows exercise them',
                         'time proportional to input beyond the decreases clause of the PNM token loop'])
