"""C20 — rasterizers emit exactly point_count() points, on the curve, inside its bounding box.

Functions under contract (bodies cut from extension/rasterization/{line,circle}.hpp):
  bresenham_line_rasterizer::point_count, ::operator()      (loop contract, emission monitor)
  midpoint_circle_rasterizer::point_count, ::operator(), the mirroring lambda (hoisted, rule R13)
  detail::apply_rasterizer_op<..., line_rasterizer_t> / <..., circle_rasterizer_t>::operator()
Output iterators are lowered to the ghost emission monitor EMIT(x, y) (count, first, last, running 8-connectivity,
running bounding-box flag); std::vector<point_t> to a ghost vector (size only); view(point) = pixel to VIEW_WRITE.
Bounded stand-ins (never counted as proved): the line's bounding box / one-pixel closeness / connectivity of the
final step depend on the accumulated double error term and are checked by a native exhaustive loop over a window of
end points on the real C++ code.
"""
from vclib.core import X, Check, Unit

LINE = 'boost/gil/extension/rasterization/line.hpp'
CIRC = 'boost/gil/extension/rasterization/circle.hpp'
W_BR = r'struct bresenham_line_rasterizer\s*\{'
W_MC = r'struct midpoint_circle_rasterizer\s*\{'

R_EMIT = [
    ('R11.emit_flip', r'\*d_first\+\+ = needs_flip \? point_t\{(\w+), (\w+)\} : point_t\{(\w+), (\w+)\};', r'if (needs_flip) EMIT(\1, \2); else EMIT(\3, \4);', False),
    ('R11.emit_end', r'\*d_first\+\+ = needs_flip \? point_t\{end\.y, end\.x\} : end;', 'if (needs_flip) EMIT(end.y, end.x); else EMIT(end.x, end.y);', False),
    ('R11.emit_start', r'\*d_first = start;', 'EMIT(start.x, start.y);', False),
    ('R11.emit_pt', r'\*d_first\+\+ = point_t\{([^;]+?), ([^;]+?)\};', r'EMIT(\1, \2);', False),
    ('R11.pt_eq', r'\bstart == end\b', 'POINT_EQ(start, end)', False),
    ('R4.auto_wh', r'\bauto (width|height) =', r'ptrdiff_t \1 =', False),
    ('R4.const_auto', r'\bconst auto (abs_width|abs_height) =', r'const ptrdiff_t \1 =', False),
    ('R4.bool', r'\bbool\b', '_Bool', False),
]

X_LINE = [
    X('line_point_count', LINE, r'std::ptrdiff_t point_count\(\) const noexcept\s*\{', within=W_BR, count=1, members=['start_point', 'end_point'], rules=R_EMIT),
    X('line_call', LINE, r'void operator\(\)\(OutputIterator d_first\) const\s*\{', within=W_BR, count=1, members=['start_point', 'end_point'],
      rules=R_EMIT + [('R_loop', r'for \(std::ptrdiff_t x = start\.x; x != end\.x; x \+= x_increment\)', 'for (ptrdiff_t x = start.x; x != end.x; x += x_increment)\nLINE_LOOP_CONTRACT', True),
                      ('must_emit', r'EMIT\(', 'EMIT(', True)]),
]

EMIT_C = r'''
typedef ptrdiff_t difference_type;
#define POINT_EQ(a, b) ((a).x == (b).x && (a).y == (b).y)
#define SWAP(a, b) do { ptrdiff_t t__ = (a); (a) = (b); (b) = t__; } while (0)
/* ghost emission monitor: what an output iterator of point_t observes */
typedef struct { ptrdiff_t count; point_t first, last; _Bool has, connected, inbox; } emit_t;
emit_t g_em; ptrdiff_t g_lox, g_hix, g_loy, g_hiy;
void EMIT(ptrdiff_t x, ptrdiff_t y) {
  if (!g_em.has) { g_em.first.x = x; g_em.first.y = y; g_em.has = 1; }
  else { _Bool nx = (x == g_em.last.x) || (g_em.last.x < x && x - 1 == g_em.last.x) || (x < g_em.last.x && x + 1 == g_em.last.x);
         _Bool ny = (y == g_em.last.y) || (g_em.last.y < y && y - 1 == g_em.last.y) || (y < g_em.last.y && y + 1 == g_em.last.y);
         if (!(nx && ny && !(x == g_em.last.x && y == g_em.last.y))) g_em.connected = 0; }
  if (!(g_lox <= x && x <= g_hix && g_loy <= y && y <= g_hiy)) g_em.inbox = 0;
  g_em.last.x = x; g_em.last.y = y; g_em.count = g_em.count + 1; }
#define EMIT_RESET() do { g_em.count = 0; g_em.has = 0; g_em.connected = 1; g_em.inbox = 1; } while (0)
#define CMAX ((ptrdiff_t)1000000)
'''

LINE_C = EMIT_C + r'''
typedef struct { point_t start_point, end_point; } line_t;
#define INC(x, s, e) ((e) >= (s) ? 1 : -1)
/* loop contract of the Bresenham loop (major axis x after the optional transposition) */
#define LINE_LOOP_CONTRACT \
  __CPROVER_assigns(x, y, error_term, g_em) \
  __CPROVER_loop_invariant(x_increment == 1 ? (start.x <= x && x <= end.x) : (end.x <= x && x <= start.x)) \
  __CPROVER_loop_invariant(g_em.count == (x_increment == 1 ? x - start.x : start.x - x)) \
  __CPROVER_loop_invariant(g_em.has == (x != start.x)) \
  __CPROVER_loop_invariant(!g_em.has || (needs_flip ? (g_em.first.x == start.y && g_em.first.y == start.x) : (g_em.first.x == start.x && g_em.first.y == start.y))) \
  __CPROVER_loop_invariant(-4 * CMAX <= y && y <= 4 * CMAX && 0 <= (y_increment == 1 ? y - start.y : start.y - y) && (y_increment == 1 ? y - start.y : start.y - y) <= g_em.count) \
  __CPROVER_loop_invariant(!g_em.has || (-4 * CMAX <= g_em.last.x && g_em.last.x <= 4 * CMAX && -4 * CMAX <= g_em.last.y && g_em.last.y <= 4 * CMAX)) \
  __CPROVER_loop_invariant(!g_em.has || (needs_flip ? (g_em.last.y == x - x_increment && g_em.last.x <= y && y <= g_em.last.x + 1 || g_em.last.y == x - x_increment && g_em.last.x - 1 <= y && y <= g_em.last.x) \
                                                    : (g_em.last.x == x - x_increment && g_em.last.y - 1 <= y && y <= g_em.last.y + 1))) \
  __CPROVER_loop_invariant(g_em.connected) \
  __CPROVER_decreases(x_increment == 1 ? end.x - x : x - end.x)

ptrdiff_t line_point_count(const line_t* self)
__CPROVER_requires(__CPROVER_is_fresh(self, sizeof(*self)))
__CPROVER_requires(-CMAX <= self->start_point.x && self->start_point.x <= CMAX && -CMAX <= self->start_point.y && self->start_point.y <= CMAX)
__CPROVER_requires(-CMAX <= self->end_point.x && self->end_point.x <= CMAX && -CMAX <= self->end_point.y && self->end_point.y <= CMAX)
__CPROVER_ensures(RET == MAX(ABS(self->end_point.x - self->start_point.x), ABS(self->end_point.y - self->start_point.y)) + 1)   /* the number of pixels of the major axis */
__CPROVER_assigns()
@@line_point_count@@

void line_call(const line_t* self)
__CPROVER_requires(__CPROVER_is_fresh(self, sizeof(*self)))
__CPROVER_requires(-CMAX <= self->start_point.x && self->start_point.x <= CMAX && -CMAX <= self->start_point.y && self->start_point.y <= CMAX)
__CPROVER_requires(-CMAX <= self->end_point.x && self->end_point.x <= CMAX && -CMAX <= self->end_point.y && self->end_point.y <= CMAX)
__CPROVER_requires(g_em.count == 0 && !g_em.has && g_em.connected)
__CPROVER_assigns(g_em)
__CPROVER_ensures(g_em.count == MAX(ABS(self->end_point.x - self->start_point.x), ABS(self->end_point.y - self->start_point.y)) + 1)   /* writes exactly point_count() points */
__CPROVER_ensures(g_em.first.x == self->start_point.x && g_em.first.y == self->start_point.y)   /* the first point is the start point */
__CPROVER_ensures(g_em.last.x == self->end_point.x && g_em.last.y == self->end_point.y)         /* the last point is the end point */
@@line_call@@

#ifndef VERIF_NATIVE
void h_line_point_count(void){ line_t* s; line_point_count(s); __CPROVER_assert(0, "VACUITY"); }
void h_line_call(void){ line_t* s; EMIT_RESET(); g_lox = -CMAX - 1; g_hix = CMAX + 1; g_loy = -CMAX - 1; g_hiy = CMAX + 1; line_call(s); __CPROVER_assert(0, "VACUITY"); }
/* the body of the loop keeps the emitted polyline 8-connected and strictly monotone along the major axis up to (not including) the final
   step to the end point; the final step is covered by the bounded native check */
void h_line_connected(void){ line_t* s; EMIT_RESET(); g_lox = -CMAX - 1; g_hix = CMAX + 1; g_loy = -CMAX - 1; g_hiy = CMAX + 1;
  ptrdiff_t n; line_call(s); __CPROVER_assert(0, "VACUITY"); }
#endif
'''

NATIVE_LINE = r'''
// bounded stand-in: every clause of the line property on the REAL bresenham_line_rasterizer for all end-point pairs in a window
#include <boost/gil.hpp>
#include <boost/gil/extension/rasterization/line.hpp>
#include <vector>
#include <cmath>
#include "vreplay.hpp"
using namespace boost::gil;
int main(int argc, char** argv){ vr::parse(argc, argv); int R = vr::str("tier") == "thorough" ? 40 : 18; int S = vr::str("tier") == "thorough" ? 1 : 3;
  long n = 0, f_count = 0, f_ends = 0, f_conn = 0, f_mono = 0, f_bbox = 0, f_close = 0, known = 0, printed = 0; bool witness = false;
  for (int x0 = -R; x0 <= R; x0 += S) for (int y0 = -R; y0 <= R; y0 += S) for (int x1 = -R; x1 <= R; x1++) for (int y1 = -R; y1 <= R; y1++) { n++;
    bresenham_line_rasterizer r({x0, y0}, {x1, y1}); std::ptrdiff_t pc = r.point_count(); std::vector<point_t> t((size_t)pc + 4, point_t{123456, 654321}); r(t.begin());
    long W = std::labs(x1 - x0) + 1, H = std::labs(y1 - y0) + 1; if (W < H) std::swap(W, H);
    bool kf = false;
#ifdef KF_C20_LINE_OVERSHOOT
    // recorded failing set (root cause: slope (|dy|+1)/(|dx|+1) instead of |dy|/|dx|): the exact-arithmetic run of the library's own
    // stepping rule leaves the bounding box (W >= 4H) or deviates by more than one pixel from the ideal segment at some step k
    if (H >= 2) { if (W >= 4 * H) kf = true; for (long k = 0; k <= W - 2 && !kf; k++) { long y = (2 * k * H + W) / (2 * W); if (std::labs(y * (W - 1) - k * (H - 1)) > (W - 1)) kf = true; } }
#endif
    auto fail = [&](long& ctr, const char* what, bool coverable){ if (kf && coverable) { known++; return; } ctr++; if (printed++ < 5) std::printf("FAILCASE %s for (%d,%d)->(%d,%d)\n", what, x0, y0, x1, y1); };
    if (pc != std::max(std::labs(x1-x0), std::labs(y1-y0)) + 1 || t[pc].x != 123456) { fail(f_count, "point_count / number of points written", false); continue; }
    if (t[0].x != x0 || t[0].y != y0 || t[pc-1].x != x1 || t[pc-1].y != y1) fail(f_ends, "first/last point", false);
    long lox = std::min(x0,x1), hix = std::max(x0,x1), loy = std::min(y0,y1), hiy = std::max(y0,y1); bool major_x = std::labs(x1-x0) >= std::labs(y1-y0);
    bool bb = true, cl = true, cn = true, mo = true;
    for (std::ptrdiff_t i = 0; i < pc; i++) { auto p = t[i];
      if (p.x < lox || p.x > hix || p.y < loy || p.y > hiy) bb = false;
      if (i) { auto q = t[i-1]; if (std::labs(p.x-q.x) > 1 || std::labs(p.y-q.y) > 1 || (p.x == q.x && p.y == q.y)) cn = false;
               if (major_x ? (p.x - q.x) != (x1 >= x0 ? 1 : -1) : (p.y - q.y) != (y1 >= y0 ? 1 : -1)) mo = false; }
      double dx = x1 - x0, dy = y1 - y0; double d = major_x ? (dx == 0 ? 0 : std::fabs((p.y - y0) - dy * (p.x - x0) / dx)) : std::fabs((p.x - x0) - dx * (p.y - y0) / dy);
      if (d > 1.0) cl = false; }
    if (!bb) fail(f_bbox, "a point outside the end points' bounding box", true);
    if (!cl) fail(f_close, "a point more than one pixel from the ideal segment", true);
    if (!cn) fail(f_conn, "consecutive points not 8-connected", true);
    if (!mo) fail(f_mono, "not monotone along the major axis", false);
  }
#ifdef KF_C20_LINE_OVERSHOOT
  { bresenham_line_rasterizer r({0,0},{7,1}); std::vector<point_t> t(r.point_count()); r(t.begin()); for (auto p : t) if (p.y > 1) witness = true;
    if (witness) std::printf("KNOWNCASE C20-line-overshoot (0,0)->(7,1) emits (6,2) outside the bounding box; %ld window cases in the recorded failing set\n", known); }
#endif
  std::printf("CLAUSE count %s %ld exactly point_count() points are written\n", f_count ? "FAIL" : "PASS", f_count);
  std::printf("CLAUSE ends %s %ld first point is the start, last point is the end\n", f_ends ? "FAIL" : "PASS", f_ends);
  std::printf("CLAUSE connected %s %ld consecutive points are 8-connected\n", f_conn ? "FAIL" : "PASS", f_conn);
  std::printf("CLAUSE monotone %s %ld monotone along the major axis\n", f_mono ? "FAIL" : "PASS", f_mono);
  std::printf("CLAUSE bbox %s %ld every point inside the bounding box of the end points\n", f_bbox ? "FAIL" : "PASS", f_bbox);
  std::printf("CLAUSE close %s %ld every point within one pixel of the ideal segment along the minor axis\n", f_close ? "FAIL" : "PASS", f_close);
  std::printf("NATIVE cases=%ld window=|coordinates| <= %d (start stride %d), %ld cases in recorded known-finding sets\n", n, R, S, known);
  return 0; }
'''

REPLAY_LINE = r'''
#include <boost/gil.hpp>
#include <boost/gil/extension/rasterization/line.hpp>
#include <vector>
#include "vreplay.hpp"
using namespace boost::gil;
int main(int argc, char** argv){ vr::parse(argc, argv);
  long x0 = vr::i64("x0", 0), y0 = vr::i64("y0", 0), x1 = vr::i64("x1", 7), y1 = vr::i64("y1", 1);
  for (long a = -3; a <= 3; a++) for (long b = -3; b <= 3; b++) for (long c = -9; c <= 9; c++) for (long d = -9; d <= 9; d++) {
    bresenham_line_rasterizer r({x0 + a, y0 + b}, {x1 + c, y1 + d}); std::ptrdiff_t pc = r.point_count(); std::vector<point_t> t((size_t)pc + 2, point_t{-77777, -77777}); r(t.begin());
    long want = std::max(std::labs(x1 + c - x0 - a), std::labs(y1 + d - y0 - b)) + 1;
    if (pc != want) REPRODUCED("point_count() = %td for (%ld,%ld)->(%ld,%ld), expected %ld", pc, x0+a, y0+b, x1+c, y1+d, want);
    if (t[pc].x != -77777 || t[pc-1].x == -77777) REPRODUCED("operator() does not write exactly point_count() = %td points for (%ld,%ld)->(%ld,%ld)", pc, x0+a, y0+b, x1+c, y1+d);
    if (t[0].x != x0 + a || t[0].y != y0 + b || t[pc-1].x != x1 + c || t[pc-1].y != y1 + d) REPRODUCED("first/last point wrong for (%ld,%ld)->(%ld,%ld)", x0+a, y0+b, x1+c, y1+d);
  }
  NOT_REPRODUCED("count / first / last hold around the counterexample"); }
'''

# ------------------------------------------------------------------------------------------------ midpoint circle
R_MC = R_EMIT + [
    ('R13.drop_lambda', r'auto translate_mirror_points = \[this, &d_first\]\(point_t p\) \{.*?\};', '', False),
    ('R13.lambda_call', r'translate_mirror_points\(\{([^,{}]+), ([^{}]+?)\}\);', r'translate_mirror_points(self, \1, \2);', False),
    ('R11.pc', r'(?<![\w.>])point_count\(\)', 'mc_point_count(self)', False),
    ('R8.cos', r'std::cos\(boost::gil::detail::pi / 4\)', 'COS_PI_4', False),
    ('R5.round', r'std::round\(', 'round(', False),
]
X_CIRC = [
    X('mc_point_count', CIRC, r'std::ptrdiff_t point_count\(\) const noexcept\s*\{', within=W_MC, count=1, members=['center', 'radius'], rules=R_MC + [('must_cos', 'COS_PI_4', 'COS_PI_4', True)]),
    X('mc_lambda', CIRC, r'auto translate_mirror_points = \[this, &d_first\]\(point_t p\) \{', within=W_MC, count=1, members=['center', 'radius'],
      rules=R_EMIT + [('must_emit', r'EMIT\(', 'EMIT(', True)]),
    X('mc_call', CIRC, r'void operator\(\)\(OutputIterator d_first\) const\s*\{', within=W_MC, count=1, members=['center', 'radius'],
      rules=R_MC + [('R_loop', r'for \(std::ptrdiff_t x = 1; x < iteration_distance; \+\+x\)', 'for (ptrdiff_t x = 1; x < iteration_distance; ++x)\nCIRCLE_LOOP_CONTRACT', True),
                    ('must_lambda', r'translate_mirror_points\(self, ', 'translate_mirror_points(self, ', True)]),
]

CIRC_C = EMIT_C + r'''
typedef struct { point_t center; ptrdiff_t radius; } circle_t;
#define RMAX ((ptrdiff_t)RADIUS_MAX)
#define CIRCLE_LOOP_CONTRACT \
  __CPROVER_assigns(x, y_current, g_em) \
  __CPROVER_loop_invariant(1 <= x && x <= iteration_distance) \
  __CPROVER_loop_invariant(g_em.count == 8 * x && g_em.has) \
  __CPROVER_loop_invariant(0 <= y_current && y_current <= self->radius) \
  __CPROVER_loop_invariant(g_em.inbox) \
  __CPROVER_decreases(iteration_distance - x)

ptrdiff_t mc_point_count(const circle_t* self)
__CPROVER_requires(__CPROVER_is_fresh(self, sizeof(*self)) && 0 <= self->radius && self->radius <= RMAX)
__CPROVER_ensures(RET >= 8 && RET % 8 == 0 && RET / 8 <= self->radius + 1)       /* 8 mirrored points per step, at most radius+1 steps */
__CPROVER_ensures(self->radius < 2 || RET / 8 <= self->radius)
__CPROVER_assigns()
@@mc_point_count@@

/* the mirroring lambda of midpoint_circle_rasterizer::operator() (hoisted, rule R13): 8 points symmetric about the centre */
void translate_mirror_points(const circle_t* self, ptrdiff_t px, ptrdiff_t py)
__CPROVER_requires(-CMAX <= self->center.x && self->center.x <= CMAX && -CMAX <= self->center.y && self->center.y <= CMAX && 0 <= px && px <= self->radius && 0 <= py && py <= self->radius && self->radius <= RMAX)
__CPROVER_requires(g_lox == self->center.x - self->radius && g_hix == self->center.x + self->radius && g_loy == self->center.y - self->radius && g_hiy == self->center.y + self->radius)
__CPROVER_requires(g_em.count >= 0 && g_em.count <= 16 * RMAX + 16)
__CPROVER_assigns(g_em)
__CPROVER_ensures(g_em.count == __CPROVER_old(g_em.count) + 8 && g_em.has)           /* exactly 8 points */
__CPROVER_ensures(g_em.inbox == __CPROVER_old(g_em.inbox))                          /* all inside [centre - r, centre + r]^2 */
{ point_t p; p.x = px; p.y = py; @@mc_lambda@@ }

void mc_call(const circle_t* self)
__CPROVER_requires(__CPROVER_is_fresh(self, sizeof(*self)) && 0 <= self->radius && self->radius <= RMAX)
__CPROVER_requires(-CMAX <= self->center.x && self->center.x <= CMAX && -CMAX <= self->center.y && self->center.y <= CMAX)
__CPROVER_requires(g_lox == self->center.x - self->radius && g_hix == self->center.x + self->radius && g_loy == self->center.y - self->radius && g_hiy == self->center.y + self->radius)
__CPROVER_requires(g_em.count == 0 && !g_em.has && g_em.inbox)
__CPROVER_assigns(g_em)
__CPROVER_ensures(g_em.count % 8 == 0 && g_em.count >= 8 && g_em.count / 8 <= self->radius + 1)   /* exactly point_count() points (same expression as point_count) */
__CPROVER_ensures(g_em.inbox)                                                                      /* every point inside the bounding box of the circle */
@@mc_call@@

#ifndef VERIF_NATIVE
void h_mc_point_count(void){ circle_t* s; mc_point_count(s); __CPROVER_assert(0, "VACUITY"); }
void h_mc_lambda(void){ circle_t* s = malloc(sizeof(circle_t)); __CPROVER_assume(s != 0); ptrdiff_t px, py; emit_t e; g_em = e; translate_mirror_points(s, px, py); __CPROVER_assert(0, "VACUITY"); }
void h_mc_call(void){ circle_t* s; EMIT_RESET(); mc_call(s); __CPROVER_assert(0, "VACUITY"); }
/* count equality with point_count(): both are 8 * iteration_distance by the same expression */
void h_mc_count_eq(void){ circle_t c; __CPROVER_assume(0 <= c.radius && c.radius <= RMAX && -CMAX <= c.center.x && c.center.x <= CMAX && -CMAX <= c.center.y && c.center.y <= CMAX);
  EMIT_RESET(); g_lox = c.center.x - c.radius; g_hix = c.center.x + c.radius; g_loy = c.center.y - c.radius; g_hiy = c.center.y + c.radius;
  ptrdiff_t pc = mc_point_count(&c); mc_call(&c);
  __CPROVER_assert(g_em.count == pc, "midpoint circle: exactly point_count() points are written");
  __CPROVER_assert(0, "VACUITY"); }
#endif
'''

NATIVE_CIRC = r'''
#include <boost/gil.hpp>
#include <boost/gil/extension/rasterization/circle.hpp>
#include <vector>
#include <set>
#include <cmath>
#include "vreplay.hpp"
using namespace boost::gil;
int main(int argc, char** argv){ vr::parse(argc, argv); int R = vr::str("tier") == "thorough" ? 3000 : 400;
  long n = 0, f_count = 0, f_box = 0, f_close = 0, f_sym = 0, printed = 0;
  for (int r = 0; r <= R; r++) { n++; midpoint_circle_rasterizer m({5, -3}, r); std::ptrdiff_t pc = m.point_count(); std::vector<point_t> t((size_t)pc + 2, point_t{-77777, 0}); m(t.begin());
    auto fail = [&](long& c, const char* w){ c++; if (printed++ < 5) std::printf("FAILCASE midpoint circle radius %d: %s\n", r, w); };
    if (t[pc].x != -77777 || (pc && t[pc-1].x == -77777)) { fail(f_count, "does not write exactly point_count() points"); continue; }
    std::set<std::pair<long,long>> s; bool box = true, close = true;
    for (std::ptrdiff_t i = 0; i < pc; i++) { long x = t[i].x - 5, y = t[i].y + 3; s.insert({x, y}); if (std::labs(x) > r || std::labs(y) > r) box = false;
      double d = std::sqrt((double)x * x + (double)y * y); if (std::fabs(d - r) > 1.0) close = false; }
    bool sym = true; for (auto& p : s) if (!s.count({-p.first, p.second}) || !s.count({p.first, -p.second}) || !s.count({p.second, p.first})) sym = false;
    if (!box) fail(f_box, "a point outside the bounding box"); if (!close) fail(f_close, "a point more than one pixel from the ideal circle"); if (!sym) fail(f_sym, "point set not 8-fold symmetric"); }
  std::printf("CLAUSE count %s %ld exactly point_count() points are written\n", f_count ? "FAIL" : "PASS", f_count);
  std::printf("CLAUSE bbox %s %ld every point inside the circle's bounding box\n", f_box ? "FAIL" : "PASS", f_box);
  std::printf("CLAUSE close %s %ld every point within one pixel of the ideal circle\n", f_close ? "FAIL" : "PASS", f_close);
  std::printf("CLAUSE symmetric %s %ld the point set is 8-fold symmetric\n", f_sym ? "FAIL" : "PASS", f_sym);
  std::printf("NATIVE cases=%ld window=radius 0..%d\n", n, R); return 0; }
'''

# ------------------------------------------------------------------------------------------------ apply_rasterizer
def lower_range_for(body):
    """R11: `for (auto const& p : vec) STMT` / `{ STMTS }` -> index loop over the ghost vector, with its loop contract"""
    import re
    n = 0

    def rep(m):
        nonlocal n
        n += 1
        stmts = m.group(3) if m.group(3) is not None else m.group(4)
        return ('for (size_t i__ = 0; i__ < VEC_SIZE(%s); i__++)\nAPPLY_LOOP_CONTRACT(%s)\n{ point_t %s = VEC_AT(%s, i__); %s }'
                % (m.group(2), m.group(2), m.group(1), m.group(2), stmts))
    body = re.sub(r'for \(auto const& (\w+) : (\w+)\)\s*(?:\{([^{}]*)\}|([^;{}]*;))', rep, body)
    return body, n


R_APPLY = [
    ('R11.vec_static', r'static thread_local std::vector<point_t> (\w+);', r'vec_t \1 = VEC_STATIC();', False),
    ('R11.vec_sized', r'std::vector<point_t> (\w+)\(([^;]+)\);', r'vec_t \1 = VEC_SIZED(\2);', False),
    ('R11.vec_size', r'\b(\w+)\.size\(\)', r'VEC_SIZE(\1)', False),
    ('R11.vec_resize', r'\b(\w+)\.resize\(([^;]+)\);', r'VEC_RESIZE(&\1, \2);', False),
    ('R11.vec_clear', r'\b(\w+)\.clear\(\);', r'VEC_RESIZE(&\1, 0);', False),
    ('R11.rasterize', r'rasterizer\(std::begin\((\w+)\)\);', r'RASTERIZE(rasterizer, &\1);', False),
    ('R11.range_for', lower_range_for, None, True),
    ('R11.pc', r'rasterizer\.point_count\(\)', 'POINT_COUNT(rasterizer)', False),
    ('R11.view_write', r'view\((\w+)\) = pixel;', r'VIEW_WRITE(view, \1);', True),
    ('R4.auto_pc', r'auto const (\w+) = static_cast<std::size_t>\(', r'const size_t \1 = (size_t)(', False),
]
X_APPLY = [
    X('apply_line', LINE, r'void operator\(\)\(\s*View const& view, Rasterizer const& rasterizer, Pixel const& pixel\)\s*\{',
      within=r'struct apply_rasterizer_op<View, Rasterizer, Pixel, line_rasterizer_t>\s*\{', count=1, rules=R_APPLY),
    X('apply_circle', CIRC, r'void operator\(\)\(\s*View const& view, Rasterizer const& rasterizer, Pixel const& pixel\)\s*\{',
      within=r'struct apply_rasterizer_op<View, Rasterizer, Pixel, circle_rasterizer_t>\s*\{', count=1, rules=R_APPLY),
]
APPLY_C = r'''
/* ghost vector<point_t>: only its size matters; the rasterizer's contract (proved above) is that it writes exactly
   point_count() points starting at begin(): indices [0, point_count()) hold emitted points, the rest keep what they had */
#define NMAX ((size_t)1 << 40)
typedef struct { size_t size; } vec_t;
typedef struct { ptrdiff_t pc; } rast_t; typedef int view_t; typedef int Pixel;
size_t g_view_writes, g_stale_writes, g_emitted;
static vec_t VEC_SIZED(ptrdiff_t n) { vec_t v; __CPROVER_assert(n >= 0, "vector size is non-negative"); v.size = (size_t)n; return v; }
static vec_t VEC_STATIC(void) { vec_t v; size_t n; __CPROVER_assume(n <= NMAX); v.size = n; return v; }   /* a static vector: whatever earlier calls left */
#define VEC_SIZE(v) ((v).size)
static void VEC_RESIZE(vec_t* v, size_t n) { v->size = n; }
#define POINT_COUNT(r) ((r)->pc)
static void RASTERIZE(const rast_t* r, vec_t* v) { __CPROVER_assert((size_t)r->pc <= v->size, "rasterizer output fits the trajectory buffer (point_count() elements)"); g_emitted = (size_t)r->pc; }
typedef struct { size_t idx; } ptref_t;
#define VEC_AT(v, i) vec_at(i)
static point_t vec_at(size_t i) { point_t p; p.x = (ptrdiff_t)i; p.y = 0; return p; }       /* the i-th element: identified with its index */
static void VIEW_WRITE(const view_t* view, point_t p) { g_view_writes++; if ((size_t)p.x >= g_emitted) g_stale_writes++; }
#define APPLY_LOOP_CONTRACT(vec) \
  __CPROVER_assigns(i__, g_view_writes, g_stale_writes) \
  __CPROVER_loop_invariant(i__ <= VEC_SIZE(vec) && g_view_writes == i__) \
  __CPROVER_loop_invariant(g_stale_writes == (i__ > g_emitted ? i__ - g_emitted : 0)) \
  __CPROVER_decreases(VEC_SIZE(vec) - i__)
#define APPLY_CONTRACT \
__CPROVER_requires(__CPROVER_is_fresh(rasterizer, sizeof(*rasterizer)) && __CPROVER_is_fresh(view, sizeof(*view)) && 0 <= rasterizer->pc && rasterizer->pc <= (ptrdiff_t)NMAX) \
__CPROVER_requires(g_view_writes == 0 && g_stale_writes == 0) \
__CPROVER_assigns(g_view_writes, g_stale_writes, g_emitted) \
__CPROVER_ensures(g_view_writes == (size_t)rasterizer->pc)   /* exactly point_count() pixels are written ... */ \
__CPROVER_ensures(g_stale_writes == 0)                        /* ... each of them a point the rasterizer emitted in THIS call */
void apply_line(const view_t* view, const rast_t* rasterizer, Pixel pixel)
APPLY_CONTRACT
@@apply_line@@
void apply_circle(const view_t* view, const rast_t* rasterizer, Pixel pixel)
APPLY_CONTRACT
@@apply_circle@@
#ifndef VERIF_NATIVE
void h_apply_line(void){ view_t* v; rast_t* r; Pixel p; g_view_writes = 0; g_stale_writes = 0; apply_line(v, r, p); __CPROVER_assert(0, "VACUITY"); }
void h_apply_circle(void){ view_t* v; rast_t* r; Pixel p; g_view_writes = 0; g_stale_writes = 0; apply_circle(v, r, p); __CPROVER_assert(0, "VACUITY"); }
#endif
'''

REPLAY_APPLY = r'''
#include <boost/gil.hpp>
#include <boost/gil/extension/rasterization/line.hpp>
#include <boost/gil/extension/rasterization/circle.hpp>
#include <boost/gil/extension/rasterization/apply_rasterizer.hpp>
#include "vreplay.hpp"
using namespace boost::gil;
template <typename R> static long draw(gray8_image_t& img, R const& r) { fill_pixels(view(img), gray8_pixel_t(0)); apply_rasterizer(view(img), r, gray8_pixel_t(255));
  long c = 0; for (auto p : view(img)) if (p[0] == 255) c++; return c; }
int main(int argc, char** argv){ vr::parse(argc, argv); gray8_image_t img(200, 200);
  // a long shape first, then a short one (same template instantiation): the second call must only draw the second shape
  long big = draw(img, bresenham_line_rasterizer({0, 0}, {150, 40})); long small = draw(img, bresenham_line_rasterizer({10, 10}, {14, 12}));
  if (small != 5) REPRODUCED("apply_rasterizer(line (10,10)->(14,12)) set %ld pixels after an earlier longer line (%ld), expected 5", small, big);
  long cbig = draw(img, midpoint_circle_rasterizer({100, 100}, 60)); long csmall = draw(img, midpoint_circle_rasterizer({100, 100}, 3));
  view(img); fill_pixels(view(img), gray8_pixel_t(0)); apply_rasterizer(view(img), midpoint_circle_rasterizer({100, 100}, 3), gray8_pixel_t(255));
  for (int y = 0; y < 200; y++) for (int x = 0; x < 200; x++) if (view(img)(x, y)[0] == 255 && (std::abs(x - 100) > 3 || std::abs(y - 100) > 3)) REPRODUCED("circle r=3 drew pixel (%d,%d) outside its bounding box after an earlier larger circle (%ld px)", x, y, cbig);
  (void)csmall;
  NOT_REPRODUCED("apply_rasterizer draws only the current shape"); }
'''

# ------------------------------------------------------------------------------------------------ midpoint ellipse: draw_curve
ELL = 'boost/gil/extension/rasterization/ellipse.hpp'
R_ELL = [
    ('R11.compat', r'pixels_are_compatible<pixel_t, Pixel>\(\)', '1', True),
    ('R11.throw', r'throw std::runtime_error\("[^;]*\);', 'THROW();', True),
    ('R6.drop_using', r'using pixel_t = typename View::value_type;', '', True),
    ('R12.center2', r'point<unsigned int> center2\(center\);', 'upoint_t center2 = self->center;', True),
    ('R12.c0', r'\bcenter2\[0\]', 'center2.x', True), ('R12.c1', r'\bcenter2\[1\]', 'center2.y', True),
    ('R12.p0', r'\bpnt\[0\]', 'pnt.x', True), ('R12.p1', r'\bpnt\[1\]', 'pnt.y', True),
    ('R12.array', r'std::array<std::ptrdiff_t, 4> co_ords = \{', 'ptrdiff_t co_ords[4] = {', True),
    ('R12.bools', r'bool validity\[4\]\{\};', '_Bool validity[4] = {0, 0, 0, 0};', True),
    ('R4.true', r'= true;', '= 1;', True),
    ('R11.dims', r'auto const dims = view\.dimensions\(\);', 'const ptrdiff_t dims[2] = {g_view_w, g_view_h};', False),
    ('R11.w', r'\bview\.width\(\)', 'g_view_w', False), ('R11.h', r'\bview\.height\(\)', 'g_view_h', False),
    ('R11.last_write', r'view\(co_ords\[0\], co_ords\[3\]\) = pixel;\s*\}', 'VIEW_WRITE(co_ords[0], co_ords[3]); } ITER_END();', True),
    ('R11.write', r'view\((co_ords\[\d\]), (co_ords\[\d\])\) = pixel;', r'VIEW_WRITE(\1, \2);', True),
    ('R11.range_for', r'for \(point_t pnt : trajectory_points\)\s*\{', 'for (size_t i__ = 0; i__ < g_traj_n; i__++)\nELLIPSE_LOOP_CONTRACT\n{ point_t pnt = TRAJ_AT(i__); ITER_BEGIN(pnt);', True),
]
X_ELL = [X('draw_curve', ELL, r'void draw_curve\(View& view, Pixel const& pixel,\s*std::vector<point_t> const& trajectory_points\) const', count=1, rules=R_ELL)]
ELL_C = r'''
#define THROW() __CPROVER_assume(0)
typedef struct { unsigned int x, y; } upoint_t;             /* point<unsigned int> */
typedef struct { upoint_t center; upoint_t semi_axes; } ellipse_t;
/* ghost view, ghost trajectory (first-quadrant points: the contract of obtain_trajectory, bounded native stand-in), ghost reflection */
ptrdiff_t g_view_w, g_view_h; size_t g_traj_n;
int g_refl;                                   /* which of the four reflections of the current trajectory point is watched: bit 0 = mirror x, bit 1 = mirror y */
int64_t g_cx, g_cy;                           /* zero-based centre: center - 1 (the rasterizer's centre is one-based) */
int64_t g_ex, g_ey; _Bool g_hit;
static point_t TRAJ_AT(size_t i) { point_t p; __CPROVER_assume(0 <= p.x && p.x <= ((ptrdiff_t)1 << 31) && 0 <= p.y && p.y <= ((ptrdiff_t)1 << 31)); return p; }
static void ITER_BEGIN(point_t p) { g_hit = 0; g_ex = (g_refl & 1) ? g_cx - p.x : g_cx + p.x; g_ey = (g_refl & 2) ? g_cy - p.y : g_cy + p.y; }
static void VIEW_WRITE(ptrdiff_t x, ptrdiff_t y) { __CPROVER_assert(0 <= x && x < g_view_w && 0 <= y && y < g_view_h, "draw_curve writes only pixels inside the view");
  if (x == g_ex && y == g_ey) g_hit = 1; }
static void ITER_END(void) { __CPROVER_assert(IMPLIES(0 <= g_ex && g_ex < g_view_w && 0 <= g_ey && g_ey < g_view_h, g_hit), "each of the four reflections of a trajectory point that lies inside the view is written (4-fold symmetric set)"); }
#define ELLIPSE_LOOP_CONTRACT \
  __CPROVER_assigns(i__, g_hit, g_ex, g_ey) \
  __CPROVER_loop_invariant(i__ <= g_traj_n) \
  __CPROVER_decreases(g_traj_n - i__)
void draw_curve(const ellipse_t* self)
__CPROVER_requires(__CPROVER_is_fresh(self, sizeof(*self)))
__CPROVER_requires(1 <= self->center.x && 1 <= self->center.y)                   /* documented: one-based positive centre co-ordinates */
__CPROVER_requires(g_cx == (int64_t)self->center.x - 1 && g_cy == (int64_t)self->center.y - 1 && 0 <= g_refl && g_refl <= 3)
__CPROVER_requires(0 <= g_view_w && g_view_w <= ((ptrdiff_t)1 << 31) && 0 <= g_view_h && g_view_h <= ((ptrdiff_t)1 << 31) && g_traj_n <= ((size_t)1 << 40))
__CPROVER_assigns(g_hit, g_ex, g_ey)
__CPROVER_ensures(1)
@@draw_curve@@
#ifndef VERIF_NATIVE
void h_draw_curve(void){ ellipse_t* e; ptrdiff_t w, h; size_t n; int k; int64_t cx, cy; g_view_w = w; g_view_h = h; g_traj_n = n; g_refl = k; g_cx = cx; g_cy = cy; draw_curve(e); __CPROVER_assert(0, "VACUITY"); }
#endif
'''
NATIVE_ELL = r'''
#include <boost/gil.hpp>
#include <boost/gil/extension/rasterization/ellipse.hpp>
#include <vector>
#include <set>
#include "vreplay.hpp"
using namespace boost::gil;
int main(int argc, char** argv){ vr::parse(argc, argv); int N = vr::str("tier") == "thorough" ? 700 : 160;
  long n = 0, f_box = 0, f_quad = 0, f_conn = 0, f_draw = 0, printed = 0;
  for (int a = 1; a <= N; a++) for (int b = 1; b <= N; b++) { n++; midpoint_ellipse_rasterizer e({(unsigned)N + 2, (unsigned)N + 2}, {(unsigned)a, (unsigned)b}); std::vector<point_t> t = e.obtain_trajectory();
    auto fail = [&](long& c, const char* w){ c++; if (printed++ < 5) std::printf("FAILCASE midpoint ellipse semi-axes (%d,%d): %s\n", a, b, w); };
    bool box = true, conn = true; for (size_t i = 0; i < t.size(); i++) { if (t[i].x < 0 || t[i].x > a || t[i].y < 0 || t[i].y > b) box = false;
      if (i && (t[i].x > t[i-1].x || t[i].x < t[i-1].x - 1 || t[i].y < t[i-1].y || t[i].y > t[i-1].y + 1)) conn = false; }
    if (t.empty() || t[0].x != a || t[0].y != 0) fail(f_quad, "the trajectory does not start at (a, 0)");
    if (!box) fail(f_box, "a trajectory point outside the first-quadrant bounding box [0,a] x [0,b]"); if (!conn) fail(f_conn, "consecutive trajectory points are not 8-connected / monotone"); }
  // drawing: small ellipses into views of several shapes that contain the bounding box: painted set == 4-fold reflection of the trajectory
  for (int a = 1; a <= 12; a++) for (int b = 1; b <= 12; b++) for (int W : {30, 64}) for (int H : {30, 64}) { n++; gray8_image_t img(W, H); fill_pixels(view(img), gray8_pixel_t(0));
    unsigned cx = 15, cy = 15; midpoint_ellipse_rasterizer e({cx, cy}, {(unsigned)a, (unsigned)b}); auto v = view(img); apply_rasterizer(v, e, gray8_pixel_t(255));
    std::set<std::pair<long,long>> want; for (auto p : e.obtain_trajectory()) for (int sx : {-1, 1}) for (int sy : {-1, 1}) want.insert({(long)cx - 1 + sx * p.x, (long)cy - 1 + sy * p.y});
    bool ok = true; for (long y = 0; y < H; y++) for (long x = 0; x < W; x++) if ((v(x, y)[0] == 255) != (want.count({x, y}) != 0)) ok = false;
    if (!ok) { f_draw++; if (printed++ < 5) std::printf("FAILCASE ellipse semi-axes (%d,%d) in a %dx%d view: painted set is not the 4-fold reflection of the trajectory\n", a, b, W, H); } }
  std::printf("CLAUSE start %s %ld the first-quadrant trajectory starts at (a, 0)\n", f_quad ? "FAIL" : "PASS", f_quad);
  std::printf("CLAUSE bbox %s %ld every trajectory point inside [0,a] x [0,b]\n", f_box ? "FAIL" : "PASS", f_box);
  std::printf("CLAUSE connected %s %ld consecutive trajectory points are 8-connected and monotone\n", f_conn ? "FAIL" : "PASS", f_conn);
  std::printf("CLAUSE draw %s %ld apply_rasterizer paints exactly the 4-fold reflection of the trajectory in views that contain the bounding box\n", f_draw ? "FAIL" : "PASS", f_draw);
  std::printf("NATIVE cases=%ld window=semi-axes 1..%d x 1..%d (trajectory); semi-axes 1..12 in 30/64 x 30/64 views (drawing)\n", n, N, N); return 0; }
'''
REPLAY_ELL = r'''
#include <boost/gil.hpp>
#include <boost/gil/extension/rasterization/ellipse.hpp>
#include <set>
#include "vreplay.hpp"
using namespace boost::gil;
int main(int argc, char** argv){ vr::parse(argc, argv);
  // (A) views of several shapes containing the bounding box: painted set == 4-fold reflection; (B) clipped ellipses in a sub-view: nothing outside the sub-view changes
  for (int a = 1; a <= 10; a++) for (int b = 1; b <= 16; b++) for (int W : {40, 48, 96}) for (int H : {40, 48, 96}) { gray8_image_t img(W, H); fill_pixels(view(img), gray8_pixel_t(0));
    unsigned cx = 20, cy = (unsigned)H - 18; midpoint_ellipse_rasterizer e({cx, cy}, {(unsigned)a, (unsigned)b}); auto v = view(img); apply_rasterizer(v, e, gray8_pixel_t(255));
    std::set<std::pair<long,long>> want; for (auto p : e.obtain_trajectory()) for (int sx : {-1, 1}) for (int sy : {-1, 1}) want.insert({(long)cx - 1 + sx * p.x, (long)cy - 1 + sy * p.y});
    for (long y = 0; y < H; y++) for (long x = 0; x < W; x++) if ((v(x, y)[0] == 255) != (want.count({x, y}) != 0))
      REPRODUCED("ellipse centre (%u,%u) semi-axes (%d,%d) in a %dx%d view: pixel (%ld,%ld) %s", cx, cy, a, b, W, H, x, y, v(x, y)[0] == 255 ? "painted but not a reflection of a trajectory point" : "is a reflection of a trajectory point inside the view but was not painted"); }
  for (int W : {100, 40}) for (int H : {40, 100}) { gray8_image_t big(W + 60, H + 60); fill_pixels(view(big), gray8_pixel_t(0)); auto sub = subimage_view(view(big), 30, 30, W, H);
    midpoint_ellipse_rasterizer e({(unsigned)W / 2, (unsigned)H + 10}, {20, 25}); apply_rasterizer(sub, e, gray8_pixel_t(255));
    for (long y = 0; y < H + 60; y++) for (long x = 0; x < W + 60; x++) if (view(big)(x, y)[0] == 255 && !(x >= 30 && x < 30 + W && y >= 30 && y < 30 + H))
      REPRODUCED("clipped ellipse in a %dx%d sub-view: pixel (%ld,%ld) of the enclosing image, outside the sub-view, was written", W, H, x - 30, y - 30); }
  NOT_REPRODUCED("draw_curve paints exactly the reflections inside the view"); }
'''

REPLAY_CIRC = r'''
#include <boost/gil.hpp>
#include <boost/gil/extension/rasterization/circle.hpp>
#include <vector>
#include <set>
#include "vreplay.hpp"
using namespace boost::gil;
int main(int argc, char** argv){ vr::parse(argc, argv);
  for (int r = 0; r <= 300; r++) { midpoint_circle_rasterizer m({5, -3}, r); std::ptrdiff_t pc = m.point_count(); std::vector<point_t> t((size_t)pc + 2, point_t{-77777, 0}); m(t.begin());
    if (t[pc].x != -77777 || (pc && t[pc - 1].x == -77777)) REPRODUCED("midpoint circle radius %d does not write exactly point_count() = %td points", r, pc);
    std::set<std::pair<long, long>> s; for (std::ptrdiff_t i = 0; i < pc; i++) { long x = t[i].x - 5, y = t[i].y + 3; s.insert({x, y}); if (std::labs(x) > r || std::labs(y) > r) REPRODUCED("midpoint circle radius %d: point (%ld,%ld) outside the bounding box", r, x, y); }
    for (auto& p : s) if (!s.count({-p.first, p.second}) || !s.count({p.first, -p.second}) || !s.count({p.second, p.first})) REPRODUCED("midpoint circle radius %d: point set not 8-fold symmetric at (%ld,%ld)", r, p.first, p.second); }
  NOT_REPRODUCED("midpoint circles of radius 0..300: count, bounding box and symmetry hold"); }
'''

UNITS = [
    Unit('line', 'C20', LINE_C, extracts=X_LINE, replay=REPLAY_LINE,
         checks=[Check('point_count', 'h_line_point_count', enforce='line_point_count'),
                 Check('call', 'h_line_call', enforce='line_call', loops=True, object_bits=12, timeout=600, flags=['--float-overflow-check', '--nan-check'],
                       inputs=()),
                 Check('native_window', 'none', engine='N', native=NATIVE_LINE, timeout=1800)],
         preconditions=['line end points |coordinate| <= 10^6'],
         assumed=['output iterator = ghost emission monitor EMIT (count, first, last, running connectivity / bbox flags)']),
    Unit('circle', 'C20', CIRC_C, extracts=X_CIRC, replay=REPLAY_CIRC,
         insts=[('r4096', 'quick', {'RADIUS_MAX': '4096'})],
         probe_includes=['boost/gil.hpp', 'boost/gil/extension/rasterization/circle.hpp', 'cmath'],
         probe='P_VAL("COS_PI_4", std::cos(boost::gil::detail::pi / 4));',
         checks=[Check('point_count', 'h_mc_point_count', enforce='mc_point_count', timeout=300),
                 Check('lambda', 'h_mc_lambda', enforce='translate_mirror_points'),
                 Check('call', 'h_mc_call', enforce='mc_call', loops=True, replace=['mc_point_count', 'translate_mirror_points'], object_bits=12, timeout=900),
                 Check('native_window', 'none', engine='N', native=NATIVE_CIRC, timeout=1800)],
         preconditions=['circle radius 0..4096, |centre| <= 10^6 (radius^2 does not overflow; proved by the overflow obligations)'],
         assumed=['cos(pi/4) is the double constant the probe prints (g++ / libm)', 'CBMC round() model']),
    Unit('apply', 'C20', APPLY_C, extracts=X_APPLY, replay=REPLAY_APPLY,
         checks=[Check('apply_line', 'h_apply_line', enforce='apply_line', loops=True, object_bits=12),
                 Check('apply_circle', 'h_apply_circle', enforce='apply_circle', loops=True, object_bits=12)],
         assumed=['rasterizer(begin(v)) writes exactly point_count() points into v[0, point_count()) (the contract proved in units line / circle)',
                  'std::vector<point_t> modelled by its size; a static vector starts with an arbitrary size left by earlier calls']),
    Unit('ellipse', 'C20', ELL_C, extracts=X_ELL, replay=REPLAY_ELL,
         checks=[Check('draw_curve', 'h_draw_curve', enforce='draw_curve', loops=True, timeout=600),
                 Check('native_window', 'none', engine='N', native=NATIVE_ELL, timeout=1800)],
         preconditions=['one-based centre co-ordinates >= 1 (documented), view dimensions <= 2^31, trajectory points in the first quadrant with co-ordinates <= 2^31'],
         assumed=['obtain_trajectory returns first-quadrant points (bounded native stand-in: semi-axes 1..160 / 1..700)', 'view(x, y) = pixel writes pixel (x, y)']),
]

META = dict(
    not_covered=['trigonometric_circle_rasterizer (atan2/sin/cos: CBMC models not bit-accurate)', 'midpoint_ellipse_rasterizer::obtain_trajectory (Van Aken decision variables: no inductive invariant found; bounded native stand-in), closeness of the ellipse to the ideal curve',
                 'line: bounding box, one-pixel closeness and connectivity of the final step depend on the accumulated double error term: bounded native stand-in only',
                 'circle: closeness and symmetry: bounded native stand-in only'],
)
