"""C06 — channel_convert is the order-preserving linear range map with exact end points.

For an ordered pair (S, D) of channel models the binding probe asks g++ which
channel_converter_unsigned body the real headers select (std::is_base_of on the real class
hierarchy); that body, the signed shift functors and channel_converter::operator() are cut from
channel_algorithm.hpp and checked against the property clauses:
  (a) min -> min, max -> max   (b) result in range   (c) less than one destination unit from the exact
  linear map (float32 tolerance when a 32-bit or float channel is involved)   (d) monotone (two-point lemma)
  (e) converting to a channel with at least as many levels and back is the identity   (f) S == D identity.
"""
from vclib.core import X, Check, Unit
from vclib.cgen import Fn
from . import chan

CA = chan.CA


def bind_rules_dir(extra=(), UD='UD', US='US'):
    """R8 bindings shared by the converter bodies (text -> probe macro); for the backward direction the
    roles of the two macro families are exchanged"""
    r = _bind_rules(extra)
    if UD != 'UD':
        r = [(n, pat, rep.replace('UD_', '@D@').replace('US_', 'UD_').replace('@D@', 'US_').replace('CAST_UD', 'CAST_US') if isinstance(rep, str) else rep, m)
             for (n, pat, rep, m) in r]
    return r


def _bind_rules(extra=()):
    return [
        ('R8.D_maxT', r'typename (?:detail::)?unsigned_integral_max_value<DstChannelV>::value_type', 'UD_MAXT', False),
        ('R8.S_maxT', r'typename (?:detail::)?unsigned_integral_max_value<SrcChannelV>::value_type', 'US_MAXT', False),
        ('R8.D_max', r'unsigned_integral_max_value<DstChannelV>::value\b', 'UD_UMAX', False),
        ('R8.S_max', r'unsigned_integral_max_value<SrcChannelV>::value\b', 'US_UMAX', False),
        ('R8.D_base', r'typename base_channel_type<DstChannelV>::type', 'UD_T', False),
        ('R8.D_traits_max', r'channel_traits<DstChannelV>::max_value\(\)', 'UD_TRAITS_MAX', False),
        ('R8.S_traits_max', r'channel_traits<SrcChannelV>::max_value\(\)', 'US_TRAITS_MAX', False),
        ('R4.D_ctor', r'\bDstChannelV\(', 'CAST_UD(', False),
    ] + list(extra)


def conv_extracts(sfx):
    """candidate bodies of channel_converter_unsigned<S,D>; the probe's SEL_<id> macros pick one"""
    W = r'struct channel_converter_unsigned_integral_impl<SrcChannelV,DstChannelV,%s>\s*\{'
    N = r'struct channel_converter_unsigned_integral_nondivisible<SrcChannelV,\s*DstChannelV,\s*%s>\s*\{'
    op = r'auto operator\(\)\(SrcChannelV src\) const -> DstChannelV\s*\{'
    back = sfx == '_b'
    UD, US = ('US', 'UD') if back else ('UD', 'US')
    r = bind_rules_dir((), UD, US)

    def bind_rules(extra=()):
        return bind_rules_dir(extra, UD, US)
    return [
        X('tt' + sfx, CA, op, within=W % 'true,true', count=1, rules=r),
        X('ft' + sfx, CA, op, within=W % 'false,true', count=1, rules=r),
        X('nd_tf' + sfx, CA, op, within=N % r'true,\s*false', count=1, rules=r),
        X('nd_tt' + sfx, CA, op, within=N % r'true,\s*true', count=1, rules=r),
        X('nd_f' + sfx, CA, op, within=N % r'false,\s*CannotFit', count=1, rules=r),
        X('f32_to' + sfx, CA, r'auto operator\(\)\(float32_t x\) const -> DstChannelV\s*\{',
          within=r'template <typename DstChannelV> struct channel_converter_unsigned<float32_t,DstChannelV>\s*\{', count=1,
          rules=bind_rules([('R11.arg', r'\bx\b', 'src', True)])),
        X('to_f32' + sfx, CA, r'auto operator\(\)\(SrcChannelV x\) const -> float32_t\s*\{',
          within=r'template <typename SrcChannelV> struct channel_converter_unsigned<SrcChannelV,float32_t>\s*\{', count=1,
          rules=bind_rules([('R4.f32_ctor', r'\bfloat32_t\(', '(float)(', True), ('R11.arg', r'\bx\b', 'src', True)])),
        X('u32_f32' + sfx, CA, r'auto operator\(\)\(uint32_t x\) const -> float32_t\s*\{',
          within=r'template <> struct channel_converter_unsigned<uint32_t,float32_t>\s*\{', count=1,
          rules=[('R8.u32max', r'channel_traits<uint32_t>::max_value\(\)', '((uint32_t)4294967295u)', True),
                 ('R8.f32max', r'channel_traits<float32_t>::max_value\(\)', '(1.0f)', True), ('R11.arg', r'\bx\b', 'src', True)]),
        X('f32_u32' + sfx, CA, r'auto operator\(\)\(float32_t x\) const -> uint32_t\s*\{',
          within=r'template <> struct channel_converter_unsigned<float32_t,uint32_t>\s*\{', count=1,
          rules=[('R8.u32max', r'channel_traits<uint32_t>::max_value\(\)', '((uint32_t)4294967295u)', True),
                 ('R8.f32max', r'channel_traits<float32_t>::max_value\(\)', '(1.0f)', True),
                 ('R8.base', r'float32_t::base_channel_t', 'float', True),
                 ('R4.auto1', r'auto const max_value =', 'const uint32_t max_value =', True),
                 ('R4.auto2', r'auto const result =', 'const float result =', True),
                 ('R11.arg', r'\bx\b', 'src', True)]),
    ]


CANDS = ['tt', 'ft', 'nd_tf', 'nd_tt', 'nd_f', 'f32_to', 'to_f32', 'u32_f32', 'f32_u32']

X_TOP = X('conv_top', CA, r'auto operator\(\)\(SrcChannelV const& src\) const -> DstChannelV\s*\{',
          within=r'template <typename SrcChannelV, typename DstChannelV>[^\n]*\s*struct channel_converter\s*\{', count=1,
          rules=[('R6.drop_to_unsigned', r'using to_unsigned = detail::channel_convert_to_unsigned<SrcChannelV>;', '', True),
                 ('R6.drop_from_unsigned', r'using from_unsigned = detail::channel_convert_from_unsigned<DstChannelV>;', '', True),
                 ('R6.drop_converter', r'using converter_unsigned = channel_converter_unsigned<typename to_unsigned::result_type, typename from_unsigned::argument_type>;', '', True),
                 ('R11.from_unsigned', r'\bfrom_unsigned\(\)\(', 'FROM_UNSIGNED_D(', True),
                 ('R11.converter', r'\bconverter_unsigned\(\)\(', 'conv_unsigned(', True),
                 ('R11.to_unsigned', r'\bto_unsigned\(\)\(', 'TO_UNSIGNED_S(', True)])
X_PACKED_CTOR = X('packed_ctor', 'channel.hpp', r'packed_channel_value\(integer_t v\)\s*\{', count=1,
                  rules=[('R8.sigbits', r'low_bits_mask_t<NumBits>::sig_bits_fast', 'PK_MASK', True),
                         ('R8.integer_t', r'static_cast<integer_t>', 'static_cast<PK_T>', True)])

PROBE_PRE = chan.PROBE_CHANNEL + r'''
template <typename S, typename D> struct sel {
  using C = channel_converter_unsigned<S,D>;
  template <typename B> static int is() { return (int)std::is_base_of<B, C>::value; }
};
template <typename S, typename D> void probe_pair(const char* sfx) {
  using namespace boost::gil::detail;
  using US = typename channel_convert_to_unsigned<S>::result_type;      // what to_unsigned yields
  using UD = typename channel_convert_from_unsigned<D>::argument_type;  // what from_unsigned takes
  char n[64];
  auto N = [&](const char* base){ std::snprintf(n, sizeof n, "%s%s", base, sfx); return (const char*)n; };
  int tt = sel<US,UD>::template is<channel_converter_unsigned_integral_impl<US,UD,true,true>>();
  int ft = sel<US,UD>::template is<channel_converter_unsigned_integral_impl<US,UD,false,true>>();
  int nd_tf = sel<US,UD>::template is<channel_converter_unsigned_integral_nondivisible<US,UD,true,false>>();
  int nd_tt = sel<US,UD>::template is<channel_converter_unsigned_integral_nondivisible<US,UD,true,true>>();
  int nd_f = sel<US,UD>::template is<channel_converter_unsigned_integral_nondivisible<US,UD,false,false>>()
           + sel<US,UD>::template is<channel_converter_unsigned_integral_nondivisible<US,UD,false,true>>();
  int same = std::is_same<US,UD>::value;
  int sf = std::is_same<US,float32_t>::value, df = std::is_same<UD,float32_t>::value;
  int s32 = std::is_same<US,std::uint32_t>::value, d32 = std::is_same<UD,std::uint32_t>::value;
  int u32_f32 = s32 && df, f32_u32 = sf && d32;
  int f32_to = sf && !df && !d32, to_f32 = df && !sf && !s32;
  P_VAL(N("SEL_tt"), tt); P_VAL(N("SEL_ft"), ft); P_VAL(N("SEL_nd_tf"), nd_tf); P_VAL(N("SEL_nd_tt"), nd_tt); P_VAL(N("SEL_nd_f"), nd_f);
  P_VAL(N("SEL_f32_to"), f32_to); P_VAL(N("SEL_to_f32"), to_f32); P_VAL(N("SEL_u32_f32"), u32_f32); P_VAL(N("SEL_f32_u32"), f32_u32);
  P_VAL(N("SEL_same"), same);
  int total = tt + ft + nd_tf + nd_tt + nd_f + f32_to + to_f32 + u32_f32 + f32_u32 + same;
  if (total != 1) { std::fprintf(stderr, "probe: %d candidate bodies selected for this pair\n", total); std::exit(1); }
}
template <typename C> void probe_unsigned_consts(const char* pfx) {
  using namespace boost::gil::detail;
  char n[64];
  std::snprintf(n, sizeof n, "%s_IS_PACKED", pfx); P_VAL(n, (int)(!std::is_arithmetic<C>::value && !std::is_same<C,float32_t>::value));
}
template <typename C, bool Integral = boost::gil::detail::is_channel_integral<C>::value> struct umax_probe {
  static void run(const char* pfx) { char n[64];
    using namespace boost::gil::detail;
    std::snprintf(n, sizeof n, "%s_MAXT", pfx); P_TYPE(n, typename unsigned_integral_max_value<C>::value_type);
    std::snprintf(n, sizeof n, "%s_UMAX", pfx); P_TVAL(n, unsigned_integral_max_value<C>::value);
    std::snprintf(n, sizeof n, "%s_TRAITS_MAX", pfx); P_TVAL(n, (typename base_channel_type<C>::type)channel_traits<C>::max_value()); } };
template <typename C> struct umax_probe<C, false> { static void run(const char* pfx) { char n[64];
    std::snprintf(n, sizeof n, "%s_TRAITS_MAX", pfx); P_TVAL(n, (typename base_channel_type<C>::type)channel_traits<C>::max_value()); } };
'''

PROBE_MAIN = r'''
  using namespace boost::gil::detail;
  using US = typename channel_convert_to_unsigned<S>::result_type;
  using UD = typename channel_convert_from_unsigned<D>::argument_type;
  probe_channel<S>("S"); probe_channel<D>("D"); probe_channel<US>("US"); probe_channel<UD>("UD");
  probe_unsigned_consts<US>("US"); probe_unsigned_consts<UD>("UD");
  umax_probe<US>::run("US"); umax_probe<UD>::run("UD");
  probe_pair<S,D>("");        // forward S -> D
  probe_pair<D,S>("_b");      // backward D -> S (for the round-trip lemma)
  auto shift = [](const char* name, int bits, const char* sfx){ if (bits) std::printf("#define %s(x) %s_i%d(x)\n", name, sfx, bits); else std::printf("#define %s(x) (x)\n", name); };
  auto sbits = [](bool i8, bool i16, bool i32){ return i8 ? 8 : i16 ? 16 : i32 ? 32 : 0; };
  shift("TO_UNSIGNED_S", sbits(std::is_same<S,std::int8_t>::value, std::is_same<S,std::int16_t>::value, std::is_same<S,std::int32_t>::value), "to_unsigned");
  shift("FROM_UNSIGNED_D", sbits(std::is_same<D,std::int8_t>::value, std::is_same<D,std::int16_t>::value, std::is_same<D,std::int32_t>::value), "from_unsigned");
  shift("TO_UNSIGNED_D", sbits(std::is_same<D,std::int8_t>::value, std::is_same<D,std::int16_t>::value, std::is_same<D,std::int32_t>::value), "to_unsigned");
  shift("FROM_UNSIGNED_S", sbits(std::is_same<S,std::int8_t>::value, std::is_same<S,std::int16_t>::value, std::is_same<S,std::int32_t>::value), "from_unsigned");
'''


def is_float(ch):
    return ch == 'f32'


def levels(ch):
    if ch == 'f32':
        return 2 ** 24     # uniform resolution of binary32 on [0,1] (spacing 2^-24 just below 1); u32 has more levels
    if ch[0] == 'p':
        return 2 ** int(ch[1:])
    return 2 ** int(ch[1:])


def conv_template(s, d):
    """C text: forward unsigned converter (selected body) under contract, backward one (for the lemma),
    channel_converter::operator() under the property-level contract, lemma harnesses"""
    sf, df = is_float(s), is_float(d)
    t = ['typedef float float32_t;']
    # packed destination constructor (masking) for either direction
    for pfx in ('UD', 'US'):
        t.append('#if %s_IS_PACKED' % pfx)
        t.append('#define PK_T %s_T\n#define PK_MASK %s_MAXV' % (pfx, pfx))
        t.append(Fn('packed_ctor_%s' % pfx, '%s_T' % pfx, [('%s_T' % pfx, 'v')], 'packed_ctor',
                    ensures=[('masks to N bits', 'RET == (v & %s_MAXV)' % pfx)],
                    pre_body='%s_T value_;' % pfx, post_body='return value_;',
                    comment='packed_channel_value<N>::packed_channel_value(integer_t)').text())
        t.append('#undef PK_T\n#undef PK_MASK')
        t.append('#define CAST_%s(e) packed_ctor_%s((%s_T)(e))' % (pfx, pfx, pfx))
        t.append('#else\n#define CAST_%s(e) ((%s_T)(e))\n#endif' % (pfx, pfx))
    # ---- the unsigned converter the compiler selects, forward direction
    if sf and df:
        req, ens = ['0.0f <= src && src <= 1.0f'], [('identity', 'RET == src')]
    elif df:
        req = ['src <= US_MAXV']
        ens = [('in range', '0.0f <= RET && RET <= 1.0f'),
               ('min to min', 'IMPLIES(src == 0, RET == 0.0f)'), ('max to max', 'IMPLIES(src == US_MAXV, RET == 1.0f)'),
               ('exact linear map up to float32 precision (2^-23 relative)',
                '(double)RET * (double)US_MAXV - (double)src <= (double)US_MAXV * 0x1p-23 && (double)src - (double)RET * (double)US_MAXV <= (double)US_MAXV * 0x1p-23')]
    elif sf:
        req = ['0.0f <= src && src <= 1.0f']
        ens = [('in range', 'RET <= UD_MAXV'),
               ('min to min', 'IMPLIES(src == 0.0f, RET == 0)'), ('max to max', 'IMPLIES(src == 1.0f, RET == UD_MAXV)'),
               ('less than one destination unit from the exact linear map, up to float32 precision',
                '(double)RET - (double)src * (double)UD_MAXV < 1.0 + (double)UD_MAXV * 0x1p-23 && (double)src * (double)UD_MAXV - (double)RET < 1.0 + (double)UD_MAXV * 0x1p-23')]
    else:
        req = ['src <= US_MAXV']
        ens = [('in range', 'RET <= UD_MAXV'),
               ('min to min', 'IMPLIES(src == 0, RET == 0)'), ('max to max', 'IMPLIES(src == US_MAXV, RET == UD_MAXV)'),
               ('less than one destination unit above the exact linear map', 'I128(RET) * US_MAXV - I128(src) * UD_MAXV < I128(US_MAXV)'),
               ('less than one destination unit below the exact linear map', 'I128(src) * UD_MAXV - I128(RET) * US_MAXV < I128(US_MAXV)')]
    first = True
    for c in CANDS:
        t.append('#%s SEL_%s' % ('if' if first else 'elif', c))
        first = False
        t.append(Fn('conv_unsigned', 'UD_T', [('US_T', 'src')], c, requires=req, ensures=ens,
                    comment='channel_converter_unsigned<US,UD>::operator() - candidate body "%s" (selected by g++)' % c).definition())
    t.append('#elif SEL_same')
    t.append('/* channel_converter_unsigned<T,T> : detail::identity<T> */\nUD_T conv_unsigned(US_T src) { return src; }')
    t.append('#endif')
    f_any = Fn('conv_unsigned', 'UD_T', [('US_T', 'src')], 'none', requires=req, ensures=ens)
    t.append(f_any.harnesses())
    # ---- backward unsigned converter (for the round trip lemma only; its own contract is checked in the reverse pair)
    first = True
    t.append('/* backward direction D -> S: the candidate body g++ selects for channel_converter_unsigned<UD,US> */')
    for c in CANDS:
        t.append('#%s SEL_%s_b' % ('if' if first else 'elif', c))
        first = False
        t.append('US_T conv_unsigned_b(UD_T src)\n@@%s_b@@' % c)
    t.append('#elif SEL_same_b')
    t.append('US_T conv_unsigned_b(UD_T src) { return src; }')
    t.append('#endif')
    t.append(chan.SHIFT_C)
    # ---- channel_converter<S,D>::operator(): the property-level contract
    if sf and df:
        treq, tens = ['0.0f <= src && src <= 1.0f'], [('identity', 'RET == src')]
    elif df:
        treq = ['S_MINV <= src && src <= S_MAXV']
        tens = [('in range', '0.0f <= RET && RET <= 1.0f'),
                ('min to min', 'IMPLIES(src == S_MINV, RET == 0.0f)'), ('max to max', 'IMPLIES(src == S_MAXV, RET == 1.0f)'),
                ('exact linear map up to float32 precision',
                 '(double)RET * ((double)S_MAXV - (double)S_MINV) - ((double)src - (double)S_MINV) <= ((double)S_MAXV - (double)S_MINV) * 0x1p-23 && '
                 '((double)src - (double)S_MINV) - (double)RET * ((double)S_MAXV - (double)S_MINV) <= ((double)S_MAXV - (double)S_MINV) * 0x1p-23')]
    elif sf:
        treq = ['0.0f <= src && src <= 1.0f']
        tens = [('in range', 'D_MINV <= RET && RET <= D_MAXV'),
                ('min to min', 'IMPLIES(src == 0.0f, RET == D_MINV)'), ('max to max', 'IMPLIES(src == 1.0f, RET == D_MAXV)'),
                ('less than one destination unit from the exact linear map, up to float32 precision',
                 '((double)RET - (double)D_MINV) - (double)src * ((double)D_MAXV - (double)D_MINV) < 1.0 + ((double)D_MAXV - (double)D_MINV) * 0x1p-23 && '
                 '(double)src * ((double)D_MAXV - (double)D_MINV) - ((double)RET - (double)D_MINV) < 1.0 + ((double)D_MAXV - (double)D_MINV) * 0x1p-23')]
    else:
        treq = ['S_MINV <= src && src <= S_MAXV']
        tens = [('in range', 'D_MINV <= RET && RET <= D_MAXV'),
                ('min to min', 'IMPLIES(src == S_MINV, RET == D_MINV)'), ('max to max', 'IMPLIES(src == S_MAXV, RET == D_MAXV)'),
                ('less than one destination unit above the exact linear map',
                 '(I128(RET) - D_MINV) * (I128(S_MAXV) - S_MINV) - (I128(src) - S_MINV) * (I128(D_MAXV) - D_MINV) < (I128(S_MAXV) - S_MINV)'),
                ('less than one destination unit below the exact linear map',
                 '(I128(src) - S_MINV) * (I128(D_MAXV) - D_MINV) - (I128(RET) - D_MINV) * (I128(S_MAXV) - S_MINV) < (I128(S_MAXV) - S_MINV)')]
    top = Fn('channel_convert', 'D_T', [('S_T', 'src')], 'conv_top', requires=treq, ensures=tens,
             comment='channel_converter<S,D>::operator() - what channel_convert<D>(src) calls')
    t.append(top.text())
    t.append('/* backward channel_convert D -> S composed from the same real pieces */')
    t.append('S_T channel_convert_b(D_T src) { return FROM_UNSIGNED_S(conv_unsigned_b(TO_UNSIGNED_D(src))); }')
    rng = treq[0]
    lem = ['#ifndef VERIF_NATIVE',
           'void h_mono(void){ S_T src, y; __CPROVER_assume(%s); __CPROVER_assume(%s); __CPROVER_assume(src <= y);' % (rng, rng.replace('src', 'y')),
           '  __CPROVER_assert(channel_convert(src) <= channel_convert(y), "monotonically non-decreasing");',
           '  __CPROVER_assert(0, "VACUITY"); }']
    if levels(d) >= levels(s) and not sf:   # the round-trip clause is stated for integral source channels
        lem += ['void h_roundtrip(void){ S_T src; __CPROVER_assume(%s);' % rng,
                '  __CPROVER_assert(channel_convert_b(channel_convert(src)) == src, "converting to a channel with at least as many levels and back returns the original");',
                '  __CPROVER_assert(0, "VACUITY"); }']
    lem.append('#endif')
    t.append('\n'.join(lem))
    return '\n'.join(t)


REPLAY = r'''
// native replay for channel_convert<D>(S): evaluates the property clauses on the real function
#include <boost/gil/channel_algorithm.hpp>
#include <boost/gil/typedefs.hpp>
#include <cmath>
#include "vreplay.hpp"
using namespace boost::gil;
#include "inst.hpp"
using sb = base_channel_type<S>::type; using db = base_channel_type<D>::type;
template <typename T> T get(const char* n){ return std::is_floating_point<T>::value ? (T)vr::f32(n) : (T)vr::i64(n); }
static db conv(sb x){ return (db)channel_convert<D>(S(x)); }
static sb back(db x){ return (sb)channel_convert<S>(D(x)); }
int main(int argc, char** argv){ vr::parse(argc, argv);
  const long double slo = (long double)(sb)channel_traits<S>::min_value(), shi = (long double)(sb)channel_traits<S>::max_value();
  const long double dlo = (long double)(db)channel_traits<D>::min_value(), dhi = (long double)(db)channel_traits<D>::max_value();
  const bool fl = std::is_floating_point<sb>::value || std::is_floating_point<db>::value;
  sb x = get<sb>("src"), y = vr::has("y") ? get<sb>("y") : x;
  if (conv((sb)slo) != (db)dlo) REPRODUCED("channel_convert(min)=%Lg, expected %Lg", (long double)conv((sb)slo), dlo);
  if (conv((sb)shi) != (db)dhi) REPRODUCED("channel_convert(max=%Lg)=%Lg, expected %Lg", shi, (long double)conv((sb)shi), dhi);
  for (sb v : {x, y}) {
    long double r = conv(v);
    if (r < dlo || r > dhi) REPRODUCED("channel_convert(%Lg)=%Lg outside [%Lg,%Lg]", (long double)v, r, dlo, dhi);
    long double err = std::fabs((r - dlo) * (shi - slo) - ((long double)v - slo) * (dhi - dlo));
    long double unit = (shi - slo), tol = fl ? unit * ((std::is_floating_point<db>::value ? 0 : 1) + (dhi - dlo) * 1.1920928955078125e-7L) : unit;
    if (std::is_floating_point<db>::value ? err > (shi - slo) * 1.1920928955078125e-7L : err >= tol)
      REPRODUCED("channel_convert(%Lg)=%Lg is not within one destination unit of the exact linear map (error %Lg source-range units)", (long double)v, r, err / unit);
  }
  if (x <= y && conv(x) > conv(y)) REPRODUCED("not monotone: conv(%Lg)=%Lg > conv(%Lg)=%Lg", (long double)x, (long double)conv(x), (long double)y, (long double)conv(y));
  if (ROUNDTRIP && back(conv(x)) != x) REPRODUCED("round trip: %Lg -> %Lg -> %Lg", (long double)x, (long double)conv(x), (long double)back(conv(x)));
  if (!vr::has("src")) {   // window run (extraction-break fallback): the any-source -> float32_t / float64_t converters are shared by every source type, incl. floating sources
    for (int i = 0; i <= 4096; i++) { double v = i / 4096.0; float r = channel_convert<float32_t>(float64_t(v));
      if (std::fabs((double)r - v) > 1.2e-7) REPRODUCED("channel_convert<float32_t>(float64_t(%.17g)) = %.9g, not within float32 precision of the linear map", v, (double)r); }
    const int steps = 4099; sb prev = (sb)slo;
    for (int i = 0; i <= steps; i++) { sb v = (sb)(slo + (shi - slo) * i / steps); long double r = conv(v);
      long double err = std::fabs((r - dlo) * (shi - slo) - ((long double)v - slo) * (dhi - dlo)), unit = (shi - slo);
      if (r < dlo || r > dhi || (std::is_floating_point<db>::value ? err > unit * 1.1920928955078125e-7L : err >= (fl ? unit * (1 + (dhi - dlo) * 1.1920928955078125e-7L) : unit))) REPRODUCED("channel_convert(%Lg)=%Lg is not within one destination unit of the exact linear map", (long double)v, r);
      if (conv(prev) > conv(v)) REPRODUCED("not monotone: conv(%Lg)=%Lg > conv(%Lg)=%Lg", (long double)prev, (long double)conv(prev), (long double)v, (long double)conv(v)); prev = v; } }
  NOT_REPRODUCED("all channel_convert clauses hold at src=%Lg y=%Lg", (long double)x, (long double)y);
}
'''

FIDELITY = r'''
#include <boost/gil/channel_algorithm.hpp>
#include <boost/gil/typedefs.hpp>
#include <random>
#include "vreplay.hpp"
using namespace boost::gil;
#include "inst.hpp"
using sb = base_channel_type<S>::type; using db = base_channel_type<D>::type;
extern "C" db channel_convert(sb);
int main(int argc, char** argv){ vr::parse(argc, argv); std::mt19937_64 g(vr::u64("seed",1)); long n = vr::i64("n",100000), cases = 0;
  const long long lo = (long long)(sb)channel_traits<S>::min_value(), hi = (long long)(sb)channel_traits<S>::max_value();
  auto one = [&](sb a){ db r1 = ::channel_convert(a); db r2 = (db)boost::gil::channel_convert<D>(S(a)); cases++;
     if (std::memcmp(&r1,&r2,sizeof r1)) { std::printf("MISMATCH src=%Lg c=%Lg c++=%Lg\n",(long double)a,(long double)r1,(long double)r2); std::exit(1);} };
  if (std::is_floating_point<sb>::value) { std::uniform_real_distribution<float> d(0.f,1.f); for(long i=0;i<n;i++) one((sb)d(g)); one(0); one(1); one((sb)0.5f); }
  else if (hi-lo < 70000) { for(long long a=lo;a<=hi;a++) one((sb)a); }
  else { std::uniform_int_distribution<long long> d(lo,hi); for(long i=0;i<n;i++) one((sb)d(g)); one((sb)lo); one((sb)hi); one((sb)(lo+1)); one((sb)(hi-1)); }
  std::printf("FIDELITY cases=%ld\n", cases); return 0; }
'''


def conv_unit(s, d, tier):
    sf, df = is_float(s), is_float(d)
    fl = sf or df
    extracts = conv_extracts('') + conv_extracts('_b') + [X_TOP, X_PACKED_CTOR] + chan.shift_extracts()
    callees = ['conv_unsigned']
    if s in ('i8', 'i16', 'i32'):
        callees.append('to_unsigned_i' + s[1:])
    if d in ('i8', 'i16', 'i32'):
        callees.append('from_unsigned_i' + d[1:])
    fflags = ['--conversion-check', '--float-overflow-check', '--nan-check']
    big = any(c in ('u32', 'i32') or (c[0] == 'p' and int(c[1:]) > 16) for c in (s, d))
    to = None
    checks = []
    if sf and df:
        checks.append(Check('top', 'h_channel_convert', enforce='channel_convert', inputs=('src',), flags=fflags))
        checks.append(Check('lemma_mono', 'h_mono', engine='D', inputs=('src', 'y'), flags=fflags))
    elif fl:
        # float <-> 16/32-bit pairs: the double-precision spec arithmetic makes the SAT queries slow (minutes);
        # they are proved in the thorough tier, the quick tier keeps the 8-bit pairs and the unsigned converters
        heavy = any(c in ('u16', 'i16', 'u32', 'i32') or (c[0] == 'p' and int(c[1:]) > 8) for c in (s, d))
        very = any(c in ('u32', 'i32') for c in (s, d))
        ht = 'thorough' if heavy else 'quick'
        hto = 1800 if heavy else None
        checks.append(Check('unsigned', 'h_conv_unsigned', enforce='conv_unsigned', inputs=('src',), flags=fflags,
                            tier='thorough' if very else 'quick', timeout=1800 if very else None))
        checks.append(Check('top', 'h_channel_convert', enforce='channel_convert', replace=[c for c in callees if c != 'conv_unsigned'],
                            inputs=('src',), flags=fflags, tier=ht, timeout=hto))
        checks.append(Check('lemma_mono', 'h_mono', engine='D', inputs=('src', 'y'), flags=fflags, tier=ht, timeout=hto))
    else:
        # integer pairs: engine Z when the selected body is integer-only, engine S (bit-precise doubles) otherwise
        checks.append(Check('unsigned', 'h_conv_unsigned', engine='ZS', enforce='conv_unsigned', inputs=('src',), flags=fflags, timeout=to))
        checks.append(Check('top', 'h_channel_convert', engine='ZS', enforce='channel_convert', replace=callees,
                            defines=['ZSTUB_' + c for c in callees], inputs=('src',), flags=fflags, timeout=to))
        checks.append(Check('lemma_mono', 'h_mono', engine='ZD', inputs=('src', 'y'), flags=fflags, timeout=to))
    rt = levels(d) >= levels(s) and not sf
    if rt:
        checks.append(Check('lemma_roundtrip', 'h_roundtrip', engine='D' if fl else 'ZD', inputs=('src',), flags=fflags,
                            tier='thorough' if (fl and any(c in ('u16', 'i16', 'u32', 'i32') for c in (s, d))) else 'quick', timeout=1800 if fl else None))
    if s in ('i8', 'i16', 'i32'):
        checks.append(Check('to_unsigned', 'h_to_unsigned_i' + s[1:], enforce='to_unsigned_i' + s[1:], inputs=('v',)))
    if d in ('i8', 'i16', 'i32'):
        checks.append(Check('from_unsigned', 'h_from_unsigned_i' + d[1:], enforce='from_unsigned_i' + d[1:], inputs=('v',)))
    return Unit('conv.%s_%s' % (s, d), 'C06', conv_template(s, d), extracts=extracts, checks=checks,
                insts=[('%s_%s' % (s, d), tier, {'T_S': chan.CHANNELS[s], 'T_D': chan.CHANNELS[d], 'ROUNDTRIP': '1' if rt else '0'})],
                probe_includes=chan.PROBE_INCLUDES, probe=PROBE_MAIN, probe_pre=PROBE_PRE, replay=REPLAY, fidelity=FIDELITY,
                preconditions=['source channel value lies in [min_value, max_value] of its channel type'])


QUICK = [('u8', 'u16'), ('u16', 'u8'), ('u8', 'f32'), ('f32', 'u8'), ('u16', 'f32'), ('f32', 'u16'), ('u8', 'u32'), ('u32', 'u8'),
         ('u16', 'u32'), ('u32', 'u16'), ('p5', 'u8'), ('u8', 'p5'), ('p6', 'u8'), ('u8', 'p6'), ('u16', 'p5'), ('p5', 'u16'),
         ('i8', 'u8'), ('u8', 'i8'), ('i16', 'u8'), ('i8', 'i16'), ('i16', 'i8'), ('u32', 'f32'), ('f32', 'u32'),
         ('i32', 'u8'), ('u8', 'i32'), ('f32', 'i8'), ('i16', 'f32'), ('u8', 'u8'), ('f32', 'f32'), ('p5', 'p6'), ('p3', 'p7'), ('p7', 'u32'),
         # full-width packed channels (integer_t exactly N bits wide: intermediate sums can wrap in the carrier type)
         ('p8', 'p5'), ('p16', 'p15'), ('p16', 'p7'), ('p8', 'u16'), ('p5', 'p8'), ('u8', 'p8'), ('p16', 'u8'),
         # float <-> full-width packed (the float converter narrows to the destination's integer type)
         ('f32', 'p8'), ('f32', 'p16'), ('p8', 'f32'), ('f32', 'p5')]
BASE9 = ['u8', 'u16', 'u32', 'i8', 'i16', 'i32', 'f32', 'p5', 'p11']
THOROUGH = [(a, b) for a in BASE9 for b in BASE9] + \
    [('p%d' % n, 'u8') for n in range(1, 8)] + [('u8', 'p%d' % n) for n in range(1, 8)] + \
    [('p%d' % n, 'u16') for n in (1, 4, 9, 12, 15)] + [('u16', 'p%d' % n) for n in (1, 4, 9, 12, 15)] + \
    [('p%d' % a, 'p%d' % b) for a in (1, 2, 4, 5) for b in (3, 6, 8, 10, 16)] + [('p7', 'u32'), ('u32', 'p7')] + \
    [('p8', 'p%d' % n) for n in (1, 2, 3, 4, 6, 7)] + [('p16', 'p%d' % n) for n in (3, 5, 8, 9, 11, 12, 13, 14)] + \
    [('p32', 'p%d' % n) for n in (5, 16)] + [('p%d' % n, 'p32') for n in (5, 16)] + [('p32', 'u8'), ('p32', 'u16'), ('u16', 'p32')]

UNITS = []
_seen = set()
for (a, b) in QUICK:
    _seen.add((a, b))
    UNITS.append(conv_unit(a, b, 'quick'))
for (a, b) in THOROUGH:
    if (a, b) not in _seen:
        _seen.add((a, b))
        UNITS.append(conv_unit(a, b, 'thorough'))

META = dict(
    not_covered=['packed 20 <-> 24 bit and 31 <-> 32 bit pairs (double-precision converter bodies on wide symbolic values: 900 s time-outs; not registered)',
                 'channel_converter_unsigned_impl generic double path and the <uintmax_t,D,false,true> specialisation: not selected for any provided channel pair (dispatch decided by g++ in the probe)',
                 'channel models that are references/proxies (packed_channel_reference etc.): channel_convert reads them through channel_traits<>::value_type, i.e. the value types verified here'],
    assumptions=['IEEE-754 binary32/binary64 round-to-nearest'],
)
