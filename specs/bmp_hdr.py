"""C11 (part) — BMP header reader and the 15/16-bit colour-mask path.

Under contract (bodies cut on every run):
  reader_backend<Device, bmp_tag>::read_header          every header field comes from the device; no arithmetic on them is undefined and the
                                                        height is non-negative on return (a negative file height means top-down);
  detail::count_ones / detail::trailing_zeros           against __builtin_popcount / __builtin_ctz (width-bounded loops, fully unrolled with
                                                        unwinding assertions: complete for 32-bit arguments);
  reader::read_data_15, colour-mask set-up block        after it every channel mask is 1..8 bits wide and starts below bit 32, for EVERY three
                                                        masks a BI_BITFIELDS file can declare;
  reader::read_data_15, pixel decode expressions        ((p & mask) >> shift) << (8 - width): every shift count is in range.
"""
from vclib.core import X, Check, Unit

BMP = 'boost/gil/extension/io/bmp/detail/read.hpp'
BMB = 'boost/gil/extension/io/bmp/detail/reader_backend.hpp'
BITS = 'boost/gil/io/bit_operations.hpp'
BMS = 'boost/gil/extension/io/bmp/detail/scanline_read.hpp'

R_HDR = [('R8.height_min', r'\(std::numeric_limits<bmp_image_height::type>::min\)\(\)', 'HEIGHT_MIN', False),
         ('R11.read32', r'(?<![\w>])_io_dev\.read_uint32\(\)', 'DEV_read_uint32()', True), ('R11.read16', r'(?<![\w>])_io_dev\.read_uint16\(\)', 'DEV_read_uint16()', True),
         ('R3.info', r'(?<![\w>.])_info\.', 'self->_info.', True),
         ('R8.win32', r'bmp_header_size::_win32_info_size', 'BMP_WIN32_INFO_SIZE', True), ('R8.os2', r'bmp_header_size::_os2_info_size', 'BMP_OS2_INFO_SIZE', True),
         ('R8.rgb', r'bmp_compression::_rgb', 'BMP_RGB', True),
         ('R4.cast_w', r'static_cast< bmp_image_width::type  >', '(WIDTH_T)', True), ('R4.cast_h', r'static_cast< bmp_image_height::type >', '(HEIGHT_T)', True),
         ('R4.true', r'= true;', '= 1;', True),
         ('R11.io_error', r'io_error\( "[^"]*" \);', 'THROW();', True)]
R_MASK = [('R11.read32', r'this->_io_dev\.read_uint32\(\)', 'DEV_read_uint32()', True),
          ('R8.bitfield', r'bmp_compression::_bitfield', 'BMP_BITFIELD', True), ('R8.rgb', r'bmp_compression::_rgb', 'BMP_RGB', True),
          ('R11.io_error', r'io_error\( "[^"]*" \);', 'THROW();', True)]
X_HDR = [X('read_header', BMB, r'void read_header\(\)', count=1, rules=R_HDR),
         X('count_ones', BITS, r'unsigned int count_ones\(T x\) noexcept', count=1, rules=[('L.loop', r'while \(x\)', 'while (x)\nBIT_LOOP', True)]),
         X('trailing_zeros', BITS, r'unsigned int trailing_zeros\(T x\) noexcept', count=1, rules=[('L.loop', r'while \(x\)', 'while (x)\nBIT_LOOP', True)]),
         X('mask_setup', BMP, r'void read_data_15\( const View& view \)\s*\{\s*byte_vector_t row\( _pitch \);(.*?)using image_t = rgb8_image_t;', kind='expr', rules=R_MASK),
         X('decode15', BMP, r'int p = \( src\[1\] << 8 \) \| src\[0\];(.*?)get_color\( it\[i\], red_t\(\)', kind='expr', rules=[]),
         # the scanline reader has its own copy of both blocks
         X('sl_mask_setup', BMS, r'case 15:\s*case 16:\s*\{.*?_buffer\.resize\( _pitch \);(.*?)_read_function = std::mem_fn\(&this_t::read_15_bits_row\);', kind='expr', rules=R_MASK),
         X('sl_decode15', BMS, r'int p = \( src\[1\] << 8 \) \| src\[0\];(.*?)get_color\( dst_it\[i\], red_t\(\)', kind='expr', rules=[])]
HDR_C = r'''
#define THROW() __CPROVER_assume(0)            /* a C++ exception leaves the reader: the path ends here */
#define BIT_LOOP                               /* width-bounded loop: unrolled completely (--unwind 34 --unwinding-assertions) */
typedef struct { OFFSET_T _offset; HDRSIZE_T _header_size; WIDTH_T _width; HEIGHT_T _height; BPP_T _bits_per_pixel; COMPRESSION_T _compression; IMGSIZE_T _image_size;
                 HRES_T _horizontal_resolution; VRES_T _vertical_resolution; NUMCOL_T _num_colors; NUMIMP_T _num_important_colors; _Bool _top_down; _Bool _valid; } info_t;
typedef struct { unsigned int mask; unsigned int width; unsigned int shift; } bit_field;       /* reader_backend.hpp: struct bit_field (layout asserted by the probe) */
typedef struct { bit_field red; bit_field green; bit_field blue; } color_mask;
typedef struct { info_t _info; color_mask _mask; } rdr_t;
/* ghost device: arbitrary values (a short read throws, unit device_read) */
static uint32_t DEV_read_uint32(void) { uint32_t v; _Bool eof; if (eof) THROW(); return v; }
static uint16_t DEV_read_uint16(void) { uint16_t v; _Bool eof; if (eof) THROW(); return v; }

void read_header(rdr_t* self)
__CPROVER_requires(__CPROVER_is_fresh(self, sizeof(*self)))
__CPROVER_assigns(self->_info)
__CPROVER_ensures(self->_info._valid && IMPLIES(self->_info._header_size == BMP_WIN32_INFO_SIZE, self->_info._height >= 0))   /* win32 header: a negative file height (top-down bitmap) is stored as its magnitude */
@@read_header@@

typedef uint32_t T;
unsigned int count_ones(T x)
__CPROVER_assigns()
__CPROVER_ensures(RET == (unsigned)__builtin_popcount(x))
@@count_ones@@
unsigned int trailing_zeros(T x)
__CPROVER_assigns()
__CPROVER_ensures(RET == (x == 0 ? 32u : (unsigned)__builtin_ctz(x)))
@@trailing_zeros@@

#define FIELD_OK(f) (1 <= (f).width && (f).width <= 8 && (f).shift <= 31)
#define MASKS_OK(s) (FIELD_OK((s)->_mask.red) && FIELD_OK((s)->_mask.green) && FIELD_OK((s)->_mask.blue))
/* the block of read_data_15 that establishes _mask (from the file for BI_BITFIELDS, fixed 5-5-5 otherwise) */
void mask_setup(rdr_t* self)
__CPROVER_requires(__CPROVER_is_fresh(self, sizeof(*self)))
__CPROVER_requires(self->_info._bits_per_pixel == 15 || self->_info._bits_per_pixel == 16)     /* reader::apply dispatches here for 15 and 16 bits per pixel */
__CPROVER_assigns(self->_mask)
__CPROVER_ensures(MASKS_OK(self))          /* every channel: 1..8 bits wide (pixels are decoded into 8-bit channels), shift count below the width of int */
{
  @@mask_setup@@
}
/* one pixel of read_data_15: p is the little-endian 16-bit value of the file */
void decode15(const rdr_t* self, int p)
__CPROVER_requires(__CPROVER_is_fresh(self, sizeof(*self)) && MASKS_OK(self) && 0 <= p && p <= 65535)
__CPROVER_assigns()
__CPROVER_ensures(1)
{
  @@decode15@@
  (void)r; (void)g; (void)b;
}
/* scanline_reader<Device, bmp_tag>::initialize, case 15 / 16, and read_15_bits_row: the same two blocks */
void sl_mask_setup(rdr_t* self)
__CPROVER_requires(__CPROVER_is_fresh(self, sizeof(*self)))
__CPROVER_requires(self->_info._bits_per_pixel == 15 || self->_info._bits_per_pixel == 16)
__CPROVER_assigns(self->_mask)
__CPROVER_ensures(MASKS_OK(self))          /* every channel: 1..8 bits wide, shift count below the width of int */
{
  @@sl_mask_setup@@
}
void sl_decode15(const rdr_t* self, int p)
__CPROVER_requires(__CPROVER_is_fresh(self, sizeof(*self)) && MASKS_OK(self) && 0 <= p && p <= 65535)
__CPROVER_assigns()
__CPROVER_ensures(1)
{
  @@sl_decode15@@
  (void)r; (void)g; (void)b;
}
#ifndef VERIF_NATIVE
void h_sl_mask_setup(void){ rdr_t* s; sl_mask_setup(s); __CPROVER_assert(0, "VACUITY"); }
void h_sl_decode15(void){ rdr_t* s; int p; sl_decode15(s, p); __CPROVER_assert(0, "VACUITY"); }
void h_read_header(void){ rdr_t* s; read_header(s); __CPROVER_assert(0, "VACUITY"); }
void h_count_ones(void){ T x; count_ones(x); __CPROVER_assert(0, "VACUITY"); }
void h_trailing_zeros(void){ T x; trailing_zeros(x); __CPROVER_assert(0, "VACUITY"); }
void h_mask_setup(void){ rdr_t* s; mask_setup(s); __CPROVER_assert(0, "VACUITY"); }
void h_decode15(void){ rdr_t* s; int p; decode15(s, p); __CPROVER_assert(0, "VACUITY"); }
#endif
'''
HDR_PROBE = r'''
  typedef image_read_info<bmp_tag> I;
  P_TYPE("OFFSET_T", decltype(I()._offset)); P_TYPE("HDRSIZE_T", decltype(I()._header_size)); P_TYPE("WIDTH_T", decltype(I()._width)); P_TYPE("HEIGHT_T", decltype(I()._height));
  P_TYPE("BPP_T", decltype(I()._bits_per_pixel)); P_TYPE("COMPRESSION_T", decltype(I()._compression)); P_TYPE("IMGSIZE_T", decltype(I()._image_size));
  P_TYPE("HRES_T", decltype(I()._horizontal_resolution)); P_TYPE("VRES_T", decltype(I()._vertical_resolution)); P_TYPE("NUMCOL_T", decltype(I()._num_colors)); P_TYPE("NUMIMP_T", decltype(I()._num_important_colors));
  P_VAL("BMP_WIN32_INFO_SIZE", (long)bmp_header_size::_win32_info_size); P_VAL("BMP_OS2_INFO_SIZE", (long)bmp_header_size::_os2_info_size);
  P_VAL("HEIGHT_MIN", (long)std::numeric_limits<bmp_image_height::type>::min()); P_VAL("BMP_RGB", (long)bmp_compression::_rgb); P_VAL("BMP_BITFIELD", (long)bmp_compression::_bitfield);
  static_assert(sizeof(bit_field) == 3 * sizeof(unsigned int) && std::is_same<decltype(bit_field().mask), unsigned int>::value && std::is_same<decltype(bit_field().width), unsigned int>::value && std::is_same<decltype(bit_field().shift), unsigned int>::value, "struct bit_field is three unsigned ints");
'''
HDR_REPLAY = r'''
// native search (UBSan + ASan, real read_image): BI_BITFIELDS files with every combination of 11 mask values per channel, and header heights
// around INT_MIN
#include <boost/gil.hpp>
#include <boost/gil/extension/io/bmp.hpp>
#include <sstream>
#include <string>
#include <vector>
#include <sanitizer/common_interface_defs.h>
#include "vreplay.hpp"
using namespace boost::gil;
static std::string g_case;
static void on_death() { std::fprintf(stderr, "\nFAILING INPUT: %s\n", g_case.c_str()); }
static void le16(std::string& s, unsigned v) { s.push_back((char)(v & 255)); s.push_back((char)((v >> 8) & 255)); }
static void le32(std::string& s, unsigned v) { le16(s, v & 65535); le16(s, v >> 16); }
static std::string hdr(unsigned w, unsigned h, int bpp, unsigned comp, unsigned extra) { std::string f = "BM"; le32(f, 0); le32(f, 0); le32(f, 14 + 40 + extra); le32(f, 40); le32(f, w); le32(f, h); le16(f, 1); le16(f, bpp); le32(f, comp); le32(f, 0); le32(f, 2835); le32(f, 2835); le32(f, 0); le32(f, 0); return f; }
static void feed(std::string const& bytes) { { std::istringstream in(bytes, std::ios::binary); rgb8_image_t img; try { read_image(in, img, bmp_tag()); } catch (std::exception const&) {} }
  { std::istringstream in(bytes, std::ios::binary); try { using D = detail::istream_device<bmp_tag>; D dev(in); scanline_reader<D, bmp_tag> r(dev, image_read_settings<bmp_tag>());
      if (r._info._width > 0 && r._info._width < 64) { std::vector<byte_t> row(r._scanline_length + 4096);
      for (int y = 0; y < r._info._height && y < 4; y++) r.read(row.data(), y); } } catch (std::exception const&) {} } }
int main(int argc, char** argv){ vr::parse(argc, argv); __sanitizer_set_death_callback(on_death); long cases = 0;
  const unsigned M[] = {0u, 1u, 0x1Fu, 0x3E0u, 0x7C00u, 0xF800u, 0xFFFFu, 0xFF00u, 0x1FFu, 0x80000000u, 0xFFFFFFFFu};
  for (int bpp : {16, 15}) for (unsigned r : M) for (unsigned g : M) for (unsigned b : M) { char t[160]; std::snprintf(t, sizeof t, "BMP 2x1 bpp=%d compression=3 (BI_BITFIELDS) masks red=0x%X green=0x%X blue=0x%X pixel data 12 34 56 78", bpp, r, g, b); g_case = t; cases++;
    std::string f = hdr(2, 1, bpp, 3, 12); le32(f, r); le32(f, g); le32(f, b); f += std::string("\x12\x34\x56\x78", 4); feed(f); }
  for (unsigned h : {0x80000000u, 0x80000001u, 0xFFFFFFFFu, 0xFFFFFFFEu, 0x7FFFFFFFu}) for (unsigned w : {1u, 2u, 0xFFFFFFFFu, 0x80000000u}) { char t[160]; std::snprintf(t, sizeof t, "BMP header width=0x%X height=0x%X bpp=24 uncompressed, 16 data bytes", w, h); g_case = t; cases++;
    feed(hdr(w, h, 24, 0, 0) + std::string(16, (char)0x11)); }
  NOT_REPRODUCED("no crafted BMP header / colour-mask file of the search window (%ld files) misbehaves", cases); }
'''
UNITS = [
    Unit('bmp_header', 'C11', HDR_C, extracts=X_HDR, probe_includes=['boost/gil.hpp', 'boost/gil/extension/io/bmp.hpp'], probe=HDR_PROBE, insts=[('hdr', 'quick', {})], replay=HDR_REPLAY,
         checks=[Check('read_header', 'h_read_header', enforce='read_header', timeout=600),
                 Check('count_ones', 'h_count_ones', enforce='count_ones', unwind=34, timeout=900),
                 Check('trailing_zeros', 'h_trailing_zeros', enforce='trailing_zeros', unwind=34, timeout=900),
                 Check('mask_setup', 'h_mask_setup', enforce='mask_setup', replace=['count_ones', 'trailing_zeros'], timeout=600),
                 Check('decode15', 'h_decode15', enforce='decode15', timeout=600),
                 Check('scanline_mask_setup', 'h_sl_mask_setup', enforce='sl_mask_setup', replace=['count_ones', 'trailing_zeros'], timeout=600),
                 Check('scanline_decode15', 'h_sl_decode15', enforce='sl_decode15', timeout=600)],
         preconditions=['mask set-up: bit depth 15 or 16 (the depths reader::apply dispatches to read_data_15); pixel value 0..65535'],
         assumed=['the device delivers arbitrary 16 / 32-bit values or throws (unit device_read)', 'io_error(...) throws']),
]
