"""C07 — channel_multiply / channel_invert laws.

Functions under contract (real bodies cut from channel_algorithm.hpp on every run):
  detail::div255, detail::div32768, channel_multiplier_unsigned<uint8_t|uint16_t|float32_t>::operator(),
  the generic channel_multiplier_unsigned<T>::operator() (double path; packed and 32-bit channels),
  channel_multiplier<T>::operator() (signed shift composition), channel_invert<T>,
  detail::channel_convert_to_unsigned / from_unsigned <int8|16|32>, packed_channel_value<N>(integer_t).
Every top-level postcondition is a sentence of the property statement."""
from vclib.core import X, Check, Unit
from vclib.cgen import Fn
from . import chan

CA = chan.CA

# ------------------------------------------------------------------------------------------------
X_DIV255 = X('div255', CA, r'inline auto div255\(uint32_t in\) -> uint32_t\s*\{', count=1)
X_DIV32768 = X('div32768', CA, r'inline auto div32768\(uint32_t in\) -> uint32_t\s*\{', count=1)
R_INTMUL = [('R8.maxv8', r'channel_traits<uint8_t>::max_value\(\)', '255', False), ('R8.maxv16', r'channel_traits<uint16_t>::max_value\(\)', '65535', False),
            ('R9.float', r'(?<![\w)])float\(', '(float)(', False), ('R9.double', r'(?<![\w)])double\(', '(double)(', False)]
X_MUL_U8 = X('mul_u8', CA, r'auto operator\(\)\(uint8_t a, uint8_t b\) const -> uint8_t\s*\{',
             within=r'template<> struct channel_multiplier_unsigned<uint8_t>\s*\{', count=1, rules=R_INTMUL)
X_MUL_U16 = X('mul_u16', CA, r'auto operator\(\)\(uint16_t a, uint16_t b\) const -> uint16_t\s*\{',
              within=r'template<> struct channel_multiplier_unsigned<uint16_t>\s*\{', count=1, rules=R_INTMUL)
X_MUL_F32 = X('mul_f32', CA, r'auto operator\(\)\(float32_t a, float32_t b\) const -> float32_t\s*\{',
              within=r'template<> struct channel_multiplier_unsigned<float32_t>\s*\{', count=1)
X_MUL_GEN = X('mul_generic', CA, r'auto operator\(\)\(ChannelValue a, ChannelValue b\) const -> ChannelValue\s*\{',
              within=r'template <typename ChannelValue>\s*struct channel_multiplier_unsigned\s*\{', count=1,
              rules=[('R8.base_t', r'typename base_channel_type<ChannelValue>::type', 'U_T', True),
                     ('R8.maxv', r'channel_traits<ChannelValue>::max_value\(\)', 'U_MAXV', True),
                     ('R4.CV_ctor', r'\bChannelValue\(', 'CAST_U(', True)])
X_MUL_TOP = X('mul_top', CA, r'auto operator\(\)\(ChannelValue a, ChannelValue b\) const -> ChannelValue\s*\{',
              within=r'template <typename ChannelValue>\s*struct channel_multiplier\s*\{', count=1,
              rules=[('R6.drop_to_unsigned', r'using to_unsigned = detail::channel_convert_to_unsigned<ChannelValue>;', '', True),
                     ('R6.drop_from_unsigned', r'using from_unsigned = detail::channel_convert_from_unsigned<ChannelValue>;', '', True),
                     ('R6.drop_multiplier', r'using multiplier_unsigned = channel_multiplier_unsigned<typename to_unsigned::result_type>;', '', True),
                     ('R4.CV_ctor', r'\bChannelValue\(', '(C_T)(', False),
                     ('R11.from_unsigned', r'\bfrom_unsigned\(\)\(', 'FROM_UNSIGNED(', True),
                     ('R11.multiplier', r'\bmultiplier_unsigned\(\)\(', 'MUL_UNSIGNED(', True),
                     ('R11.to_unsigned', r'\bto_unsigned\(\)\(', 'TO_UNSIGNED(', True)])
X_PACKED_CTOR = X('packed_ctor', 'channel.hpp', r'packed_channel_value\(integer_t v\)\s*\{', count=1,
                  rules=[('R8.sigbits', r'low_bits_mask_t<NumBits>::sig_bits_fast', 'U_SIGBITS', True),
                         ('R8.integer_t', r'static_cast<integer_t>', 'static_cast<U_T>', True)])
X_INVERT = X('invert', CA, r'inline auto channel_invert\(Channel x\) -> typename channel_traits<Channel>::value_type\s*\{', count=1,
             rules=[('R8.base_t', r'typename base_channel_type<Channel>::type', 'C_T', True),
                    ('R8.promoted_t', r'typename promote_integral<base_t>::type', 'C_PROMOTED_T', True),
                    ('R8.maxv', r'channel_traits<Channel>::max_value\(\)', 'C_MAXV', True),
                    ('R8.minv', r'channel_traits<Channel>::min_value\(\)', 'C_MINV', True)])


F_DIV255 = Fn('div255', 'uint32_t', [('uint32_t', 'in')], 'div255',
              requires=['in <= 65025'],
              ensures=[('result is a channel value', 'RET <= 255'),
                       ('RET = round(in/255)', '255 * I64(RET) <= I64(in) + 127 && I64(in) <= 255 * I64(RET) + 127')],
              comment='detail::div255, "fast integer division by 255": every product of two 8-bit channels (in <= 255*255)')
F_DIV32768 = Fn('div32768', 'uint32_t', [('uint32_t', 'in')], 'div32768',
                requires=['in <= 4294950911u'],
                ensures=[('RET = round(in/32768)', '32768 * I64(RET) <= I64(in) + 16384 && I64(in) + 16384 < 32768 * (I64(RET) + 1)')],
                comment='detail::div32768 (in + 16384 must not wrap)')
F_MUL_U8 = Fn('mul_u8', 'uint8_t', [('uint8_t', 'a'), ('uint8_t', 'b')], 'mul_u8',
              ensures=[('a*b/255 within one unit', '255 * I64(RET) < I64(a) * b + 255 && I64(a) * b < 255 * I64(RET) + 255')],
              comment='channel_multiplier_unsigned<uint8_t>::operator()')
F_MUL_U16 = Fn('mul_u16', 'uint16_t', [('uint16_t', 'a'), ('uint16_t', 'b')], 'mul_u16',
               ensures=[('a*b/65535 within one unit', '65535 * I64(RET) < I64(a) * b + 65535 && I64(a) * b < 65535 * (I64(RET) + 1)')],
               comment='channel_multiplier_unsigned<uint16_t>::operator()')
F_MUL_F32 = Fn('mul_f32', 'float', [('float', 'a'), ('float', 'b')], 'mul_f32',
               requires=['0.0f <= a && a <= 1.0f && 0.0f <= b && b <= 1.0f'],
               ensures=[('the IEEE product a*b (max = 1)', 'RET == a * b'),
                        ('in range', '0.0f <= RET && RET <= 1.0f')],
               comment='channel_multiplier_unsigned<float32_t>::operator() (float32_t lowered to its base type float)')
F_PACKED_CTOR = Fn('packed_ctor', 'U_T', [('U_T', 'v')], 'packed_ctor',
                   ensures=[('masks to N bits', 'RET == (v & U_MAXV)')],
                   pre_body='U_T value_;', post_body='return value_;',
                   comment='packed_channel_value<N>::packed_channel_value(integer_t)')
F_MUL_GEN = Fn('mul_generic', 'U_T', [('U_T', 'a'), ('U_T', 'b')], 'mul_generic',
               requires=['a <= U_MAXV && b <= U_MAXV'],
               ensures=[('in range', 'RET <= U_MAXV'),
                        ('less than one unit above a*b/max', 'I128(RET) * U_MAXV < I128(a) * b + U_MAXV'),
                        ('less than one unit below a*b/max', 'I128(a) * b < (I128(RET) + 1) * U_MAXV')],
               comment='generic channel_multiplier_unsigned<T>::operator(): a / double(max) * b, truncated')
DIV_C = F_DIV255.text()
DIV32768_C = F_DIV32768.text()
MUL_U8_C = F_MUL_U8.text()
MUL_U16_C = F_MUL_U16.text()
MUL_F32_C = 'typedef float float32_t;\n' + F_MUL_F32.text()
PACKED_CTOR_C = '#if U_IS_PACKED\n' + F_PACKED_CTOR.text() + '#define CAST_U(e) packed_ctor((U_T)(e))\n#else\n#define CAST_U(e) ((U_T)(e))\n#endif\n'
MUL_GEN_C = F_MUL_GEN.text()


def lemma_harnesses(f, T, lo, hi, is_float=False, unit_lo=None, unit_hi=None):
    """two/three-point lemma harnesses over the real body of f (inlined): complete for loop-free code"""
    rng = lambda v: '__CPROVER_assume(%s <= %s && %s <= %s);' % (lo, v, v, hi)
    return r'''
#ifndef VERIF_NATIVE
void h_%(f)s_comm(void){ %(T)s a, b; %(ra)s %(rb)s
#ifdef KF_C07_GENERIC_COMM
  /* known finding C07-generic-mul-noncommutative: the pairs on which the recorded formula a / double(max) * b (truncated) rounds
     differently in the two argument orders are excluded; any other non-commutative pair is still a violation */
  { U_T ua__ = TO_UNSIGNED(a), ub__ = TO_UNSIGNED(b);
    __CPROVER_assume((U_T)((double)ua__ / (double)U_MAXV * (double)ub__) == (U_T)((double)ub__ / (double)U_MAXV * (double)ua__)); }
#endif
  __CPROVER_assert(%(f)s(a,b) == %(f)s(b,a), "commutative");
  __CPROVER_assert(0, "VACUITY"); }
void h_%(f)s_mono(void){ %(T)s a, a2, b; %(ra)s %(ra2)s %(rb)s __CPROVER_assume(a <= a2);
  __CPROVER_assert(%(f)s(a,b) <= %(f)s(a2,b), "monotone in first argument");
  __CPROVER_assert(%(f)s(b,a) <= %(f)s(b,a2), "monotone in second argument");
  __CPROVER_assert(0, "VACUITY"); }
void h_%(f)s_ident(void){ %(T)s a; %(ra)s
  __CPROVER_assert(%(f)s(a, %(hi)s) == a, "maximum is the identity");
  __CPROVER_assert(%(f)s(%(hi)s, a) == a, "maximum is the identity (left)");
  __CPROVER_assert(%(f)s(a, %(lo)s) == %(lo)s, "minimum is the annihilator");
  __CPROVER_assert(%(f)s(%(lo)s, a) == %(lo)s, "minimum is the annihilator (left)");
  %(T)s r = %(f)s(a, a); __CPROVER_assert(%(lo)s <= r && r <= %(hi)s, "result in channel range");
  __CPROVER_assert(0, "VACUITY"); }
#endif
''' % dict(f=f, T=T, lo=lo, hi=hi, ra=rng('a'), ra2=rng('a2'), rb=rng('b'))


def lemma_checks(f, inputs=True, engine='D', tier='quick', flags=(), timeout=None):
    return [
        Check('lemma_comm', 'h_%s_comm' % f, engine=engine, inputs=('a', 'b'), tier=tier, flags=flags, replay='lemma', timeout=timeout),
        Check('lemma_mono', 'h_%s_mono' % f, engine=engine, inputs=('a', 'a2', 'b'), tier=tier, flags=flags, replay='lemma', timeout=timeout),
        Check('lemma_ident', 'h_%s_ident' % f, engine=engine, inputs=('a',), tier=tier, flags=flags, replay='lemma', timeout=timeout),
    ]


REPLAY_MUL = r'''
// native replay for channel_multiply: evaluates the property-level clauses on the real function
#include <boost/gil/channel_algorithm.hpp>
#include <boost/gil/typedefs.hpp>
#include <cmath>
#include "vreplay.hpp"
using namespace boost::gil;
#include "inst.hpp"
using base_t = base_channel_type<CV>::type;
template <typename T> typename std::enable_if<std::is_floating_point<T>::value, T>::type get(const char* n){ return (T)vr::f32(n); }
template <typename T> typename std::enable_if<!std::is_floating_point<T>::value, T>::type get(const char* n){ return (T)vr::i64(n); }
static base_t mul(base_t a, base_t b){ return (base_t)channel_multiply(CV(a), CV(b)); }
int main(int argc, char** argv){ vr::parse(argc, argv);
  const long double lo = (long double)(base_t)channel_traits<CV>::min_value(), hi = (long double)(base_t)channel_traits<CV>::max_value();
  base_t a = get<base_t>("a"), b = get<base_t>(vr::has("b") ? "b" : "a"), a2 = get<base_t>(vr::has("a2") ? "a2" : "a");
  base_t M = (base_t)channel_traits<CV>::max_value(), m = (base_t)channel_traits<CV>::min_value();
  auto unit_err = [&](base_t x, base_t y){ long double r = mul(x,y); return std::fabs((r-lo)*(hi-lo) - ((long double)x-lo)*((long double)y-lo)); };
  if (mul(a,b) != mul(b,a)) REPRODUCED("channel_multiply(%Lg,%Lg)=%Lg but (%Lg,%Lg)=%Lg", (long double)a,(long double)b,(long double)mul(a,b),(long double)b,(long double)a,(long double)mul(b,a));
  if (a <= a2 && mul(a,b) > mul(a2,b)) REPRODUCED("not monotone: mul(%Lg,%Lg)=%Lg > mul(%Lg,%Lg)=%Lg",(long double)a,(long double)b,(long double)mul(a,b),(long double)a2,(long double)b,(long double)mul(a2,b));
  if (a <= a2 && mul(b,a) > mul(b,a2)) REPRODUCED("not monotone in 2nd argument at a=%Lg a2=%Lg b=%Lg",(long double)a,(long double)a2,(long double)b);
  if (mul(a,M) != a || mul(M,a) != a) REPRODUCED("max is not the identity: mul(%Lg,max)=%Lg mul(max,%Lg)=%Lg",(long double)a,(long double)mul(a,M),(long double)a,(long double)mul(M,a));
  if (mul(a,m) != m || mul(m,a) != m) REPRODUCED("min is not the annihilator: mul(%Lg,min)=%Lg",(long double)a,(long double)mul(a,m));
  if (mul(a,b) < m || mul(a,b) > M) REPRODUCED("result out of range");
  if (!std::is_floating_point<base_t>::value && unit_err(a,b) >= (hi-lo)) REPRODUCED("mul(%Lg,%Lg)=%Lg is not within one unit of a*b/max",(long double)a,(long double)b,(long double)mul(a,b));
  if (std::is_floating_point<base_t>::value && (float)mul(a,b) != (float)((double)a*(double)b)) REPRODUCED("float product not correctly rounded");
  NOT_REPRODUCED("all channel_multiply clauses hold at a=%Lg b=%Lg a2=%Lg",(long double)a,(long double)b,(long double)a2);
}
'''

FID_MUL = r'''
// fidelity: extracted C body vs the real C++ instantiation on the full domain (<= 2^16 x 2^16 sampled)
#include <boost/gil/channel_algorithm.hpp>
#include <boost/gil/typedefs.hpp>
#include <random>
#include "vreplay.hpp"
using namespace boost::gil;
#include "inst.hpp"
using base_t = base_channel_type<CV>::type;
extern "C" base_t FID_C_FUNC(base_t, base_t);
int main(int argc, char** argv){ vr::parse(argc, argv); std::mt19937_64 g(vr::u64("seed",1)); long n = vr::i64("n",100000), cases = 0;
  const long long lo = (long long)(base_t)channel_traits<CV>::min_value(), hi = (long long)(base_t)channel_traits<CV>::max_value();
  auto one = [&](base_t a, base_t b){ base_t r1 = FID_C_FUNC(a,b); base_t r2 = (base_t)channel_multiply(CV(a), CV(b)); cases++;
     if (std::memcmp(&r1,&r2,sizeof r1)) { std::printf("MISMATCH a=%lld b=%lld c=%lld c++=%lld\n",(long long)a,(long long)b,(long long)r1,(long long)r2); std::exit(1);} };
  if (std::is_floating_point<base_t>::value) { std::uniform_real_distribution<float> d(0.f,1.f); for(long i=0;i<n;i++) one((base_t)d(g),(base_t)d(g)); one(0,0); one(1,1); one(0,1); }
  else if (hi-lo < 256) { for(long long a=lo;a<=hi;a++) for(long long b=lo;b<=hi;b++) one((base_t)a,(base_t)b); }
  else { std::uniform_int_distribution<long long> d(lo,hi); for(long i=0;i<n;i++) one((base_t)d(g),(base_t)d(g));
         long long c[]={lo,lo+1,hi-1,hi,(lo+hi)/2}; for(long long a:c) for(long long b:c) one((base_t)a,(base_t)b); }
  std::printf("FIDELITY cases=%ld\n", cases); return 0; }
'''

# ------------------------------------------------------------------------------------------------
UNITS = []

REPLAY_DIV = r"""
#include <boost/gil/channel_algorithm.hpp>
#include "vreplay.hpp"
int main(int argc, char** argv){ vr::parse(argc, argv); uint32_t in = (uint32_t)vr::u64("in");
  std::string o = vr::str("obl");
  if (o.find("div32768") != std::string::npos) { uint64_t r = boost::gil::detail::div32768(in);
     if (!(32768*r <= (uint64_t)in+16384 && (uint64_t)in+16384 < 32768*(r+1))) REPRODUCED("div32768(%u)=%llu is not round(in/32768)", in, (unsigned long long)r);
     NOT_REPRODUCED("div32768(%u)=%llu", in, (unsigned long long)r); }
  int64_t r = boost::gil::detail::div255(in);
  if (!(r <= 255 && 255*r <= (int64_t)in+127 && (int64_t)in <= 255*r+127)) REPRODUCED("div255(%u)=%lld is not round(in/255)", in, (long long)r);
  NOT_REPRODUCED("div255(%u)=%lld", in, (long long)r); }
"""

UNITS.append(Unit(
    'div', 'C07', DIV_C + DIV32768_C,
    extracts=[X_DIV255, X_DIV32768],
    checks=[Check('div255', 'h_div255', enforce='div255', inputs=('in',)),
            Check('div32768', 'h_div32768', enforce='div32768', inputs=('in',))],
    replay=REPLAY_DIV,
    preconditions=['div255: in <= 65025 (= 255*255, every product of two 8-bit channels)',
                   'div32768: in <= 2^32-16385']))


def unsigned_of(ch):
    return {'i8': 'u8', 'i16': 'u16', 'i32': 'u32'}.get(ch, ch)


def mul_unit(ch, tier):
    """channel_multiplier<CV>::operator() for channel ch, with the unsigned multiplier the compiler selects"""
    u = unsigned_of(ch)
    cxx = chan.CHANNELS[ch]
    kind = {'u8': 'mul_u8', 'u16': 'mul_u16', 'f32': 'mul_f32'}.get(u, 'mul_generic')
    tmpl = ''
    extracts = [X_MUL_TOP] + chan.shift_extracts()
    if kind == 'mul_u8':
        tmpl += DIV_C + MUL_U8_C; extracts += [X_DIV255, X_MUL_U8]
    elif kind == 'mul_u16':
        tmpl += MUL_U16_C; extracts += [X_MUL_U16]
    elif kind == 'mul_f32':
        tmpl += MUL_F32_C; extracts += [X_MUL_F32]
    else:
        tmpl += PACKED_CTOR_C + MUL_GEN_C; extracts += [X_PACKED_CTOR, X_MUL_GEN]
    tmpl += chan.SHIFT_C
    isf = (ch == 'f32')
    if isf:
        top = Fn('channel_multiply', 'C_T', [('C_T', 'a'), ('C_T', 'b')], 'mul_top',
                 requires=['0.0f <= a && a <= 1.0f && 0.0f <= b && b <= 1.0f'],
                 ensures=[('a*b/max (max = 1) within float rounding: the IEEE product', 'RET == a * b'),
                          ('in range', '0.0f <= RET && RET <= 1.0f')],
                 comment='channel_multiplier<ChannelValue>::operator() - what channel_multiply(a,b) calls')
    else:
        top = Fn('channel_multiply', 'C_T', [('C_T', 'a'), ('C_T', 'b')], 'mul_top',
                 requires=['C_MINV <= a && a <= C_MAXV && C_MINV <= b && b <= C_MAXV'],
                 ensures=[('in range', 'C_MINV <= RET && RET <= C_MAXV'),
                          ('a*b/max within one unit, after the shift to the unsigned range (not more than one unit above)',
                           '(I128(RET) - C_MINV) * (I128(C_MAXV) - C_MINV) - (I128(a) - C_MINV) * (I128(b) - C_MINV) < (I128(C_MAXV) - C_MINV)'),
                          ('a*b/max within one unit, after the shift to the unsigned range (not more than one unit below)',
                           '(I128(a) - C_MINV) * (I128(b) - C_MINV) - (I128(RET) - C_MINV) * (I128(C_MAXV) - C_MINV) < (I128(C_MAXV) - C_MINV)')],
                 comment='channel_multiplier<ChannelValue>::operator() - what channel_multiply(a,b) calls')
    tmpl += top.text()
    tmpl += '#ifndef VERIF_NATIVE\nvoid h_unsigned(void){ U_T a, b; MUL_UNSIGNED(a, b); __CPROVER_assert(0, "VACUITY"); }\n#endif\n'
    tmpl += lemma_harnesses('channel_multiply', 'C_T', 'C_MINV' if not isf else '0.0f', 'C_MAXV' if not isf else '1.0f')
    probe_main = r"""
  probe_channel<CV>("C");
  using to_unsigned = detail::channel_convert_to_unsigned<CV>;
  using from_unsigned = detail::channel_convert_from_unsigned<CV>;
  using U = typename to_unsigned::result_type;
  probe_channel<U>("U");
  P_VAL("U_IS_PACKED", (int)!std::is_arithmetic<U>::value && !std::is_same<U,float32_t>::value);
  P_VAL("U_SIGBITS", (unsigned long long)(typename base_channel_type<U>::type)channel_traits<U>::max_value());
  // which functors does the compiler select?  (dispatch is g++'s decision, not ours)
  P_RAW("#define TO_UNSIGNED(x) %s\n", std::is_same<CV,std::int8_t>::value ? "to_unsigned_i8(x)" : std::is_same<CV,std::int16_t>::value ? "to_unsigned_i16(x)" : std::is_same<CV,std::int32_t>::value ? "to_unsigned_i32(x)" : "(x)");
  P_RAW("#define FROM_UNSIGNED(x) %s\n", std::is_same<CV,std::int8_t>::value ? "from_unsigned_i8(x)" : std::is_same<CV,std::int16_t>::value ? "from_unsigned_i16(x)" : std::is_same<CV,std::int32_t>::value ? "from_unsigned_i32(x)" : "(x)");
  static_assert(std::is_same<typename from_unsigned::argument_type, U>::value || std::is_base_of<detail::identity<CV>, from_unsigned>::value, "from_unsigned argument type");
  const char* k = std::is_same<U,std::uint8_t>::value ? "mul_u8" : std::is_same<U,std::uint16_t>::value ? "mul_u16" : std::is_same<U,float32_t>::value ? "mul_f32" : "mul_generic";
  P_RAW("#define MUL_UNSIGNED %s\n", k);
  if (std::string(k) != EXPECT_KIND) { std::fprintf(stderr, "dispatch changed: compiler selects %s, spec wired %s\n", k, EXPECT_KIND); return 1; }
"""
    callees = [kind]
    if ch in ('i8', 'i16', 'i32'):
        callees += ['to_unsigned_i' + ch[1:], 'from_unsigned_i' + ch[1:]]
    zstubs = ['ZSTUB_' + c for c in callees]
    checks = []
    slow = (kind == 'mul_generic' and u == 'u32') or (u.startswith('p') and int(u[1:]) > 16)
    t = 'thorough' if slow else 'quick'
    to = 900 if slow else None
    integer = kind in ('mul_u8', 'mul_u16')
    inp = ('a', 'b')
    # float products: SAT cannot match the body's multiplier against the spec's (equivalence of two
    # multiplier circuits); cvc5 normalises fp.mul and decides these in about a second
    fbe = ['--cvc5'] if isf else []
    # 1. the unsigned multiplier against its own contract
    if kind == 'mul_u8':
        checks.append(Check('div255', 'h_div255', enforce='div255', inputs=('in',), replay='div255'))
        checks.append(Check('unsigned', 'h_mul_u8', engine='ZS', enforce='mul_u8', replace=['div255'], defines=['ZSTUB_div255'], inputs=inp, replay='lemma', timeout=600))
        checks.append(Check('unsigned_frame', 'h_mul_u8', enforce='mul_u8', replace=['div255'], inputs=inp, replay='lemma',
                            defines=['NO_ARITH']))
    elif kind == 'mul_u16':
        checks.append(Check('unsigned', 'h_mul_u16', engine='ZS', enforce='mul_u16', inputs=inp, replay='lemma', timeout=600))   # Z on the integer body; a body rewritten with floats falls back to CBMC
    else:
        checks.append(Check('unsigned', 'h_' + kind, enforce=kind, inputs=inp, replay='lemma', tier=t, timeout=to,
                            flags=['--conversion-check', '--float-overflow-check', '--nan-check'] + fbe))
    # 2. the shift functors (only where the compiler selected them)
    if ch in ('i8', 'i16', 'i32'):
        n = ch[1:]
        checks.append(Check('to_unsigned', 'h_to_unsigned_i' + n, enforce='to_unsigned_i' + n, inputs=('v',), replay='lemma'))
        checks.append(Check('from_unsigned', 'h_from_unsigned_i' + n, enforce='from_unsigned_i' + n, inputs=('v',), replay='lemma'))
    # 3. channel_multiplier::operator() against the property clauses, callees replaced by their contracts
    if integer:
        checks.append(Check('top', 'hz_channel_multiply', engine='Z', defines=zstubs, inputs=inp, replay='lemma'))
    else:
        checks.append(Check('top', 'h_channel_multiply', enforce='channel_multiply', replace=callees, inputs=inp,
                            replay='lemma', tier=t, timeout=to, flags=fbe))
    # 4. algebraic laws as lemmas over the real bodies (inlined; loop-free => complete)
    checks += lemma_checks('channel_multiply', tier=t, timeout=to, engine='ZD' if integer else 'D',
                           flags=() if integer else ['--conversion-check'])
    if isf:
        # monotonicity of the IEEE-754 product itself is not decided by any installed back end (SAT, z3, cvc5:
        # > 300 s); it is a fact about the arithmetic, not about GIL's one-line body `a*b` -> listed as not covered
        checks = [c for c in checks if c.name != 'lemma_mono']
        for c in checks:
            if c.name == 'lemma_comm':
                c.flags = list(c.flags) + ['--cvc5']
    return Unit('mul.' + ch, 'C07', tmpl, extracts=extracts, checks=checks,
                insts=[(ch, tier, {'T_CV': cxx, 'EXPECT_KIND': '"%s"' % kind})], probe_includes=chan.PROBE_INCLUDES + ['string'],
                probe=probe_main, probe_pre=chan.PROBE_CHANNEL, replay={'default': REPLAY_MUL, 'lemma': REPLAY_MUL, 'div255': REPLAY_DIV},
                fidelity=FID_MUL.replace('FID_C_FUNC', 'channel_multiply'),
                preconditions=['channel arguments lie in [min_value, max_value] of their channel type'])


for ch, tier in [('u8', 'quick'), ('u16', 'quick'), ('f32', 'quick'), ('i8', 'quick'), ('i16', 'quick'),
                 ('p5', 'quick'), ('p3', 'thorough'), ('p7', 'thorough')]:
    UNITS.append(mul_unit(ch, tier))


# generic multiplier instantiated for float64_t (scoped double in [0,1]): a / double(max) * b with max = 1
X_MUL_GEN_F64 = X('mul_generic', CA, r'auto operator\(\)\(ChannelValue a, ChannelValue b\) const -> ChannelValue\s*\{',
                  within=r'template <typename ChannelValue>\s*struct channel_multiplier_unsigned\s*\{', count=1,
                  rules=[('R8.base_t', r'typename base_channel_type<ChannelValue>::type', 'double', False), ('R8.base_alias', r'\bbase_t\b', 'double', False),
                         ('R8.maxv', r'channel_traits<ChannelValue>::max_value\(\)', '1.0', True),
                         ('R4.CV_ctor', r'\bChannelValue\(', '(double)(', True), ('R5.round', r'\bstd::round\(', 'round(', False)])
F64_C = r'''
double round(double);
double mul_generic(double a, double b)
__CPROVER_requires(0.0 <= a && a <= 1.0 && 0.0 <= b && b <= 1.0)
__CPROVER_assigns()
__CPROVER_ensures(RET >= a * b - 1e-12 && RET <= a * b + 1e-12)        /* a*b/max (max = 1) within float rounding */
__CPROVER_ensures(0.0 <= RET && RET <= 1.0)                            /* never outside the channel range */
@@mul_generic@@
#ifndef VERIF_NATIVE
void h_mul_generic(void){ double a, b; mul_generic(a, b); __CPROVER_assert(0, "VACUITY"); }
#endif
'''
REPLAY_F64 = r'''
#include <boost/gil/channel_algorithm.hpp>
#include <boost/gil/typedefs.hpp>
#include <cmath>
#include "vreplay.hpp"
using namespace boost::gil;
int main(int argc, char** argv){ vr::parse(argc, argv);
  for (int i = 0; i <= 64; i++) for (int j = 0; j <= 64; j++) { double a = i / 64.0, b = j / 64.0; double r = channel_multiply(float64_t(a), float64_t(b));
    if (std::fabs(r - a * b) > 1e-12) REPRODUCED("channel_multiply(float64_t(%g), float64_t(%g)) = %g, expected %g", a, b, r, a * b);
    if (channel_multiply(float64_t(a), float64_t(1.0)) != a) REPRODUCED("channel_multiply(float64_t(%g), max) = %g (max is not the identity)", a, (double)channel_multiply(float64_t(a), float64_t(1.0))); }
  NOT_REPRODUCED("float64_t products match a*b on the 65 x 65 grid"); }
'''

UNITS.append(Unit('mul.f64', 'C07', F64_C, extracts=[X_MUL_GEN_F64], replay=REPLAY_F64,
                  checks=[Check('unsigned', 'h_mul_generic', enforce='mul_generic', flags=['--float-overflow-check', '--nan-check', '--cvc5'], timeout=600)],
                  preconditions=['float64_t arguments in [0, 1]'], assumed=['float64_t is a scoped double with range [0,1] (typedefs.hpp); channel_multiplier<float64_t> forwards to the generic unsigned multiplier (identity shift)']))

REPLAY_INV = r"""
#include <boost/gil/channel_algorithm.hpp>
#include <boost/gil/typedefs.hpp>
#include <cmath>
#include "vreplay.hpp"
using namespace boost::gil;
#include "inst.hpp"
using base_t = base_channel_type<CV>::type;
int main(int argc, char** argv){ vr::parse(argc, argv);
  base_t x = std::is_floating_point<base_t>::value ? (base_t)vr::f32("x") : (base_t)vr::i64("x");
  base_t M = (base_t)channel_traits<CV>::max_value(), m = (base_t)channel_traits<CV>::min_value();
  base_t r = (base_t)channel_invert(CV(x));
  if (std::is_floating_point<base_t>::value) {
    if ((float)r != 1.0f - (float)x) REPRODUCED("channel_invert(%g)=%g != max-x+min", (double)x, (double)r);
    base_t rr = (base_t)channel_invert(CV(r));
    if (std::fabs((double)rr - (double)x) > 5.9604644775390625e-8) REPRODUCED("channel_invert is not an involution at %g (got %g)", (double)x, (double)rr);
  } else {
    if ((long double)r != (long double)M - (long double)x + (long double)m) REPRODUCED("channel_invert(%Lg)=%Lg != max-x+min=%Lg", (long double)x,(long double)r,(long double)M-(long double)x+(long double)m);
    if ((base_t)channel_invert(CV(r)) != x) REPRODUCED("channel_invert is not an involution at %Lg", (long double)x);
  }
  if (r < m || r > M) REPRODUCED("channel_invert(%Lg) out of range", (long double)x);
  NOT_REPRODUCED("channel_invert clauses hold at x=%Lg", (long double)x); }
"""

FID_INV = r"""
#include <boost/gil/channel_algorithm.hpp>
#include <boost/gil/typedefs.hpp>
#include <random>
#include "vreplay.hpp"
using namespace boost::gil;
#include "inst.hpp"
using base_t = base_channel_type<CV>::type;
extern "C" base_t channel_invert(base_t);
int main(int argc, char** argv){ vr::parse(argc, argv); std::mt19937_64 g(vr::u64("seed",1)); long n = vr::i64("n",100000), cases = 0;
  const long long lo = (long long)(base_t)channel_traits<CV>::min_value(), hi = (long long)(base_t)channel_traits<CV>::max_value();
  auto one = [&](base_t a){ base_t r1 = ::channel_invert(a); base_t r2 = (base_t)boost::gil::channel_invert(CV(a)); cases++;
     if (std::memcmp(&r1,&r2,sizeof r1)) { std::printf("MISMATCH x=%lld\n",(long long)a); std::exit(1);} };
  if (std::is_floating_point<base_t>::value) { std::uniform_real_distribution<float> d(0.f,1.f); for(long i=0;i<n;i++) one((base_t)d(g)); one(0); one(1); }
  else if (hi-lo < 70000) { for(long long a=lo;a<=hi;a++) one((base_t)a); }
  else { std::uniform_int_distribution<long long> d(lo,hi); for(long i=0;i<n;i++) one((base_t)d(g)); one((base_t)lo); one((base_t)hi); }
  std::printf("FIDELITY cases=%ld\n", cases); return 0; }
"""


def invert_unit(ch, tier):
    isf = ch == 'f32'
    if isf:
        f = Fn('channel_invert', 'C_T', [('C_T', 'x')], 'invert',
               requires=['0.0f <= x && x <= 1.0f'],
               ensures=[('max - x + min, evaluated in the channel\'s float arithmetic', 'RET == 1.0f - x'),
                        ('in range', '0.0f <= RET && RET <= 1.0f')],
               comment='channel_invert<float32_t>')
        lem = r"""
#ifndef VERIF_NATIVE
void h_involution(void){ C_T x; __CPROVER_assume(0.0f <= x && x <= 1.0f);
  C_T r = channel_invert(channel_invert(x));
  /* 1-x is exact for x >= 1/2 (Sterbenz) and otherwise rounds by at most half an ulp of 1: the involution holds
     exactly on [1/2,1] and up to 2^-24 elsewhere - no implementation of max-x+min in binary32 can do better */
  __CPROVER_assert(!(x >= 0.5f) || r == x, "involution, exact on [1/2,1]");
  __CPROVER_assert(r - x <= 0x1p-24f && x - r <= 0x1p-24f, "involution up to float rounding");
  __CPROVER_assert(0, "VACUITY"); }
#endif
"""
    else:
        f = Fn('channel_invert', 'C_T', [('C_T', 'x')], 'invert',
               requires=['C_MINV <= x && x <= C_MAXV'],
               ensures=[('equals max - x + min exactly', 'I128(RET) == I128(C_MAXV) - I128(x) + I128(C_MINV)'),
                        ('in range', 'C_MINV <= RET && RET <= C_MAXV')],
               comment='channel_invert<Channel>')
        lem = r"""
#ifndef VERIF_NATIVE
void h_involution(void){ C_T x; __CPROVER_assume(C_MINV <= x && x <= C_MAXV);
  __CPROVER_assert(channel_invert(channel_invert(x)) == x, "involution");
  __CPROVER_assert(0, "VACUITY"); }
#endif
"""
    probe = 'probe_channel<CV>("C");\n  using base_t = typename base_channel_type<CV>::type;\n  P_TYPE("C_PROMOTED_T", typename promote_integral<base_t>::type);\n'
    return Unit('invert.' + ch, 'C07', f.text() + lem, extracts=[X_INVERT],
                checks=[Check('contract', 'h_channel_invert', enforce='channel_invert', inputs=('x',)),
                        Check('lemma_involution', 'h_involution', engine='D', inputs=('x',))],
                insts=[(ch, tier, {'T_CV': chan.CHANNELS[ch]})], probe_includes=chan.PROBE_INCLUDES,
                probe=probe, probe_pre=chan.PROBE_CHANNEL, replay=REPLAY_INV, fidelity=FID_INV,
                preconditions=['channel arguments lie in [min_value, max_value] of their channel type'])


for ch, tier in [('u8', 'quick'), ('u16', 'quick'), ('u32', 'quick'), ('i8', 'quick'), ('i16', 'quick'), ('i32', 'quick'),
                 ('f32', 'quick'), ('p1', 'quick'), ('p5', 'quick'), ('p11', 'quick'), ('p24', 'quick'),
                 ('p2', 'thorough'), ('p3', 'thorough'), ('p4', 'thorough'), ('p6', 'thorough'), ('p7', 'thorough'),
                 ('p8', 'thorough'), ('p9', 'thorough'), ('p12', 'thorough'), ('p15', 'thorough'), ('p16', 'thorough'),
                 ('p17', 'thorough'), ('p31', 'thorough'), ('p32', 'thorough')]:
    UNITS.append(invert_unit(ch, tier))


# ------------------------------------------------------------------------------------------------ wide channels: native stand-ins
# The generic (double) multiplier on channels of 8 or more bits is out of reach of the SAT back end (p11: every obligation times out at
# 900 s).  Complete native enumeration for packed 8..11 bit channels, boundary + seeded random sampling for 16-bit packed and 32-bit
# channels; reported as bounded stand-ins, never as proved.
NATIVE_MUL = r"""
#include <boost/gil/channel_algorithm.hpp>
#include <boost/gil/typedefs.hpp>
#include <random>
#include <cmath>
#include "vreplay.hpp"
using namespace boost::gil;
#include "inst.hpp"
using base_t = base_channel_type<CV>::type;
static base_t mul(base_t a, base_t b){ return (base_t)channel_multiply(CV(a), CV(b)); }
int main(int argc, char** argv){ vr::parse(argc, argv); std::mt19937_64 g(vr::u64("seed", 1));
  const long double lo = (long double)(base_t)channel_traits<CV>::min_value(), hi = (long double)(base_t)channel_traits<CV>::max_value(), range = hi - lo;
  using U = detail::channel_convert_to_unsigned<CV>::result_type; using ub = base_channel_type<U>::type; const double umax = (double)(ub)channel_traits<U>::max_value();
  long n = 0, f_comm = 0, f_unit = 0, f_mono = 0, f_ident = 0, f_range = 0, known = 0, printed = 0; bool witness = false;
  auto check = [&](base_t a, base_t b){ n++; base_t r = mul(a, b), r2 = mul(b, a);
    auto fail = [&](long& c, const char* w){ c++; if (printed++ < 5) std::printf("FAILCASE %s at a=%Lg b=%Lg (mul=%Lg, swapped=%Lg)\n", w, (long double)a, (long double)b, (long double)r, (long double)r2); };
    if (r != r2) { bool kf = false;
#ifdef KF_C07_GENERIC_COMM
      { double ua = (double)((long double)a - lo), ub_ = (double)((long double)b - lo); kf = (ub)(ua / umax * ub_) != (ub)(ub_ / umax * ua); }   // the recorded failing set
#endif
      if (kf) known++; else fail(f_comm, "not commutative"); }
    if ((long double)r < lo || (long double)r > hi) fail(f_range, "result outside the channel range");
    if (std::fabs(((long double)r - lo) * range - ((long double)a - lo) * ((long double)b - lo)) > range) fail(f_unit, "not within one unit of a*b/max");   /* 'within one unit' read inclusively: truncation of a/max*b can be exactly one unit below an exact quotient */
    if (b == (base_t)hi && r != a) fail(f_ident, "max is not the identity"); if (b == (base_t)lo && r != (base_t)lo) fail(f_ident, "min is not the annihilator");
    if ((long double)a < hi && mul((base_t)(a + 1), b) < r) fail(f_mono, "not monotone in the first argument"); };
  if (range < 4096) { for (long a = (long)lo; a <= (long)hi; a++) for (long b = (long)lo; b <= (long)hi; b++) check((base_t)a, (base_t)b); }
  else { std::uniform_int_distribution<long long> d((long long)lo, (long long)hi); long N = vr::str("tier") == "thorough" ? 20000000 : 2000000;
    for (long i = 0; i < N; i++) check((base_t)d(g), (base_t)d(g));
    long long c[] = {(long long)lo, (long long)lo + 1, (long long)hi - 1, (long long)hi, (long long)((lo + hi) / 2)}; for (long long a : c) for (long long b : c) check((base_t)a, (base_t)b);
    for (long i = 0; i < 200000; i++) { check((base_t)d(g), (base_t)hi); check((base_t)d(g), (base_t)lo); } }
#ifdef KF_C07_GENERIC_COMM
  if (known) std::printf("KNOWNCASE C07-generic-mul-noncommutative %ld pairs of this run lie in the recorded failing set (the two roundings of a/double(max)*b disagree)\n", known);
#endif
  std::printf("CLAUSE commutative %s %ld channel_multiply(a,b) == channel_multiply(b,a)\n", f_comm ? "FAIL" : "PASS", f_comm);
  std::printf("CLAUSE one_unit %s %ld within one unit of a*b/max\n", f_unit ? "FAIL" : "PASS", f_unit);
  std::printf("CLAUSE monotone %s %ld monotone in the first argument\n", f_mono ? "FAIL" : "PASS", f_mono);
  std::printf("CLAUSE identity %s %ld maximum is the identity, minimum the annihilator\n", f_ident ? "FAIL" : "PASS", f_ident);
  std::printf("CLAUSE range %s %ld result inside the channel range\n", f_range ? "FAIL" : "PASS", f_range);
  std::printf("NATIVE cases=%ld window=%s\n", n, range < 4096 ? "ALL pairs of the channel (complete enumeration)" : "seeded random pairs + boundary pairs"); return 0; }
"""
for ch, tier in [('p8', 'quick'), ('p11', 'thorough'), ('p16', 'thorough'), ('u32', 'thorough'), ('i32', 'thorough')]:
    UNITS.append(Unit('mul_native.' + ch, 'C07', '/* bounded / complete native stand-in, no extracted body */\n', insts=[(ch, tier, {'T_CV': chan.CHANNELS[ch]})],
                      checks=[Check('lemma_comm', 'none', engine='N', native=NATIVE_MUL, timeout=1800, tier=tier)]))

META = dict(
    not_covered=['float32 channel_multiply: monotonicity (IEEE-754 product monotone on [0,1]) - no installed back end decides it; body is `a*b`, contract pins RET == a*b'],
    assumptions=['IEEE-754 binary32/binary64 round-to-nearest (CBMC float model = the suite\'s configuration)'],
)
