"""bit cursor shared by C08 / C03 / C01: bit_range<RangeSize,M> (bit_aligned_pixel_reference.hpp) and
bit_aligned_pixel_iterator::advance / distance_to (bit_aligned_pixel_iterator.hpp).

Specification vocabulary: the cursor lives in a ghost buffer g_buf of g_n bytes; its absolute bit position is
POS = 8*offset(_current_byte) + _bit_offset; the representation invariant is 0 <= _bit_offset < 8 and
0 <= offset <= g_n."""
from vclib.core import X, Check, Unit
from vclib.cgen import Fn

BR = 'bit_aligned_pixel_reference.hpp'
IT = 'bit_aligned_pixel_iterator.hpp'
W_BR = r'class bit_range \{'
W_IT = r'struct bit_aligned_pixel_iterator : public iterator_facade[^{]*\{'
ACC = [('R11.b_byte', r'\bb\.current_byte\(\)', 'b->_current_byte', False), ('R11.byte', r'(?<![\w.>])current_byte\(\)', 'self->_current_byte', False),
       ('R11.b_off', r'\bb\.bit_offset\(\)', 'b->_bit_offset', False), ('R11.off', r'(?<![\w.>])bit_offset\(\)', 'self->_bit_offset', False)]
M = ['_current_byte', '_bit_offset']

EXTRACTS = [
    X('br_inc', BR, r'auto operator\+\+\(\) -> bit_range& \{', within=W_BR, count=1, members=M, rules=[('R2.ret', r'return \*this;', 'return;', True)]),
    X('br_dec', BR, r'auto operator--\(\) -> bit_range& \{', within=W_BR, count=1, members=M,
      rules=[('R11.adv', r'\bbit_advance\(', 'br_bit_advance(self, ', False), ('R2.ret', r'return \*this;', 'return;', True)]),
    X('br_bit_advance', BR, r'void bit_advance\(difference_type num_bits\) \{', within=W_BR, count=1, members=M),
    X('br_bit_distance_to', BR, r'auto bit_distance_to\(bit_range const& b\) const -> difference_type\s*\{', within=W_BR, count=1,
      # R15: CBMC 6.11 reports a spurious signed-overflow on every pointer subtraction (checked on raw pointer bit patterns);
      # the difference is lowered to offsets plus an explicit same-object obligation
      rules=[('R15.ptrdiff', r'\(b\.current_byte\(\) - current_byte\(\)\)', 'PTRDIFF(b->_current_byte, self->_current_byte)', True)] + ACC),
    X('it_advance', IT, r'void advance\(difference_type d\)\s*\{', count=1,
      rules=[('R11.adv', r'_bit_range\.bit_advance\(', 'br_bit_advance(&self->_bit_range, ', True)]),
    X('it_distance_to', IT, r'auto distance_to\(bit_aligned_pixel_iterator const& it\) const -> difference_type \{', count=1,
      rules=[('R11.dist', r'_bit_range\.bit_distance_to\(it\._bit_range\)', 'br_bit_distance_to(&self->_bit_range, &it->_bit_range)', True)]),
    # at_c<K>(bit_aligned_pixel_reference): the channel reference of channel K (the caller of the channel reference's constructor)
    X('at_c_bitref', BR, r'auto at_c\(const bit_aligned_pixel_reference<BitField, ChannelBitSizes, L, IsMutable>& p\)\s*->[^{]*\{', count=1,
      rules=[('R6.drop_using', r'using \w+ = [^;]+;', '', True),
             ('R12.copy', r'bit_range_t bit_range\(p\.bit_range\(\)\);', 'bit_range_t bit_range = p->_bit_range;', False),
             ('R12.ref', r'auto const& bit_range = p\.bit_range\(\);', 'bit_range_t bit_range = p->_bit_range;', False),
             ('R8.sum_k', r'detail::sum_k<ChannelBitSizes, K>::value', 'SUM_K', True),
             ('R11.adv', r'\bbit_range\.bit_advance\(', 'br_bit_advance(&bit_range, ', False),
             ('R11.byte', r'\bbit_range\.current_byte\(\)', 'bit_range._current_byte', True), ('R11.off', r'\bbit_range\.bit_offset\(\)', 'bit_range._bit_offset', True),
             ('R12.ctor', r'return channel_t\(', 'return chan_ref_ctor(', True)]),
]

PRE = r'''
typedef ptrdiff_t difference_type;
#define RangeSize BIT_SIZE
#define bit_size BIT_SIZE
typedef struct { unsigned char* _current_byte; int _bit_offset; } bit_range_t;
typedef struct { bit_range_t _bit_range; } bit_it_t;
typedef struct { bit_range_t _bit_range; } bit_pixref_t;          /* bit_aligned_pixel_reference: its bit_range */
typedef struct { unsigned char* _data; int _first_bit; } chan_ref_t;  /* packed_dynamic_channel_reference: data pointer and first bit */
int g_sum_k;                                                       /* ghost: detail::sum_k<ChannelBitSizes, K>::value, the bits of the channels before channel K */
#define SUM_K g_sum_k
/* packed_dynamic_channel_reference(data, first_bit) stores its arguments; its get / set contracts (C08 unit dynref) require first_bit <= 7 */
static chan_ref_t chan_ref_ctor(unsigned char* data, int first_bit) { chan_ref_t r; r._data = data; r._first_bit = first_bit; return r; }
/* ghost buffer the cursor lives in */
unsigned char* g_buf; size_t g_n;
#define OFF(p) ((int64_t)__CPROVER_POINTER_OFFSET((p)->_current_byte))
#define POS(p) (8 * OFF(p) + (p)->_bit_offset)
#define OLDPOS(p) (8 * __CPROVER_old(OFF(p)) + __CPROVER_old((p)->_bit_offset))   /* old() accepts lvalues and casts only */
#define INV(p) (__CPROVER_same_object((p)->_current_byte, g_buf) && 0 <= (p)->_bit_offset && (p)->_bit_offset < 8 && 0 <= OFF(p) && 8 * OFF(p) + (p)->_bit_offset <= 8 * (int64_t)g_n)
#ifdef SMALL_CEX
#define LIM ((int64_t)1 << 12)
#define GN_MAX ((size_t)1 << 10)
#else
#define LIM ((int64_t)1 << 44)
#define GN_MAX ((size_t)1 << 40)
#endif
#define GHOST_SETUP() size_t n__; __CPROVER_assume(1 <= n__ && n__ <= GN_MAX); g_n = n__; g_buf = malloc(n__); __CPROVER_assume(g_buf != 0)
'''


def fns():
    f = {}
    fresh = '__CPROVER_is_fresh(self, sizeof(*self))'
    f['br_bit_advance'] = Fn('br_bit_advance', 'void', [('bit_range_t*', 'self'), ('difference_type', 'num_bits')], 'br_bit_advance',
                             requires=[fresh, 'INV(self)', '-LIM <= num_bits && num_bits <= LIM', '0 <= POS(self) + num_bits && POS(self) + num_bits <= 8 * (int64_t)g_n'],
                             assigns='self->_current_byte, self->_bit_offset',
                             ensures=[('representation invariant kept (0 <= bit offset < 8, still inside the buffer)', 'INV(self)'),
                                      ('absolute bit position moves by exactly num_bits', 'POS(self) == OLDPOS(self) + num_bits')],
                             comment='bit_range::bit_advance(num_bits)')
    f['br_inc'] = Fn('br_inc', 'void', [('bit_range_t*', 'self')], 'br_inc',
                     requires=[fresh, 'INV(self)', 'POS(self) + RangeSize <= 8 * (int64_t)g_n'], assigns='self->_current_byte, self->_bit_offset',
                     ensures=[('invariant kept', 'INV(self)'), ('moves by exactly RangeSize bits', 'POS(self) == OLDPOS(self) + RangeSize')],
                     comment='bit_range::operator++')
    f['br_dec'] = Fn('br_dec', 'void', [('bit_range_t*', 'self')], 'br_dec',
                     requires=[fresh, 'INV(self)', 'POS(self) - RangeSize >= 0'], assigns='self->_current_byte, self->_bit_offset',
                     ensures=[('invariant kept', 'INV(self)'), ('moves back by exactly RangeSize bits', 'POS(self) == OLDPOS(self) - RangeSize')],
                     comment='bit_range::operator--')
    f['br_bit_distance_to'] = Fn('br_bit_distance_to', 'difference_type', [('const bit_range_t*', 'self'), ('const bit_range_t*', 'b')], 'br_bit_distance_to',
                                 requires=[fresh, '__CPROVER_is_fresh(b, sizeof(*b))', 'INV(self)', 'INV(b)'],
                                 ensures=[('bounded', '-LIM <= RET && RET <= LIM'), ('the difference of the absolute bit positions', 'RET == POS(b) - POS(self)')],
                                 comment='bit_range::bit_distance_to(b)')
    f['at_c_bitref'] = Fn('at_c_bitref', 'chan_ref_t', [('const bit_pixref_t*', 'p')], 'at_c_bitref',
                          requires=['__CPROVER_is_fresh(p, sizeof(*p))', 'INV(&p->_bit_range)', '0 <= SUM_K && SUM_K <= 64', 'POS(&p->_bit_range) + SUM_K <= 8 * (int64_t)g_n'],
                          ensures=[('precondition of the channel reference it constructs: first bit inside the first byte', '__CPROVER_same_object(RET._data, g_buf) && 0 <= RET._first_bit && RET._first_bit <= 7'),
                                   ('channel K starts sum_k bits after the first bit of the pixel', '8 * (int64_t)__CPROVER_POINTER_OFFSET(RET._data) + RET._first_bit == POS(&p->_bit_range) + SUM_K')],
                          comment='at_c<K>(bit_aligned_pixel_reference const&)')
    f['it_advance'] = Fn('it_advance', 'void', [('bit_it_t*', 'self'), ('difference_type', 'd')], 'it_advance',
                         requires=[fresh, 'INV(&self->_bit_range)', '-(LIM / 64) <= d && d <= LIM / 64',
                                   '0 <= POS(&self->_bit_range) + d * bit_size && POS(&self->_bit_range) + d * bit_size <= 8 * (int64_t)g_n'],
                         assigns='self->_bit_range._current_byte, self->_bit_range._bit_offset',
                         ensures=[('invariant kept', 'INV(&self->_bit_range)'),
                                  ('moves by exactly d pixels of bit_size bits', 'POS(&self->_bit_range) == OLDPOS(&self->_bit_range) + d * bit_size')],
                         comment='bit_aligned_pixel_iterator::advance(d)')
    f['it_distance_to'] = Fn('it_distance_to', 'difference_type', [('const bit_it_t*', 'self'), ('const bit_it_t*', 'it')], 'it_distance_to',
                             requires=[fresh, '__CPROVER_is_fresh(it, sizeof(*it))', 'INV(&self->_bit_range)', 'INV(&it->_bit_range)',
                                       '(POS(&it->_bit_range) - POS(&self->_bit_range)) % bit_size == 0'],
                             ensures=[('bounded', '-LIM <= RET && RET <= LIM'), ('number of pixels between two iterators of the same row/lattice', 'RET * bit_size == POS(&it->_bit_range) - POS(&self->_bit_range)')],
                             comment='bit_aligned_pixel_iterator::distance_to(it)')
    return f


LEMMAS = r'''
#ifndef VERIF_NATIVE
/* lemmas over the contracts only (callees replaced by their contracts) */
void h_there_and_back(void){ GHOST_SETUP();
  bit_range_t r; __CPROVER_assume(INV(&r)); difference_type n; __CPROVER_assume(-LIM <= n && n <= LIM);
  __CPROVER_assume(0 <= POS(&r) + n && POS(&r) + n <= 8 * (int64_t)g_n);
  unsigned char* b0 = r._current_byte; int o0 = r._bit_offset;
  br_bit_advance(&r, n); br_bit_advance(&r, -n);
  __CPROVER_assert(r._current_byte == b0 && r._bit_offset == o0, "advance(n) then advance(-n) returns to the same byte and bit");
  __CPROVER_assert(0, "VACUITY"); }
void h_distance_after_advance(void){ GHOST_SETUP();
  bit_it_t a; __CPROVER_assume(INV(&a._bit_range)); bit_it_t b = a; difference_type d; __CPROVER_assume(-(LIM / 64) <= d && d <= LIM / 64);
  __CPROVER_assume(0 <= POS(&a._bit_range) + d * bit_size && POS(&a._bit_range) + d * bit_size <= 8 * (int64_t)g_n);
  it_advance(&b, d);
  __CPROVER_assert(it_distance_to(&a, &b) == d, "(it + d) - it == d");
  __CPROVER_assert(0, "VACUITY"); }
void h_inc_dec(void){ GHOST_SETUP();
  bit_range_t r; __CPROVER_assume(INV(&r)); __CPROVER_assume(POS(&r) + RangeSize <= 8 * (int64_t)g_n);
  unsigned char* b0 = r._current_byte; int o0 = r._bit_offset;
  br_inc(&r); br_dec(&r);
  __CPROVER_assert(r._current_byte == b0 && r._bit_offset == o0, "--(++it) == it");
  __CPROVER_assert(0, "VACUITY"); }
#endif
'''

REPLAY = r'''
// native replay: bit_range over a real buffer.  The counterexample fixes the move; the cursor's start bit offset
// (hidden state of the fresh object in the verifier's model) is enumerated over 0..7.
#include <boost/gil/bit_aligned_pixel_reference.hpp>
#include <boost/gil.hpp>
#include <vector>
#include <cstring>
#include "vreplay.hpp"
using namespace boost::gil;
#include "inst.hpp"
int main(int argc, char** argv){ vr::parse(argc, argv);
  long long n = vr::i64("num_bits", vr::i64("n", vr::i64("d", 1) * BIT_SIZE));
  std::string obl = vr::str("obl");
  if (obl.find("at_c") != std::string::npos) {
    // channel references of bit-aligned pixel references whose bit field is exactly as wide as the pixel, at every valid bit offset:
    // a value written through at_c<K> is read back, and no bit outside the channel changes
    { using ref_t = bit_aligned_pixel_reference<uint8_t, boost::mp11::mp_list_c<int, 2, 2, 2, 2>, rgba_layout_t, true>;
      for (int off = 0; off < 8; off += 2) for (int fillv : {0x00, 0xFF}) for (int v = 0; v < 4; v++) { unsigned char b[4] = {(unsigned char)fillv, (unsigned char)fillv, (unsigned char)fillv, (unsigned char)fillv}; ref_t r(b + 1, off);
        for (int k = 0; k < 4; k++) { unsigned char c[4]; std::memcpy(c, b, 4); int expect_bit = 8 + off + 2 * k;
          if (k == 0) at_c<0>(r) = v; if (k == 1) at_c<1>(r) = v; if (k == 2) at_c<2>(r) = v; if (k == 3) at_c<3>(r) = v;
          int got = k == 0 ? (int)at_c<0>(r) : k == 1 ? (int)at_c<1>(r) : k == 2 ? (int)at_c<2>(r) : (int)at_c<3>(r);
          if (got != v) REPRODUCED("rgba2222 in uint8_t at bit offset %d: channel %d wrote %d, read back %d", off, k, v, got);
          for (int bit = 0; bit < 32; bit++) if (bit != expect_bit && bit != expect_bit + 1 && (((b[bit / 8] >> (bit % 8)) & 1) != ((c[bit / 8] >> (bit % 8)) & 1)))
            REPRODUCED("rgba2222 in uint8_t at bit offset %d: writing channel %d changed bit %d (outside the channel)", off, k, bit); } } }
    { using ref_t = bit_aligned_pixel_reference<uint16_t, boost::mp11::mp_list_c<int, 5, 6, 5>, rgb_layout_t, true>;
      for (int off = 0; off < 8; off++) for (int v : {0, 1, 17, 31}) { unsigned char b[6] = {0, 0, 0, 0, 0, 0}; ref_t r(b + 1, off); at_c<2>(r) = v; int got = (int)at_c<2>(r);
        if (got != v) REPRODUCED("rgb565 in uint16_t at bit offset %d: channel 2 wrote %d, read back %d", off, v, got); } }
    NOT_REPRODUCED("at_c<K> of bit-aligned pixel references stores and reads back every channel at every bit offset"); }
  if (obl.find("br_inc") != std::string::npos) n = BIT_SIZE;
  if (obl.find("br_dec") != std::string::npos) n = -BIT_SIZE;
  long long span = (n < 0 ? -n : n) / 8 + 4;
  if (span > (3ll << 30)) NOT_REPRODUCED("would need a %lld byte buffer", span);
  std::vector<unsigned char> buf((size_t)(2 * span + 16));
  using br_t = bit_range<BIT_SIZE, true>;
  for (int bit0 = 0; bit0 < 8; bit0++) {
    long long off0 = span + 2;
    br_t r(buf.data() + off0, bit0), r0 = r;
    long long p0 = off0 * 8 + bit0;
    if (obl.find("br_inc") != std::string::npos) ++r; else if (obl.find("br_dec") != std::string::npos) --r; else r.bit_advance((std::ptrdiff_t)n);
    long long p1 = (r.current_byte() - buf.data()) * 8ll + r.bit_offset();
    if (r.bit_offset() < 0 || r.bit_offset() > 7) REPRODUCED("bit offset %d out of 0..7 after moving %lld bits from byte %lld bit %d", r.bit_offset(), n, off0, bit0);
    if (p1 != p0 + n) REPRODUCED("cursor at bit %lld after moving %lld bits from bit %lld (byte %lld, bit %d); expected %lld", p1, n, p0, off0, bit0, p0 + n);
    if (r0.bit_distance_to(r) != n) REPRODUCED("bit_distance_to gives %lld, expected %lld", (long long)r0.bit_distance_to(r), n);
    r.bit_advance((std::ptrdiff_t)-n);
    if (!(r == r0)) REPRODUCED("advance(%lld) then advance(%lld) from bit offset %d does not return to the start", n, -n, bit0);
  }
  NOT_REPRODUCED("cursor laws hold for a move of %lld bits from every start bit offset", n); }
'''


def units(prop, sizes=((1, 'quick'), (3, 'quick'), (4, 'quick'), (7, 'quick'), (8, 'quick'), (13, 'quick'), (16, 'quick'), (24, 'thorough'), (6, 'thorough'), (2, 'thorough'))):
    out = []
    f = fns()
    order = ['br_bit_advance', 'br_inc', 'br_dec', 'br_bit_distance_to', 'it_advance', 'it_distance_to', 'at_c_bitref']
    tmpl = PRE + ''.join(f[k].text() for k in order) + LEMMAS
    # harnesses of Fn do not set up the ghost buffer: wrap
    tmpl = tmpl.replace('void h_br_', 'void h0_br_').replace('void h_it_', 'void h0_it_').replace('void h_at_c', 'void h0_at_c')
    hs = ['#ifndef VERIF_NATIVE']
    for k in order:
        fn = f[k]
        decl = ' '.join('%s %s;' % p for p in fn.params)
        hs.append('void h_%s(void){ GHOST_SETUP(); %s %s(%s); __CPROVER_assert(0, "VACUITY"); }' % (k, decl, k, ', '.join(p[1] for p in fn.params)))
    hs.append('#endif')
    tmpl += '\n'.join(hs) + '\n'
    for bs, tier in sizes:
        checks = [
            Check('bit_advance', 'h_br_bit_advance', enforce='br_bit_advance', inputs=('num_bits',), small=['SMALL_CEX']),
            Check('inc', 'h_br_inc', enforce='br_inc'),
            Check('dec', 'h_br_dec', enforce='br_dec', replace=['br_bit_advance']),
            Check('bit_distance_to', 'h_br_bit_distance_to', enforce='br_bit_distance_to'),
            Check('it_advance', 'h_it_advance', enforce='it_advance', replace=['br_bit_advance'], inputs=('d',), small=['SMALL_CEX']),
            Check('it_distance_to', 'h_it_distance_to', enforce='it_distance_to', replace=['br_bit_distance_to']),
            Check('at_c', 'h_at_c_bitref', enforce='at_c_bitref', replace=['br_bit_advance']),
            Check('lemma_there_and_back', 'h_there_and_back', engine='S', replace=['br_bit_advance'], inputs=('n',)),
            Check('lemma_distance_after_advance', 'h_distance_after_advance', engine='S', replace=['it_advance', 'it_distance_to'], inputs=('d',)),
            Check('lemma_inc_dec', 'h_inc_dec', engine='S', replace=['br_inc', 'br_dec']),
        ]
        out.append(Unit('bitcursor.%d' % bs, prop, tmpl, extracts=EXTRACTS, checks=checks,
                        insts=[('bits%d' % bs, tier, {'BIT_SIZE': str(bs)})], replay=REPLAY,
                        preconditions=['bit cursor: buffer <= 2^40 bytes, |num_bits| <= 2^44, the move stays inside [0, 8*size] of the buffer'],
                        assumed=['bit_range::current_byte() / bit_offset() return the two fields (one-line accessors, inlined by rule R11)']))
    return out
