"""C04 — pixel algorithms equal the per-pixel loop (partial: the row-chunking arithmetic of copy_pixels).

Under contract (bodies cut from algorithm.hpp): the three copier_n specialisations that std::copy dispatches to for views that
are not 1-D traversable: copier_n<iterator_from_2d,O>, copier_n<I,iterator_from_2d>, copier_n<iterator_from_2d,iterator_from_2d>.
Iterators are lowered to the ghost (x position in the row, row width, linear index); `it += k` to the contract proved for
iterator_from_2d::advance in C03 (index + k, 0 <= x < width); detail::copy_n(first, k, out) to RANGE_COPY with the precondition
that the k pixels lie inside ONE row of every 2-D side (a raw x-iterator is only valid within its row), and a ghost target pixel
g in [0, n): the contract says pixel g is copied exactly once, from source pixel g (= the per-pixel loop in row-major order), and
nothing beyond n pixels is written.  Which copier is used for which (src, dst) traversability is decided by is_1d_traversable (C03).
"""
from vclib.core import X, Check, Unit

AL = 'algorithm.hpp'
R = [('R1.concepts', r'gil_function_requires<[^;]*>\(\);', '', False),
     ('R11.src_w', r'\bsrc\.width\(\)', 'src.w', False), ('R11.src_x', r'\bsrc\.x_pos\(\)', 'src.x', False),
     ('R11.dst_w', r'\bdst\.width\(\)', 'dst.w', False), ('R11.dst_x', r'\bdst\.x_pos\(\)', 'dst.x', False),
     ('R11.copy_2d_raw', r'detail::copy_n\(src\.x\(\), numToCopy, dst\);', 'RANGE_COPY(src.idx, dst.idx, numToCopy, src.x, src.w, 0, 0);', False),
     ('R11.copy_raw_2d', r'detail::copy_n\(src, numToCopy, dst\.x\(\)\);', 'RANGE_COPY(src.idx, dst.idx, numToCopy, 0, 0, dst.x, dst.w);', False),
     ('R11.copy_2d_2d', r'detail::copy_n\(src\.x\(\), numToCopy, dst\.x\(\)\);', 'RANGE_COPY(src.idx, dst.idx, numToCopy, src.x, src.w, dst.x, dst.w);', False),
     ('R11.pixel_copy', r'\*dst\+\+=\*src\+\+;', 'RANGE_COPY(src.idx, dst.idx, 1, src.x, src.w, dst.x, dst.w); IT_ADVANCE(&dst, 1); IT_ADVANCE(&src, 1);', False),
     ('R11.dst_adv', r'\bdst\+=numToCopy;', 'IT_ADVANCE(&dst, numToCopy);', False), ('R11.src_adv', r'\bsrc\+=numToCopy;', 'IT_ADVANCE(&src, numToCopy);', False),
     ('L.chunk', r'while \(n>0\)', 'while (n>0)\nCHUNK_LOOP_CONTRACT', False),
     ('L.pixel', r'while\(n-->0\)', 'while(n-->0)\nPIXEL_LOOP_CONTRACT', False)]
OPW = r'BOOST_FORCEINLINE void operator\(\)\(%s\) const \{'
X_ALL = [
    X('copy_2d_raw', AL, OPW % r'iterator_from_2d<IL> src, diff_t n, O dst', within=r'struct copier_n<iterator_from_2d<IL>,O> \{', count=1, rules=R),
    X('copy_raw_2d', AL, OPW % r'I src, diff_t n, iterator_from_2d<OL> dst', within=r'struct copier_n<I,iterator_from_2d<OL>> \{', count=1, rules=R),
    X('copy_2d_2d', AL, OPW % r'iterator_from_2d<IL> src, diff_t n, iterator_from_2d<OL> dst', within=r'struct copier_n<iterator_from_2d<IL>,iterator_from_2d<OL>> \{', count=1, rules=R),
]
C = r'''
typedef ptrdiff_t diff_t;
/* ghost iterator: x position inside its row and row width (w == 0: a raw / 1-D iterator, no row structure), linear index of the pixel it denotes */
typedef struct { ptrdiff_t x, w, idx; } it_t;
#define NMAX ((ptrdiff_t)1 << 40)
ptrdiff_t g_target, g_n0, g_src0, g_dst0, g_sw, g_dw; int g_hits; _Bool g_order_ok;
/* contract of iterator_from_2d::advance (C03): the index moves by d and 0 <= x < width is kept; for a raw iterator only the index moves */
static void IT_ADVANCE(it_t* it, diff_t d) {
  it->idx = it->idx + d;
  if (it->w > 0) { if (it->x + d < it->w) it->x = it->x + d; else if (it->x + d == it->w) it->x = 0; else { ptrdiff_t nx; __CPROVER_assume(0 <= nx && nx < it->w); it->x = nx; } } }
/* detail::copy_n(first, k, out): k pixels from linear index s.. to linear index d..; raw x-iterators are valid only within their row */
static void RANGE_COPY(ptrdiff_t s, ptrdiff_t d, diff_t k, ptrdiff_t sx, ptrdiff_t sw, ptrdiff_t dx, ptrdiff_t dw) {
  __CPROVER_assert(k >= 0, "copy_n: non-negative length");
  __CPROVER_assert(sw == 0 || sx + k <= sw, "copy_n: the source chunk lies inside one row of the source view");
  __CPROVER_assert(dw == 0 || dx + k <= dw, "copy_n: the destination chunk lies inside one row of the destination view (no write into row padding / neighbouring pixels)");
  __CPROVER_assert(d - g_dst0 >= 0 && d - g_dst0 + k <= g_n0, "copy_n: writes only pixels of the destination range [0, n)");
  if (s - g_src0 != d - g_dst0) g_order_ok = 0;                                            /* pixel i of the range comes from source pixel i */
  if (d - g_dst0 <= g_target && g_target < d - g_dst0 + k) g_hits = g_hits + 1; }
#define DONE(it0, it) ((it).idx - (it0))
#define CHUNK_LOOP_CONTRACT \
  __CPROVER_assigns(n, src, dst, g_hits, g_order_ok) \
  __CPROVER_loop_invariant(src.w == g_sw && dst.w == g_dw && -2 * NMAX <= src.idx && src.idx <= 2 * NMAX && -2 * NMAX <= dst.idx && dst.idx <= 2 * NMAX) \
  __CPROVER_loop_invariant(-1 <= n && n <= g_n0 && src.idx - g_src0 == g_n0 - MAX(n, 0) && dst.idx - g_dst0 == g_n0 - MAX(n, 0)) \
  __CPROVER_loop_invariant((src.w == 0 || (0 <= src.x && src.x < src.w)) && (dst.w == 0 || (0 <= dst.x && dst.x < dst.w))) \
  __CPROVER_loop_invariant(g_order_ok && g_hits == (g_target < g_n0 - MAX(n, 0) ? 1 : 0)) \
  __CPROVER_loop_invariant(IMPLIES(BOTH_2D_ALIGNED && n > 0, src.x == dst.x && src.w == dst.w)) \
  __CPROVER_decreases(n + 1)
#define PIXEL_LOOP_CONTRACT \
  __CPROVER_assigns(n, src, dst, g_hits, g_order_ok) \
  __CPROVER_loop_invariant(src.w == g_sw && dst.w == g_dw && -2 * NMAX <= src.idx && src.idx <= 2 * NMAX && -2 * NMAX <= dst.idx && dst.idx <= 2 * NMAX) \
  __CPROVER_loop_invariant(-1 <= n && n <= g_n0 && src.idx - g_src0 == g_n0 - MAX(n, 0) && dst.idx - g_dst0 == g_n0 - MAX(n, 0)) \
  __CPROVER_loop_invariant((0 <= src.x && src.x < src.w) && (0 <= dst.x && dst.x < dst.w)) \
  __CPROVER_loop_invariant(g_order_ok && g_hits == (g_target < g_n0 - MAX(n, 0) ? 1 : 0)) \
  __CPROVER_decreases(n + 1)
#define PRE(src, dst, n) (0 <= n && n <= NMAX && g_n0 == n && g_src0 == (src).idx && g_dst0 == (dst).idx && -NMAX <= (src).idx && (src).idx <= NMAX && -NMAX <= (dst).idx && (dst).idx <= NMAX && \
   0 <= g_target && g_hits == 0 && g_order_ok && (src).w <= NMAX && (dst).w <= NMAX && g_sw == (src).w && g_dw == (dst).w)
#define POST (g_order_ok && g_hits == (g_target < g_n0 ? 1 : 0))
#define BOTH_2D_ALIGNED 0
void copy_2d_raw(it_t src, diff_t n, it_t dst)
__CPROVER_requires(PRE(src, dst, n) && src.w > 0 && 0 <= src.x && src.x < src.w && dst.w == 0)
__CPROVER_assigns(g_hits, g_order_ok)
__CPROVER_ensures(POST)          /* every pixel g of [0, n) is copied exactly once, from source pixel g; nothing else is written */
@@copy_2d_raw@@
void copy_raw_2d(it_t src, diff_t n, it_t dst)
__CPROVER_requires(PRE(src, dst, n) && dst.w > 0 && 0 <= dst.x && dst.x < dst.w && src.w == 0)
__CPROVER_assigns(g_hits, g_order_ok)
__CPROVER_ensures(POST)
@@copy_raw_2d@@
#undef BOTH_2D_ALIGNED
#define BOTH_2D_ALIGNED 1
void copy_2d_2d(it_t src, diff_t n, it_t dst)
__CPROVER_requires(PRE(src, dst, n) && dst.w > 0 && 0 <= dst.x && dst.x < dst.w && src.w > 0 && 0 <= src.x && src.x < src.w)
__CPROVER_assigns(g_hits, g_order_ok)
__CPROVER_ensures(POST)
@@copy_2d_2d@@
#ifndef VERIF_NATIVE
#define H(name) void h_##name(void){ it_t s, d; diff_t n; g_hits = 0; g_order_ok = 1; name(s, n, d); __CPROVER_assert(0, "VACUITY"); }
H(copy_2d_raw) H(copy_raw_2d) H(copy_2d_2d)
#endif
'''
REPLAY = r'''
#include <boost/gil.hpp>
#include <vector>
#include "vreplay.hpp"
using namespace boost::gil;
int main(int argc, char** argv){ vr::parse(argc, argv); long bad = 0;
  for (int W = 1; W <= 6; W++) for (int H = 1; H <= 5; H++) for (int pad_s = 0; pad_s <= 2; pad_s++) for (int pad_d = 0; pad_d <= 2; pad_d++) {
    std::vector<unsigned char> sb((3 * W + pad_s) * H, 0), db((3 * W + pad_d) * H, 0xEE), ref;
    for (size_t i = 0; i < sb.size(); i++) sb[i] = (unsigned char)(i * 7 + 1);
    rgb8_view_t s = interleaved_view(W, H, (rgb8_pixel_t*)sb.data(), 3 * W + pad_s), d = interleaved_view(W, H, (rgb8_pixel_t*)db.data(), 3 * W + pad_d);
    ref = db; for (int y = 0; y < H; y++) for (int x = 0; x < W; x++) for (int c = 0; c < 3; c++) ref[(3 * W + pad_d) * y + 3 * x + c] = sb[(3 * W + pad_s) * y + 3 * x + c];
    copy_pixels(s, d); if (db != ref) bad++;
    // partial 1-D copies crossing row ends
    for (int a = 0; a < W * H; a += 2) for (int n = 0; a + n <= W * H; n += 3) { std::vector<unsigned char> d2((3 * W + pad_d) * H, 0xEE), r2 = d2; rgb8_view_t dv = interleaved_view(W, H, (rgb8_pixel_t*)d2.data(), 3 * W + pad_d);
      std::copy(s.begin() + a, s.begin() + a + n, dv.begin() + a);
      for (int i = a; i < a + n; i++) for (int c = 0; c < 3; c++) r2[(3 * W + pad_d) * (i / W) + 3 * (i % W) + c] = sb[(3 * W + pad_s) * (i / W) + 3 * (i % W) + c];
      if (d2 != r2) bad++; } }
  if (bad) REPRODUCED("%ld copies differ from the per-pixel loop or touched row padding", bad);
  NOT_REPRODUCED("copy_pixels / std::copy over 2-D iterators equal the per-pixel loop on padded views"); }
'''
UNITS = [Unit('copier', 'C04', C, extracts=X_ALL, replay=REPLAY,
              checks=[Check('copy_2d_raw', 'h_copy_2d_raw', enforce='copy_2d_raw', loops=True, object_bits=10, timeout=600),
                      Check('copy_raw_2d', 'h_copy_raw_2d', enforce='copy_raw_2d', loops=True, object_bits=10, timeout=600),
                      Check('copy_2d_2d', 'h_copy_2d_2d', enforce='copy_2d_2d', loops=True, object_bits=10, timeout=900)],
              preconditions=['n <= 2^40 pixels, row widths <= 2^40'],
              assumed=['iterator_from_2d += k follows the advance contract of C03', 'detail::copy_n on raw iterators copies k consecutive pixels (std::copy / memmove)',
                       'iterator_from_2d::x() is the raw x-iterator at the current position, valid up to the end of its row'])]
# ---------------------------------------------------------------------------------------------------------------------------------------
# detail::copy_with_2d_iterators (what copy_pixels / std::copy over view iterators run): picks one of the four copier_n forms.
# Contract: exactly one copier call for n = last - first pixels; a side is handed over as a raw x-iterator (no row structure) only when
# that side reported is_1d_traversable(); the copier's type parameters match the arguments; the result is dst + n.
import re as _re
def _copier_call(body):
    def rep(m):
        ts, td, a, b = m.group(1).strip(), m.group(2).strip(), m.group(3).strip(), m.group(4).strip()
        return 'USE_COPIER(%d, %d, %d, %d, n);' % (ts == 'src_x_iterator', a == 'first.x()', td == 'dst_x_iterator', b == 'dst.x()')
    return _re.subn(r'copier_n<\s*(\w+)\s*,\s*(\w+)\s*>\(\)\(\s*(first(?:\.x\(\))?)\s*,\s*n\s*,\s*(dst(?:\.x\(\))?)\s*\);', rep, body)
X_CW = [X('copy_with_2d', AL, r'BOOST_FORCEINLINE auto copy_with_2d_iterators\(SrcIterator first, SrcIterator last, DstIterator dst\) -> DstIterator \{', count=1,
          rules=[('R11.copier_call', _copier_call, None, True),
                 ('R2.using', r'using \w+ = typename \w+::x_iterator;', '', False),
                 ('R2.diff', r'typename SrcIterator::difference_type n', 'ptrdiff_t n', False),
                 ('R11.src1d', r'\bfirst\.is_1d_traversable\(\)', 'g_src1d', True), ('R11.dst1d', r'\bdst\.is_1d_traversable\(\)', 'g_dst1d', True)])]
CW_C = r"""
_Bool g_src1d, g_dst1d; int g_calls; _Bool g_src_raw, g_dst_raw, g_types_ok; ptrdiff_t g_n;
static void USE_COPIER(int tsrc_raw, int asrc_raw, int tdst_raw, int adst_raw, ptrdiff_t n) {
  g_calls = g_calls + 1; g_src_raw = asrc_raw; g_dst_raw = adst_raw; g_types_ok = (tsrc_raw == asrc_raw) && (tdst_raw == adst_raw); g_n = n; }
ptrdiff_t copy_with_2d(ptrdiff_t first, ptrdiff_t last, ptrdiff_t dst)
__CPROVER_requires(-((ptrdiff_t)1 << 40) <= first && first <= last && last <= ((ptrdiff_t)1 << 40) && -((ptrdiff_t)1 << 40) <= dst && dst <= ((ptrdiff_t)1 << 40) && g_calls == 0)
__CPROVER_assigns(g_calls, g_src_raw, g_dst_raw, g_types_ok, g_n)
__CPROVER_ensures(g_calls == 1 && g_n == last - first)                 /* one copier run over exactly the pixels of [first, last) */
__CPROVER_ensures(g_types_ok)                                           /* copier_n<A,B> instantiated for the iterator kinds it is given */
__CPROVER_ensures(!g_src_raw || g_src1d)                                /* the source is walked as one raw run only when it is 1-D traversable */
__CPROVER_ensures(!g_dst_raw || g_dst1d)                                /* the destination is written as one raw run only when it is 1-D traversable */
__CPROVER_ensures(__CPROVER_return_value == dst + (last - first))
@@copy_with_2d@@
#ifndef VERIF_NATIVE
void h_cw(void){ ptrdiff_t a, b, d; copy_with_2d(a, b, d); __CPROVER_assert(0, "VACUITY"); }
#endif
"""
UNITS.append(Unit('copy_dispatch', 'C04', CW_C, extracts=X_CW, replay=REPLAY, checks=[Check('dispatch', 'h_cw', enforce='copy_with_2d')],
                  assumed=['the four copier_n forms meet the contracts of unit copier', 'is_1d_traversable() of iterator_from_2d forwards to the locator predicate (C03)']))
# ---------------------------------------------------------------------------------------------------------------------------------------
# The std::copy overloads the copiers end in: pixel<T,CS>* ranges (one byte-wise std::copy), planar pointer ranges (one copy_fn per plane).
# detail::copy_fn must be the only definition (count guard): a new specialisation is an extraction break, answered by the native replay.
RS = R + [('R11.bytecopy0', r'std::copy\(\(unsigned char\*\)first, ?\(unsigned char\*\)last, ?\(unsigned char\*\)dst\)', 'BYTE_COPY(first, last, dst)', False),
          ('R9.bytes', r'\(unsigned char\*\)(first|last|dst)\b', r'\1', False),
          ('R11.bytecopy', r'std::copy\(first, last, dst\)|std::copy\(first,last,dst\)', 'ELEM_COPY(first, last, dst)', False),
          ('R11.bytecopy2', r'std::copy\(', 'BYTE_COPY(', False),
          ('R2.auto', r'\bauto p =', 'uintptr_t p =', False),
          ('R9.recast', r'reinterpret_cast<boost::gil::pixel<T, CS>\*>\(p\)', 'p', False),
          ('R9.ccast', r'\(boost::gil::pixel<T,CS>\*\)BYTE_COPY', 'BYTE_COPY', False),
          ('R11.sfe', r'static_for_each\(first,last,dst,boost::gil::detail::copy_fn<IC1,IC2>\(\)\);', 'STATIC_FOR_EACH_COPY(first, last, dst);', False),
          ('R11.pladd', r'return dst\+\(last-first\);', 'return PL_ADD(dst, PL_DIFF(last, first));', False)]
X_SC = [X('copy_fn_guard', AL, r'struct copy_fn\b[^{;]*\{', count=1, rules=[], common=False),
        X('copy_fn', AL, r'BOOST_FORCEINLINE I operator\(\)\(I first, I last, O dst\) const \{', within=r'template <typename I, typename O> struct copy_fn \{', count=1, rules=RS),
        X('copy_px', AL, r'boost::gil::pixel<T, CS>\* dst\)\s*->\s*boost::gil::pixel<T, CS>\*\s*\{', count=1, rules=RS),
        X('copy_cpx', AL, r'boost::gil::pixel<T,CS>\* dst\) -> boost::gil::pixel<T,CS>\*\s*\{', count=1, rules=RS),
        X('copy_planar', AL, r'boost::gil::planar_pixel_iterator<IC2,CS> dst\) -> boost::gil::planar_pixel_iterator<IC2,CS>\s*\{', count=1, rules=RS)]
SC_C = r"""
#define LIM ((ptrdiff_t)1 << 40)
typedef struct { ptrdiff_t p[5]; } pl_t;                 /* planar pointer: one element index per plane (identity layout: position k = colour k) */
int g_calls; ptrdiff_t g_from[5], g_to[5], g_len[5]; int NCH;
static ptrdiff_t ELEM_COPY(ptrdiff_t first, ptrdiff_t last, ptrdiff_t dst) { if (g_calls < 5) { g_from[g_calls] = first; g_to[g_calls] = dst; g_len[g_calls] = last - first; } g_calls = g_calls + 1; return dst + (last - first); }
static uintptr_t BYTE_COPY(uintptr_t first, uintptr_t last, uintptr_t dst) { if (g_calls < 5) { g_from[g_calls] = (ptrdiff_t)first; g_to[g_calls] = (ptrdiff_t)dst; g_len[g_calls] = (ptrdiff_t)(last - first); } g_calls = g_calls + 1; return dst + (last - first); }
/* detail::copy_fn<I,O>: copies the elements [first,last) to dst */
ptrdiff_t copy_fn(ptrdiff_t first, ptrdiff_t last, ptrdiff_t dst)
__CPROVER_requires(-LIM <= first && first <= last && last <= 2 * LIM && -LIM <= dst && dst <= LIM && g_calls >= 0 && g_calls < 5)
__CPROVER_assigns(g_calls, g_from[g_calls], g_to[g_calls], g_len[g_calls])
__CPROVER_ensures(g_calls == __CPROVER_old(g_calls) + 1 && g_from[__CPROVER_old(g_calls)] == first && g_to[__CPROVER_old(g_calls)] == dst && g_len[__CPROVER_old(g_calls)] == last - first)
@@copy_fn@@
/* std::copy(pixel*, pixel*, pixel*): byte addresses; exactly the bytes of the n pixels are copied and dst + n is returned */
uintptr_t copy_px(uintptr_t first, uintptr_t last, uintptr_t dst)
__CPROVER_requires(first <= last && last - first <= ((uintptr_t)1 << 44) && g_calls == 0)
__CPROVER_assigns(g_calls, __CPROVER_object_whole(g_from), __CPROVER_object_whole(g_to), __CPROVER_object_whole(g_len))
__CPROVER_ensures(g_calls == 1 && g_from[0] == (ptrdiff_t)first && g_to[0] == (ptrdiff_t)dst && g_len[0] == (ptrdiff_t)(last - first) && __CPROVER_return_value == dst + (last - first))
@@copy_px@@
uintptr_t copy_cpx(uintptr_t first, uintptr_t last, uintptr_t dst)
__CPROVER_requires(first <= last && last - first <= ((uintptr_t)1 << 44) && g_calls == 0)
__CPROVER_assigns(g_calls, __CPROVER_object_whole(g_from), __CPROVER_object_whole(g_to), __CPROVER_object_whole(g_len))
__CPROVER_ensures(g_calls == 1 && g_from[0] == (ptrdiff_t)first && g_to[0] == (ptrdiff_t)dst && g_len[0] == (ptrdiff_t)(last - first) && __CPROVER_return_value == dst + (last - first))
@@copy_cpx@@
/* static_for_each over three identity-layout colour bases: op(first[k], last[k], dst[k]) for every colour k */
#define STATIC_FOR_EACH_COPY(f, l, d) do { if (NCH > 0) copy_fn((f).p[0], (l).p[0], (d).p[0]); if (NCH > 1) copy_fn((f).p[1], (l).p[1], (d).p[1]); if (NCH > 2) copy_fn((f).p[2], (l).p[2], (d).p[2]); \
                                          if (NCH > 3) copy_fn((f).p[3], (l).p[3], (d).p[3]); if (NCH > 4) copy_fn((f).p[4], (l).p[4], (d).p[4]); } while (0)
static ptrdiff_t PL_DIFF(pl_t a, pl_t b) { return a.p[0] - b.p[0]; }                      /* planar_pixel_iterator::distance_to (C03 planar_it) */
static pl_t PL_ADD(pl_t a, ptrdiff_t d) { pl_t r = a; r.p[0] += d; r.p[1] += d; r.p[2] += d; r.p[3] += d; r.p[4] += d; return r; }
#define PLANE_OK(K) ((K) >= NCH || (g_from[K] == first.p[K] && g_to[K] == dst.p[K] && g_len[K] == last.p[0] - first.p[0] && __CPROVER_return_value.p[K] == dst.p[K] + (last.p[0] - first.p[0])))
pl_t copy_planar(pl_t first, pl_t last, pl_t dst)
__CPROVER_requires(1 <= NCH && NCH <= 5 && g_calls == 0)
__CPROVER_requires(-LIM <= first.p[0] && first.p[0] <= LIM && -LIM <= first.p[1] && first.p[1] <= LIM && -LIM <= first.p[2] && first.p[2] <= LIM && -LIM <= first.p[3] && first.p[3] <= LIM && -LIM <= first.p[4] && first.p[4] <= LIM)
__CPROVER_requires(-LIM <= dst.p[0] && dst.p[0] <= LIM && -LIM <= dst.p[1] && dst.p[1] <= LIM && -LIM <= dst.p[2] && dst.p[2] <= LIM && -LIM <= dst.p[3] && dst.p[3] <= LIM && -LIM <= dst.p[4] && dst.p[4] <= LIM)
__CPROVER_requires(-LIM <= last.p[0] && last.p[0] <= 2 * LIM && 0 <= last.p[0] - first.p[0] && last.p[0] - first.p[0] <= LIM)
__CPROVER_requires(-LIM <= last.p[1] && last.p[1] <= 2 * LIM && -LIM <= last.p[2] && last.p[2] <= 2 * LIM && -LIM <= last.p[3] && last.p[3] <= 2 * LIM && -LIM <= last.p[4] && last.p[4] <= 2 * LIM)
__CPROVER_requires(last.p[1] - first.p[1] == last.p[0] - first.p[0] && last.p[2] - first.p[2] == last.p[0] - first.p[0] && last.p[3] - first.p[3] == last.p[0] - first.p[0] && last.p[4] - first.p[4] == last.p[0] - first.p[0])
__CPROVER_assigns(g_calls, __CPROVER_object_whole(g_from), __CPROVER_object_whole(g_to), __CPROVER_object_whole(g_len))
__CPROVER_ensures(g_calls == NCH && PLANE_OK(0) && PLANE_OK(1) && PLANE_OK(2) && PLANE_OK(3) && PLANE_OK(4))   /* every plane: its n elements, once, to the same plane of dst */
@@copy_planar@@
#ifndef VERIF_NATIVE
void h_fn(void){ ptrdiff_t a, b, d; copy_fn(a, b, d); __CPROVER_assert(0, "VACUITY"); }
void h_px(void){ uintptr_t a, b, d; copy_px(a, b, d); __CPROVER_assert(0, "VACUITY"); }
void h_cpx(void){ uintptr_t a, b, d; copy_cpx(a, b, d); __CPROVER_assert(0, "VACUITY"); }
void h_planar(void){ pl_t a, b, d; copy_planar(a, b, d); __CPROVER_assert(0, "VACUITY"); }
#endif
#if 0  /* guard only (counted, never compiled) */
@@copy_fn_guard@@
#endif
"""
REPLAY_SC = r"""
#include <boost/gil.hpp>
#include "vreplay.hpp"
using namespace boost::gil;
template <typename SrcImg, typename DstImg> static long run(const char* what) { long bad = 0;
  for (int W = 0; W <= 7; W++) for (int H = 0; H <= 4; H++) { SrcImg s(W, H); DstImg d(W, H); using ch_t = typename channel_type<SrcImg>::type; unsigned v = 1;
    for (int y = 0; y < H; y++) for (int x = 0; x < W; x++) for (int c = 0; c < (int)num_channels<SrcImg>::value; c++) { view(s)(x, y)[c] = (ch_t)(v * 257u); view(d)(x, y)[c] = (ch_t)0x77; v++; }
    copy_pixels(const_view(s), view(d));
    for (int y = 0; y < H; y++) for (int x = 0; x < W; x++) for (int c = 0; c < (int)num_channels<SrcImg>::value; c++) if (!(view(d)(x, y)[c] == view(s)(x, y)[c])) { if (!bad) std::printf("%s %dx%d: pixel (%d,%d) channel %d differs after copy_pixels\n", what, W, H, x, y, c); bad++; }
    if (W > 2 && H > 1) { DstImg d2(W, H); fill_pixels(view(d2), typename DstImg::value_type()); auto sv = subimage_view(const_view(s), 1, 0, W - 2, H); auto dv = subimage_view(view(d2), 1, 0, W - 2, H); copy_pixels(sv, dv);
      for (int y = 0; y < H; y++) for (int x = 0; x < W - 2; x++) for (int c = 0; c < (int)num_channels<SrcImg>::value; c++) if (!(dv(x, y)[c] == sv(x, y)[c])) { if (!bad) std::printf("%s %dx%d sub-view: pixel (%d,%d) channel %d differs\n", what, W, H, x, y, c); bad++; } } }
  return bad; }
int main(int argc, char** argv){ vr::parse(argc, argv); long bad = 0;
  bad += run<rgb8_planar_image_t, rgb8_planar_image_t>("rgb8_planar -> rgb8_planar"); bad += run<rgb16_planar_image_t, rgb16_planar_image_t>("rgb16_planar -> rgb16_planar");
  bad += run<rgba32f_planar_image_t, rgba32f_planar_image_t>("rgba32f_planar -> rgba32f_planar"); bad += run<cmyk16_planar_image_t, cmyk16_planar_image_t>("cmyk16_planar -> cmyk16_planar");
  bad += run<rgb16_image_t, rgb16_image_t>("rgb16 -> rgb16"); bad += run<rgb16_image_t, rgb16_planar_image_t>("rgb16 -> rgb16_planar"); bad += run<rgb16_planar_image_t, rgb16_image_t>("rgb16_planar -> rgb16");
  bad += run<gray32f_image_t, gray32f_image_t>("gray32f -> gray32f"); bad += run<rgba8_image_t, rgba8_image_t>("rgba8 -> rgba8");
  if (bad) REPRODUCED("%ld channel values differ from the per-pixel loop after copy_pixels", bad);
  NOT_REPRODUCED("copy_pixels equals the per-pixel loop for planar / interleaved 8, 16 and 32-bit views"); }
"""
UNITS.append(Unit('std_copy', 'C04', SC_C, extracts=X_SC, replay=REPLAY_SC,
                  checks=[Check('copy_fn', 'h_fn', enforce='copy_fn'), Check('pixel_ptr', 'h_px', enforce='copy_px'), Check('const_pixel_ptr', 'h_cpx', enforce='copy_cpx'),
                          Check('planar', 'h_planar', enforce='copy_planar', replace=['copy_fn'])],
                  assumed=['std::copy on raw element / byte pointers copies [first,last) to dst and returns dst + n (libstdc++)', 'static_for_each visits the planes of identity-layout planar pointers position by position',
                           'planar pointer difference is the difference of plane 0 (C03 planar_it)']))
# ---------------------------------------------------------------------------------------------------------------------------------------
# detail::fill_aux for planar iterators: one std::fill per plane, the planes paired with the fill value's channels BY COLOUR
X_FA = [X('fill_aux_planar', AL, r'void fill_aux\(It first, It last, P const& p, std::true_type\)\s*\{', count=1,
          rules=[('R11.static_for_each', r'static_for_each\(first, last, p, std_fill_t\(\)\);', 'STATIC_FOR_EACH_FILL(first, last, p);', True)])]
FA_C = r'''
/* ghost: planes of the planar iterator range by SEMANTIC index (0 = first colour of the colour space ...), the fill value's channels by MEMORY index;
   g_sem2mem[k] = memory index of the k-th colour in the value's layout (probe: measured on the real pixel type) */
typedef struct { int dummy; } planar_range_t; typedef struct { int ch[5]; } value_t;
int g_plane_filled_with[5]; int g_k;
static const int g_sem2mem[5] = { VAL_SEM0, VAL_SEM1, VAL_SEM2, VAL_SEM3, VAL_SEM4 };
/* static_for_each(a, b, c, op): op(semantic_at_c<K>(a), semantic_at_c<K>(b), semantic_at_c<K>(c)) for every K (color_base_algorithm.hpp; assumed, see C05) */
static void STATIC_FOR_EACH_FILL(const planar_range_t* first, const planar_range_t* last, const value_t* p) { for (int k = 0; k < NCH; k++) g_plane_filled_with[k] = p->ch[g_sem2mem[k]]; }
void fill_aux_planar(const planar_range_t* first, const planar_range_t* last, const value_t* p)
__CPROVER_requires(__CPROVER_is_fresh(first, sizeof(*first)) && __CPROVER_is_fresh(last, sizeof(*last)) && __CPROVER_is_fresh(p, sizeof(*p)) && 0 <= g_k && g_k < NCH)
__CPROVER_assigns(__CPROVER_object_whole(g_plane_filled_with))
__CPROVER_ensures(g_plane_filled_with[g_k] == p->ch[g_sem2mem[g_k]])       /* the plane of colour k is filled with the value's channel of colour k (as the per-pixel assignment view(x,y) = value does) */
@@fill_aux_planar@@
#ifndef VERIF_NATIVE
void h_fill_aux_planar(void){ planar_range_t* a; planar_range_t* b; value_t* v; int k; g_k = k; fill_aux_planar(a, b, v); __CPROVER_assert(0, "VACUITY"); }
#endif
'''
PROBE_FA = r'''
  P_VAL("NCH", (int)num_channels<VALP>::value);
  { VALP p; char n[32]; for (int k = 0; k < 5; k++) { std::snprintf(n, sizeof n, "VAL_SEM%d", k); long m = 0;
      if (k < (int)num_channels<VALP>::value) { m = k == 0 ? (const char*)&semantic_at_c<0>(p) - (const char*)&p : k == 1 ? (const char*)&semantic_at_c<1>(p) - (const char*)&p : (const char*)&semantic_at_c<2>(p) - (const char*)&p; m /= (long)sizeof(channel_type<VALP>::type); }
      P_VAL(n, m); } }
'''
REPLAY_FA = r'''
#include <boost/gil.hpp>
#include <vector>
#include "vreplay.hpp"
using namespace boost::gil;
#include "inst.hpp"
int main(int argc, char** argv){ vr::parse(argc, argv);
  // fill_pixels of planar rgb views (contiguous, padded rows, sub-view) with a value of the instantiation's pixel type: equals the per-pixel assignment
  for (int W = 1; W <= 4; W++) for (int H = 1; H <= 3; H++) for (int pad = 0; pad <= 2; pad += 2) { long row = W + pad; std::vector<unsigned char> a(3 * row * H, 0xEE), b(3 * row * H, 0xEE);
    auto va = planar_rgb_view(W, H, a.data(), a.data() + row * H, a.data() + 2 * row * H, row); auto vb = planar_rgb_view(W, H, b.data(), b.data() + row * H, b.data() + 2 * row * H, row);
    VALP val; get_color(val, red_t()) = 10; get_color(val, green_t()) = 20; get_color(val, blue_t()) = 30;
    fill_pixels(va, val); for (int y = 0; y < H; y++) for (int x = 0; x < W; x++) vb(x, y) = val;
    if (a != b) REPRODUCED("fill_pixels(planar rgb8 %dx%d, row padding %d, value (r,g,b) = (10,20,30)) differs from the per-pixel assignment: first red byte %d, first blue byte %d", W, H, pad, (int)a[0], (int)a[2 * row * H]); }
  NOT_REPRODUCED("fill_pixels of planar views equals the per-pixel assignment"); }
'''

for _n, _t in (('rgb8', 'rgb8_pixel_t'), ('bgr8', 'bgr8_pixel_t')):
    UNITS.append(Unit('fill_aux_planar.' + _n, 'C04', FA_C, extracts=X_FA, replay=REPLAY_FA, probe=PROBE_FA, probe_includes=['boost/gil.hpp'],
                      insts=[(_n, 'quick', {'T_VALP': _t})], checks=[Check('fill_aux_planar', 'h_fill_aux_planar', enforce='fill_aux_planar', object_bits=10, flags=['--unwind', '6'], timeout=300)],
                      assumed=['static_for_each pairs the three colour bases by semantic index (color_base_algorithm.hpp; C05 covers the constructors, not the recursive algorithms)',
                               'std_fill_t()(first_k, last_k, value_k) is std::fill over plane k']))

# ---------------------------------------------------------------------------------------------------------------------------------------
# detail::equal_n_fn<pixel<T,CS> const*, pixel<T,CS> const*>: the memcmp fast path of equal_pixels / std::equal - selected only for the homogeneous
# pixel<T, Layout> type, whose every byte belongs to a channel (the specialisation pattern is part of the extraction anchor)
X_EQ = [X('equal_n_memcmp', AL, r'struct equal_n_fn<pixel<T, CS> const\*, pixel<T, CS> const\*>\s*\{\s*BOOST_FORCEINLINE\s*bool operator\(\)\(pixel<T, CS> const\* i1, std::ptrdiff_t n, pixel<T, CS> const\* i2\) const\s*\{', count=1,
          rules=[('R11.memcmp', r'memcmp\(i1, i2, n \* sizeof\(pixel<T, CS>\)\) == 0', 'MEMCMP_EQ(i1, i2, n * (ptrdiff_t)sizeof(px_t))', True)])]
EQ_C = r'''
typedef struct { unsigned char ch[PX_SIZE]; } px_t;            /* pixel<T, Layout>: sizeof == sum of the channel sizes (probe), no byte outside a channel */
/* ghost: g_equal_upto = number of leading BYTES on which the two ranges agree (arbitrary); the per-pixel loop compares channel values, i.e. for a
   pixel type without padding exactly these bytes */
ptrdiff_t g_equal_upto;
static _Bool MEMCMP_EQ(const px_t* a, const px_t* b, ptrdiff_t bytes) { __CPROVER_assert(bytes >= 0, "memcmp length is non-negative"); return g_equal_upto >= bytes; }
_Bool equal_n_memcmp(const px_t* i1, ptrdiff_t n, const px_t* i2)
__CPROVER_requires(0 <= n && n <= ((ptrdiff_t)1 << 40) && 0 <= g_equal_upto)
__CPROVER_assigns()
__CPROVER_ensures(RET == (g_equal_upto >= n * (ptrdiff_t)PX_SIZE))        /* true exactly when all n pixels (all of their bytes = all of their channels) are equal */
@@equal_n_memcmp@@
#ifndef VERIF_NATIVE
void h_equal_n(void){ px_t* a; px_t* b; ptrdiff_t n, e; g_equal_upto = e; equal_n_memcmp(a, n, b);
  __CPROVER_assert(PX_SIZE == PX_CHANNEL_BYTES, "the pixel type of the memcmp fast path has no byte outside its channels (sizeof(pixel) == num_channels * sizeof(channel))");
  __CPROVER_assert(0, "VACUITY"); }
#endif
'''
PROBE_EQ = r'''
  P_VAL("PX_SIZE", (long)sizeof(EQP)); P_VAL("PX_CHANNEL_BYTES", (long)(num_channels<EQP>::value * sizeof(channel_type<EQP>::type)));
'''
REPLAY_EQ = r'''
#include <boost/gil.hpp>
#include <vector>
#include <cstring>
#include "vreplay.hpp"
using namespace boost::gil;
int main(int argc, char** argv){ vr::parse(argc, argv);
  // packed pixels with storage bits no channel owns (rgb555 in uint16_t): two buffers that agree channel-wise but differ in the unused bit are equal pixel by pixel
  using rgb555 = packed_pixel_type<std::uint16_t, boost::mp11::mp_list_c<unsigned, 5, 5, 5>, rgb_layout_t>::type;
  for (int W : {1, 3}) for (int H : {1, 2}) for (int pad : {0, 2}) { std::vector<std::uint16_t> a((W + pad) * H, 0x1234), b((W + pad) * H, 0x1234 | 0x8000);
    auto va = interleaved_view(W, H, (rgb555*)a.data(), (W + pad) * 2), vb = interleaved_view(W, H, (rgb555*)b.data(), (W + pad) * 2);
    bool loop = true; for (int y = 0; y < H; y++) for (int x = 0; x < W; x++) if (!(va(x, y) == vb(x, y))) loop = false;
    if (equal_pixels(va, vb) != loop) REPRODUCED("equal_pixels of two %dx%d rgb555 views (row padding %d) that are equal pixel by pixel (they differ only in the unused storage bit) returns %d", W, H, pad, (int)equal_pixels(va, vb)); }
  // homogeneous pixels: equal_pixels agrees with the loop
  for (int W : {1, 4}) for (int H : {1, 3}) { rgb8_image_t x(W, H, rgb8_pixel_t(1, 2, 3)), y(W, H, rgb8_pixel_t(1, 2, 3)); if (!equal_pixels(const_view(x), const_view(y))) REPRODUCED("equal rgb8 images compare unequal");
    view(y)(W - 1, H - 1)[2] = 9; if (equal_pixels(const_view(x), const_view(y))) REPRODUCED("different rgb8 images compare equal"); }
  NOT_REPRODUCED("equal_pixels agrees with the per-pixel comparison"); }
'''

for _n, _t in (('rgb8', 'rgb8_pixel_t'), ('rgba16', 'rgba16_pixel_t'), ('gray32f', 'gray32f_pixel_t')):
    UNITS.append(Unit('equal_n.' + _n, 'C04', EQ_C, extracts=X_EQ, replay=REPLAY_EQ, probe=PROBE_EQ, probe_includes=['boost/gil.hpp'],
                      insts=[(_n, 'quick', {'T_EQP': _t})], checks=[Check('equal_n', 'h_equal_n', enforce='equal_n_memcmp', timeout=300)],
                      assumed=['memcmp(a, b, k) == 0 iff the first k bytes agree; channel values of float channels are compared bitwise by this fast path (as the library documents)']))

# equal_n_fn<planar_pixel_iterator, planar_pixel_iterator>: one memcmp per channel plane over n * sizeof(channel) bytes
# (this specialisation did not compile on the pinned tree - fixed in /repo, see known_findings.json)
X_EQP = [X('equal_n_planar', AL, r'bool operator\(\)\(planar_pixel_iterator<IC, CS> const i1, std::ptrdiff_t n, planar_pixel_iterator<IC, CS> const i2\) const\s*\{', count=1,
           rules=[('R8.bytes', r'(?:std::ptrdiff_t const|constexpr std::ptrdiff_t|const std::ptrdiff_t|std::ptrdiff_t) byte_size = n \* sizeof\(typename std::iterator_traits<IC>::value_type\);', 'ptrdiff_t byte_size = n * (ptrdiff_t)CH_SIZE;', True),
                  ('R8.nch', r'mp11::mp_size<CS>::value', 'NCH', True),
                  ('R11.memcmp', r'memcmp\(dynamic_at_c\(i1, i\), dynamic_at_c\(i2, i\), byte_size\) != 0', '!PLANE_EQ(i, byte_size)', True)])]
EQP_C = r"""
#ifndef true
#define true 1
#define false 0
#endif
typedef struct { int dummy; } pl_t;
/* ghost: g_eq[k] = number of leading BYTES on which plane k of the two ranges agree (arbitrary) */
ptrdiff_t g_eq[5]; int g_cmp[5];
static _Bool PLANE_EQ(ptrdiff_t k, ptrdiff_t bytes) { __CPROVER_assert(0 <= k && k < NCH, "dynamic_at_c: plane index inside the colour space"); __CPROVER_assert(bytes >= 0, "memcmp length is non-negative"); return g_eq[k] >= bytes; }
#define PL_EQ(K) ((K) >= NCH || g_eq[K] >= n * (ptrdiff_t)CH_SIZE)
_Bool equal_n_planar(pl_t i1, ptrdiff_t n, pl_t i2)
__CPROVER_requires(0 <= n && n <= ((ptrdiff_t)1 << 40) && 0 <= g_eq[0] && 0 <= g_eq[1] && 0 <= g_eq[2] && 0 <= g_eq[3] && 0 <= g_eq[4])
__CPROVER_assigns()
__CPROVER_ensures(RET == (PL_EQ(0) && PL_EQ(1) && PL_EQ(2) && PL_EQ(3) && PL_EQ(4)))    /* true exactly when every plane agrees on all n channel values */
@@equal_n_planar@@
#ifndef VERIF_NATIVE
void h_equal_n_planar(void){ pl_t a, b; ptrdiff_t n; equal_n_planar(a, n, b); __CPROVER_assert(0, "VACUITY"); }
#endif
"""
PROBE_EQP = r"""
  P_VAL("CH_SIZE", (long)sizeof(channel_type<EQP>::type)); P_VAL("NCH", (long)num_channels<EQP>::value);
"""
REPLAY_EQP = r"""
#include <boost/gil.hpp>
#include "vreplay.hpp"
using namespace boost::gil;
template <typename Img> static long run(const char* what) { long bad = 0;
  for (int W = 0; W <= 4; W++) for (int H = 0; H <= 3; H++) { Img a(W, H), b(W, H); typename Img::value_type p; static_fill(p, 7); fill_pixels(view(a), p); fill_pixels(view(b), p);
    if (!equal_pixels(const_view(a), const_view(b))) { if (!bad) std::printf("%s %dx%d: equal images compare unequal\n", what, W, H); bad++; }
    for (int y = 0; y < H; y++) for (int x = 0; x < W; x++) for (int c = 0; c < (int)num_channels<Img>::value; c++) { view(b)(x, y)[c] = 9;
      if (equal_pixels(const_view(a), const_view(b))) { if (!bad) std::printf("%s %dx%d: images differing in channel %d of pixel (%d,%d) compare equal\n", what, W, H, c, x, y); bad++; }
      if (W > 1 && equal_pixels(subimage_view(const_view(a), 0, 0, W, H), subimage_view(const_view(b), 0, 0, W, H))) bad++;
      view(b)(x, y)[c] = 7; } }
  return bad; }
int main(int argc, char** argv){ vr::parse(argc, argv);
  long bad = run<rgb8_planar_image_t>("rgb8_planar") + run<rgb16_planar_image_t>("rgb16_planar") + run<cmyk16_planar_image_t>("cmyk16_planar") + run<rgba32f_planar_image_t>("rgba32f_planar");
  if (bad) REPRODUCED("%ld equal_pixels results on planar images disagree with the per-pixel comparison", bad);
  NOT_REPRODUCED("equal_pixels on planar images agrees with the per-pixel comparison"); }
"""
for _n, _t in (('rgb8', 'rgb8_pixel_t'), ('rgb16', 'rgb16_pixel_t'), ('rgba8', 'rgba8_pixel_t'), ('cmyk16', 'cmyk16_pixel_t'), ('rgba32f', 'rgba32f_pixel_t')):
    UNITS.append(Unit('equal_n_planar.' + _n, 'C04', EQP_C, extracts=X_EQP, replay=REPLAY_EQP, probe=PROBE_EQP, probe_includes=['boost/gil.hpp'],
                      insts=[(_n, 'quick', {'T_EQP': _t})], checks=[Check('equal_n_planar', 'h_equal_n_planar', enforce='equal_n_planar', unwind=7, timeout=200, flags=['--z3'] if _n in ('cmyk16', 'rgba32f') else [])],
                      assumed=['memcmp(a, b, k) == 0 iff the first k bytes agree', 'dynamic_at_c(planar pointer, k) is the pointer of plane k',
                               'the plane loop has at most 5 iterations: complete unrolling (--unwind 7 --unwinding-assertions)']))

META = dict(not_covered=['fill_pixels / std::fill overload, equal_pixels (equal_n_fn, memcmp lengths), for_each_pixel, generate_pixels, transform_pixels, copy_and_convert_pixels: not built',
                         'the per-pixel assignment itself (C05) and the 1-D traversability dispatch (is_1d_traversable is under contract in C03)'])

# ------------------------------------------------------------------------------------------------ whole-view pixel algorithms
R_PA = [
    ('R1.concepts', r'(?:boost::gil::)?gil_function_requires<[^;]*>\(\);', '', False),
    ('R14.assert', r'BOOST_ASSERT\(src\.dimensions\(\) == dst\.dimensions\(\)\);', 'PRECONDITION(src->w == dst->w && src->h == dst->h);', False),
    ('R11.is1d', r'\b(view|first)\.is_1d_traversable\(\)', r'\1->is1d', False),
    ('R11.range_for_each', r'return std::for_each\(view\.begin\(\)\.x\(\), view\.end\(\)\.x\(\), fun\);', 'RANGE_1D(view); return;', False),
    ('R11.range_generate', r'std::generate\(view\.begin\(\)\.x\(\), view\.end\(\)\.x\(\), fun\);', 'RANGE_1D(view);', False),
    ('R11.range_fill', r'detail::fill_aux\(\s*view\.begin\(\)\.x\(\), view\.end\(\)\.x\(\), value, is_planar<View>\(\)\);', 'RANGE_1D(view);', False),
    ('R11.row_generate', r'std::generate\(view\.row_begin\(y\), view\.row_end\(y\), fun\);', 'ROW_VISIT(view, y, 0, view->w);', False),
    ('R11.row_fill', r'detail::fill_aux\(\s*view\.row_begin\(y\), view\.row_end\(y\), value, is_planar<View>\(\)\);', 'ROW_VISIT(view, y, 0, view->w);', False),
    ('R11.row_for', r'for \(auto begin = view\.row_begin\(y\), end = view\.row_end\(y\); begin != end; \+\+begin\)\s*fun\(\*begin\);',
     'for (ptrdiff_t bx__ = 0; bx__ != view->w; ++bx__)\nINNER_LOOP_CONTRACT(view)\n{ PIX_VISIT(view, bx__, y); }', False),
    ('R11.ret_fun', r'return fun;', 'return;', False),
    ('R11.h', r'\b(view|src)\.height\(\)', r'\1->h', False), ('R11.w', r'\b(view|src)\.width\(\)', r'\1->w', False),
    ('R11.src_it', r'typename View1::x_iterator srcIt=src\.row_begin\(y\);', '', False), ('R11.dst_it', r'typename View2::x_iterator dstIt=dst\.row_begin\(y\);', '', False),
    ('R11.transform', r'dstIt\[x\]=fun\(srcIt\[x\]\);', '{ PIX_READ(src, x, y); PIX_VISIT(dst, x, y); }', False),
    ('L.rows', r'for \(std::ptrdiff_t y\s*=\s*0; y\s*<\s*(view|src)->h; \+\+y\)', lambda m: m.group(0) + '\nROWS_LOOP_CONTRACT(%s)' % m.group(1), False),
    ('L.cols', r'for \(std::ptrdiff_t x=0; x<src->w; \+\+x\)', lambda m: m.group(0) + '\nCOLS_LOOP_CONTRACT', False),
    # std::fill overload for iterator_from_2d
    ('R11.fill_1d', r'std::fill\(first\.x\(\), last\.x\(\), val\);', 'RANGE_FILL_1D(first, last);', False),
    ('R11.diff', r'std::ptrdiff_t n=last-first;', 'ptrdiff_t n = last->idx - first->idx;', False),
    ('R11.min', r'std::min<const std::ptrdiff_t>\(', 'MIN(', False),
    ('R11.fw', r'first\.width\(\)', 'first->w', False), ('R11.fx', r'first\.x_pos\(\)', 'first->x', False),
    ('R11.fill_n', r'std::fill_n\(first\.x\(\), numToDo, val\);', 'CHUNK_FILL(first, numToDo);', False),
    ('R11.adv', r'first\+=numToDo;', 'IT_ADVANCE(first, numToDo);', False),
    ('L.fill', r'while \(n>0\)', 'while (n>0)\nFILL_LOOP_CONTRACT', False),
]
X_PA = [
    X('for_each_pixel', AL, r'F for_each_pixel\(View const& view, F fun\)\s*\{', count=1, rules=R_PA),
    X('generate_pixels', AL, r'void generate_pixels\(View const& view, F fun\)\s*\{', count=1, rules=R_PA),
    X('fill_pixels', AL, r'void fill_pixels\(View const& view, Value const& value\)\s*\{', count=1, rules=R_PA),
    X('transform_pixels', AL, r'F transform_pixels\(const View1& src,const View2& dst, F fun\) \{', count=1, rules=R_PA),
    X('std_fill', AL, r'void fill\(boost::gil::iterator_from_2d<IL> first, boost::gil::iterator_from_2d<IL> last, const V& val\) \{', count=1, rules=R_PA),
]
PA_C = r'''
typedef struct { ptrdiff_t w, h; _Bool is1d; } view_t; typedef int F; typedef int Value; typedef int V;
typedef struct { ptrdiff_t x, w, idx; _Bool is1d; } it_t;
#define PRECONDITION(c) __CPROVER_assert(c, "BOOST_ASSERT precondition of the library")
#define HMAX ((ptrdiff_t)1 << 30)
/* ghost target pixel (g_x, g_y) of the (destination) view: how often is it visited (assigned / generated / passed to fun) */
ptrdiff_t g_x, g_y, g_w, g_h; int g_hits; ptrdiff_t g_first_idx, g_n0, g_target; ptrdiff_t g_fw;
static void RANGE_1D(const view_t* v) {                     /* walk from begin().x() to end().x(): an x-iterator crosses row ends only in a 1-D traversable view */
  __CPROVER_assert(v->is1d, "x-iterator range [begin().x(), end().x()) is used only for a 1-D traversable view (no row padding, no step)");
  g_hits = g_hits + 1; }
static void ROW_VISIT(const view_t* v, ptrdiff_t y, ptrdiff_t x0, ptrdiff_t len) {
  __CPROVER_assert(0 <= y && y < v->h && 0 <= x0 && len >= 0 && x0 + len <= v->w, "ACCESS: the row range lies inside row y of the view");
  if (y == g_y && x0 <= g_x && g_x < x0 + len) g_hits = g_hits + 1; }
static void PIX_VISIT(const view_t* v, ptrdiff_t x, ptrdiff_t y) {
  __CPROVER_assert(0 <= y && y < v->h && 0 <= x && x < v->w, "ACCESS: the pixel lies inside the view");
  if (y == g_y && x == g_x) g_hits = g_hits + 1; }
static void PIX_READ(const view_t* v, ptrdiff_t x, ptrdiff_t y) { __CPROVER_assert(0 <= y && y < v->h && 0 <= x && x < v->w, "ACCESS: the source pixel lies inside the source view"); }
#define ROWS_LOOP_CONTRACT(v) __CPROVER_assigns(y, g_hits) __CPROVER_loop_invariant(0 <= y && y <= (v)->h && g_hits == (y > g_y ? 1 : 0)) __CPROVER_decreases((v)->h - y)
#define INNER_LOOP_CONTRACT(v) __CPROVER_assigns(bx__, g_hits) __CPROVER_loop_invariant(0 <= bx__ && bx__ <= (v)->w && g_hits == ((y > g_y || (y == g_y && bx__ > g_x)) ? 1 : 0)) __CPROVER_decreases((v)->w - bx__)
#define COLS_LOOP_CONTRACT __CPROVER_assigns(x, g_hits) __CPROVER_loop_invariant(0 <= x && x <= src->w && g_hits == ((y > g_y || (y == g_y && x > g_x)) ? 1 : 0)) __CPROVER_decreases(src->w - x)
#define VIEW_PRE(v) (__CPROVER_is_fresh(v, sizeof(view_t)) && 0 <= (v)->w && (v)->w <= HMAX && 0 <= (v)->h && (v)->h <= HMAX && g_hits == 0 && 0 <= g_x && g_x < (v)->w && 0 <= g_y && g_y < (v)->h)
#define ONCE (g_hits == 1)        /* every pixel of the view (ghost g_x, g_y) is visited exactly once */
void for_each_pixel(const view_t* view, F fun) __CPROVER_requires(VIEW_PRE(view)) __CPROVER_assigns(g_hits) __CPROVER_ensures(ONCE) @@for_each_pixel@@
void generate_pixels(const view_t* view, F fun) __CPROVER_requires(VIEW_PRE(view)) __CPROVER_assigns(g_hits) __CPROVER_ensures(ONCE) @@generate_pixels@@
void fill_pixels(const view_t* view, Value value) __CPROVER_requires(VIEW_PRE(view)) __CPROVER_assigns(g_hits) __CPROVER_ensures(ONCE) @@fill_pixels@@
void transform_pixels(const view_t* src, const view_t* dst, F fun)
__CPROVER_requires(VIEW_PRE(dst) && __CPROVER_is_fresh(src, sizeof(view_t)) && src->w == dst->w && src->h == dst->h) __CPROVER_assigns(g_hits) __CPROVER_ensures(ONCE)
@@transform_pixels@@
/* ---- std::fill(iterator_from_2d first, last, val) ---- */
static void IT_ADVANCE(it_t* it, ptrdiff_t d) { it->idx = it->idx + d;
  if (it->x + d < it->w) it->x = it->x + d; else if (it->x + d == it->w) it->x = 0; else { ptrdiff_t nx; __CPROVER_assume(0 <= nx && nx < it->w); it->x = nx; } }
static void RANGE_FILL_1D(const it_t* first, const it_t* last) { __CPROVER_assert(first->is1d, "x-iterator range across rows only for a 1-D traversable view");
  if (g_target < last->idx - first->idx) g_hits = g_hits + 1; }
static void CHUNK_FILL(const it_t* first, ptrdiff_t k) {
  __CPROVER_assert(k >= 0 && first->x + k <= first->w, "fill_n: the chunk lies inside one row of the view (row padding is never written)");
  __CPROVER_assert(first->idx - g_first_idx + k <= g_n0, "fill_n: writes only pixels of [first, last)");
  if (first->idx - g_first_idx <= g_target && g_target < first->idx - g_first_idx + k) g_hits = g_hits + 1; }
#define FILL_LOOP_CONTRACT __CPROVER_assigns(n, first->x, first->idx, g_hits) \
  __CPROVER_loop_invariant(-2 * HMAX <= first->idx && first->idx <= 2 * HMAX && -HMAX <= g_first_idx && g_first_idx <= HMAX) \
  __CPROVER_loop_invariant(0 <= n && n <= g_n0 && first->idx - g_first_idx == g_n0 - n && first->w == g_fw && 0 <= first->x && first->x < first->w) \
  __CPROVER_loop_invariant(g_hits == (g_target < g_n0 - n ? 1 : 0)) __CPROVER_decreases(n)
void std_fill(it_t* first, const it_t* last, V val)
__CPROVER_requires(__CPROVER_is_fresh(first, sizeof(it_t)) && __CPROVER_is_fresh(last, sizeof(it_t)) && first->w == last->w && first->is1d == last->is1d && 0 < first->w && first->w <= HMAX && 0 <= first->x && first->x < first->w)
__CPROVER_requires(-HMAX <= first->idx && first->idx <= last->idx && last->idx <= HMAX && g_first_idx == first->idx && g_n0 == last->idx - first->idx && g_fw == first->w && g_hits == 0 && 0 <= g_target && g_target < g_n0)
__CPROVER_assigns(first->x, first->idx, g_hits)
__CPROVER_ensures(g_hits == 1)      /* every pixel of [first, last) is filled exactly once; nothing outside it, no row padding */
@@std_fill@@
#ifndef VERIF_NATIVE
#define HV(name) void h_##name(void){ view_t* v; int f; g_hits = 0; name(v, f); __CPROVER_assert(0, "VACUITY"); }
HV(for_each_pixel) HV(generate_pixels) HV(fill_pixels)
void h_transform_pixels(void){ view_t* s; view_t* d; int f; g_hits = 0; transform_pixels(s, d, f); __CPROVER_assert(0, "VACUITY"); }
void h_std_fill(void){ it_t* a; it_t* b; int v; g_hits = 0; std_fill(a, b, v); __CPROVER_assert(0, "VACUITY"); }
#endif
'''
REPLAY_PA = r'''
#include <boost/gil.hpp>
#include <vector>
#include "vreplay.hpp"
using namespace boost::gil;
int main(int argc, char** argv){ vr::parse(argc, argv); long bad = 0;
  for (int W = 1; W <= 5; W++) for (int H = 1; H <= 4; H++) for (int pad = 0; pad <= 2; pad++) {
    std::vector<unsigned char> b((3 * W + pad) * H, 0xEE), ref; rgb8_view_t v = interleaved_view(W, H, (rgb8_pixel_t*)b.data(), 3 * W + pad);
    ref = b; for (int y = 0; y < H; y++) for (int x = 0; x < 3 * W; x++) ref[(3 * W + pad) * y + x] = 9;
    fill_pixels(v, rgb8_pixel_t(9, 9, 9)); if (b != ref) bad++;
    std::fill(b.begin(), b.end(), 0xEE); std::fill(v.begin(), v.end(), rgb8_pixel_t(9, 9, 9)); if (b != ref) bad++;
    long cnt = 0; for_each_pixel(v, [&](rgb8_pixel_t& p){ cnt++; p = rgb8_pixel_t(1, 2, 3); }); if (cnt != (long)W * H) bad++;
    cnt = 0; generate_pixels(v, [&]{ cnt++; return rgb8_pixel_t(4, 5, 6); }); if (cnt != (long)W * H) bad++;
    for (int y = 0; y < H; y++) for (int x = 0; x < W; x++) if (v(x, y) != rgb8_pixel_t(4, 5, 6)) bad++;
    for (int y = 0; y < H; y++) for (int x = 3 * W; x < 3 * W + pad; x++) if (b[(3 * W + pad) * y + x] != 0xEE) bad++; }
  if (bad) REPRODUCED("%ld deviations from the per-pixel loop (a pixel not visited exactly once, or row padding written)", bad);
  NOT_REPRODUCED("fill / for_each / generate visit every pixel exactly once and leave the padding alone"); }
'''
UNITS.append(Unit('pixelalgs', 'C04', PA_C, extracts=X_PA, replay=REPLAY_PA,
                  checks=[Check(n, 'h_' + n, enforce=n, loops=True, object_bits=10, timeout=600) for n in ('for_each_pixel', 'generate_pixels', 'fill_pixels', 'transform_pixels', 'std_fill')],
                  preconditions=['view dimensions <= 2^30'],
                  assumed=['std::for_each / std::generate / std::fill / fill_aux over an x-iterator range [a, b) visit exactly the pixels of that range, in order (libstdc++)',
                           'view.row_begin(y) / row_end(y) delimit row y; iterator_from_2d += k follows the C03 advance contract']))
META['not_covered'] = ['equal_pixels / std::equal overloads (equal_n_fn, memcmp lengths), transform_pixels with two sources, transform_pixel_positions, copy_and_convert_pixels, uninitialized_* / destruct_pixels: not built',
                       'the per-pixel assignment itself (C05) and the 1-D traversability predicate (under contract in C03)']
