"""C04 — pixel algorithms equal the per-pixel loop (partial: the row-chunking arithmetic of copy_pixels).

Under contract (bodies cut from algorithm.hpp): the three copier_n specialisations that std::copy dispatches to for views that
are not 1-D traversable: copier_n<iterator_from_2d,O>, copier_n<I,iterator_from_2d>, copier_n<iterator_from_2d,iterator_from_2d>.
Iterators are lowered to the ghost (x position in the row, row width, linear index); `it += k` to the contract proved for
iterator_from_2d::advance in C03 (index + k, 0 <= x < width); detail::copy_n(first, k, out) to RANGE_COPY with the precondition
that the k pixels lie inside ONE row of every 2-D side (a raw x-iterator is only valid within its row), and a ghost target pixel
g in [0, n): the contract says pixel g is copied exactly once, from source pixel g (= the per-pixel loop in row-major order), and
nothing beyond n pixels is written.  Which copier is used for which (src, dst) traversability is decided by is_1d_traversable (C03).
"""
from vclib.core import X, Check, Unit

AL = 'algorithm.hpp'
R = [('R1.concepts', r'gil_function_requires<[^;]*>\(\);', '', False),
     ('R11.src_w', r'\bsrc\.width\(\)', 'src.w', False), ('R11.src_x', r'\bsrc\.x_pos\(\)', 'src.x', False),
     ('R11.dst_w', r'\bdst\.width\(\)', 'dst.w', False), ('R11.dst_x', r'\bdst\.x_pos\(\)', 'dst.x', False),
     ('R11.copy_2d_raw', r'detail::copy_n\(src\.x\(\), numToCopy, dst\);', 'RANGE_COPY(src.idx, dst.idx, numToCopy, src.x, src.w, 0, 0);', False),
     ('R11.copy_raw_2d', r'detail::copy_n\(src, numToCopy, dst\.x\(\)\);', 'RANGE_COPY(src.idx, dst.idx, numToCopy, 0, 0, dst.x, dst.w);', False),
     ('R11.copy_2d_2d', r'detail::copy_n\(src\.x\(\), numToCopy, dst\.x\(\)\);', 'RANGE_COPY(src.idx, dst.idx, numToCopy, src.x, src.w, dst.x, dst.w);', False),
     ('R11.pixel_copy', r'\*dst\+\+=\*src\+\+;', 'RANGE_COPY(src.idx, dst.idx, 1, src.x, src.w, dst.x, dst.w); IT_ADVANCE(&dst, 1); IT_ADVANCE(&src, 1);', False),
     ('R11.dst_adv', r'\bdst\+=numToCopy;', 'IT_ADVANCE(&dst, numToCopy);', False), ('R11.src_adv', r'\bsrc\+=numToCopy;', 'IT_ADVANCE(&src, numToCopy);', False),
     ('L.chunk', r'while \(n>0\)', 'while (n>0)\nCHUNK_LOOP_CONTRACT', False),
     ('L.pixel', r'while\(n-->0\)', 'while(n-->0)\nPIXEL_LOOP_CONTRACT', False)]
OPW = r'BOOST_FORCEINLINE void operator\(\)\(%s\) const \{'
X_ALL = [
    X('copy_2d_raw', AL, OPW % r'iterator_from_2d<IL> src, diff_t n, O dst', within=r'struct copier_n<iterator_from_2d<IL>,O> \{', count=1, rules=R),
    X('copy_raw_2d', AL, OPW % r'I src, diff_t n, iterator_from_2d<OL> dst', within=r'struct copier_n<I,iterator_from_2d<OL>> \{', count=1, rules=R),
    X('copy_2d_2d', AL, OPW % r'iterator_from_2d<IL> src, diff_t n, iterator_from_2d<OL> dst', within=r'struct copier_n<iterator_from_2d<IL>,iterator_from_2d<OL>> \{', count=1, rules=R),
]
C = r'''
typedef ptrdiff_t diff_t;
/* ghost iterator: x position inside its row and row width (w == 0: a raw / 1-D iterator, no row structure), linear index of the pixel it denotes */
typedef struct { ptrdiff_t x, w, idx; } it_t;
#define NMAX ((ptrdiff_t)1 << 40)
ptrdiff_t g_target, g_n0, g_src0, g_dst0, g_sw, g_dw; int g_hits; _Bool g_order_ok;
/* contract of iterator_from_2d::advance (C03): the index moves by d and 0 <= x < width is kept; for a raw iterator only the index moves */
static void IT_ADVANCE(it_t* it, diff_t d) {
  it->idx = it->idx + d;
  if (it->w > 0) { if (it->x + d < it->w) it->x = it->x + d; else if (it->x + d == it->w) it->x = 0; else { ptrdiff_t nx; __CPROVER_assume(0 <= nx && nx < it->w); it->x = nx; } } }
/* detail::copy_n(first, k, out): k pixels from linear index s.. to linear index d..; raw x-iterators are valid only within their row */
static void RANGE_COPY(ptrdiff_t s, ptrdiff_t d, diff_t k, ptrdiff_t sx, ptrdiff_t sw, ptrdiff_t dx, ptrdiff_t dw) {
  __CPROVER_assert(k >= 0, "copy_n: non-negative length");
  __CPROVER_assert(sw == 0 || sx + k <= sw, "copy_n: the source chunk lies inside one row of the source view");
  __CPROVER_assert(dw == 0 || dx + k <= dw, "copy_n: the destination chunk lies inside one row of the destination view (no write into row padding / neighbouring pixels)");
  __CPROVER_assert(d - g_dst0 >= 0 && d - g_dst0 + k <= g_n0, "copy_n: writes only pixels of the destination range [0, n)");
  if (s - g_src0 != d - g_dst0) g_order_ok = 0;                                            /* pixel i of the range comes from source pixel i */
  if (d - g_dst0 <= g_target && g_target < d - g_dst0 + k) g_hits = g_hits + 1; }
#define DONE(it0, it) ((it).idx - (it0))
#define CHUNK_LOOP_CONTRACT \
  __CPROVER_assigns(n, src, dst, g_hits, g_order_ok) \
  __CPROVER_loop_invariant(src.w == g_sw && dst.w == g_dw && -2 * NMAX <= src.idx && src.idx <= 2 * NMAX && -2 * NMAX <= dst.idx && dst.idx <= 2 * NMAX) \
  __CPROVER_loop_invariant(-1 <= n && n <= g_n0 && src.idx - g_src0 == g_n0 - MAX(n, 0) && dst.idx - g_dst0 == g_n0 - MAX(n, 0)) \
  __CPROVER_loop_invariant((src.w == 0 || (0 <= src.x && src.x < src.w)) && (dst.w == 0 || (0 <= dst.x && dst.x < dst.w))) \
  __CPROVER_loop_invariant(g_order_ok && g_hits == (g_target < g_n0 - MAX(n, 0) ? 1 : 0)) \
  __CPROVER_loop_invariant(IMPLIES(BOTH_2D_ALIGNED && n > 0, src.x == dst.x && src.w == dst.w)) \
  __CPROVER_decreases(n + 1)
#define PIXEL_LOOP_CONTRACT \
  __CPROVER_assigns(n, src, dst, g_hits, g_order_ok) \
  __CPROVER_loop_invariant(src.w == g_sw && dst.w == g_dw && -2 * NMAX <= src.idx && src.idx <= 2 * NMAX && -2 * NMAX <= dst.idx && dst.idx <= 2 * NMAX) \
  __CPROVER_loop_invariant(-1 <= n && n <= g_n0 && src.idx - g_src0 == g_n0 - MAX(n, 0) && dst.idx - g_dst0 == g_n0 - MAX(n, 0)) \
  __CPROVER_loop_invariant((0 <= src.x && src.x < src.w) && (0 <= dst.x && dst.x < dst.w)) \
  __CPROVER_loop_invariant(g_order_ok && g_hits == (g_target < g_n0 - MAX(n, 0) ? 1 : 0)) \
  __CPROVER_decreases(n + 1)
#define PRE(src, dst, n) (0 <= n && n <= NMAX && g_n0 == n && g_src0 == (src).idx && g_dst0 == (dst).idx && -NMAX <= (src).idx && (src).idx <= NMAX && -NMAX <= (dst).idx && (dst).idx <= NMAX && \
   0 <= g_target && g_hits == 0 && g_order_ok && (src).w <= NMAX && (dst).w <= NMAX && g_sw == (src).w && g_dw == (dst).w)
#define POST (g_order_ok && g_hits == (g_target < g_n0 ? 1 : 0))
#define BOTH_2D_ALIGNED 0
void copy_2d_raw(it_t src, diff_t n, it_t dst)
__CPROVER_requires(PRE(src, dst, n) && src.w > 0 && 0 <= src.x && src.x < src.w && dst.w == 0)
__CPROVER_assigns(g_hits, g_order_ok)
__CPROVER_ensures(POST)          /* every pixel g of [0, n) is copied exactly once, from source pixel g; nothing else is written */
@@copy_2d_raw@@
void copy_raw_2d(it_t src, diff_t n, it_t dst)
__CPROVER_requires(PRE(src, dst, n) && dst.w > 0 && 0 <= dst.x && dst.x < dst.w && src.w == 0)
__CPROVER_assigns(g_hits, g_order_ok)
__CPROVER_ensures(POST)
@@copy_raw_2d@@
#undef BOTH_2D_ALIGNED
#define BOTH_2D_ALIGNED 1
void copy_2d_2d(it_t src, diff_t n, it_t dst)
__CPROVER_requires(PRE(src, dst, n) && dst.w > 0 && 0 <= dst.x && dst.x < dst.w && src.w > 0 && 0 <= src.x && src.x < src.w)
__CPROVER_assigns(g_hits, g_order_ok)
__CPROVER_ensures(POST)
@@copy_2d_2d@@
#ifndef VERIF_NATIVE
#define H(name) void h_##name(void){ it_t s, d; diff_t n; g_hits = 0; g_order_ok = 1; name(s, n, d); __CPROVER_assert(0, "VACUITY"); }
H(copy_2d_raw) H(copy_raw_2d) H(copy_2d_2d)
#endif
'''
REPLAY = r'''
#include <boost/gil.hpp>
#include <vector>
#include "vreplay.hpp"
using namespace boost::gil;
int main(int argc, char** argv){ vr::parse(argc, argv); long bad = 0;
  for (int W = 1; W <= 6; W++) for (int H = 1; H <= 5; H++) for (int pad_s = 0; pad_s <= 2; pad_s++) for (int pad_d = 0; pad_d <= 2; pad_d++) {
    std::vector<unsigned char> sb((3 * W + pad_s) * H, 0), db((3 * W + pad_d) * H, 0xEE), ref;
    for (size_t i = 0; i < sb.size(); i++) sb[i] = (unsigned char)(i * 7 + 1);
    rgb8_view_t s = interleaved_view(W, H, (rgb8_pixel_t*)sb.data(), 3 * W + pad_s), d = interleaved_view(W, H, (rgb8_pixel_t*)db.data(), 3 * W + pad_d);
    ref = db; for (int y = 0; y < H; y++) for (int x = 0; x < W; x++) for (int c = 0; c < 3; c++) ref[(3 * W + pad_d) * y + 3 * x + c] = sb[(3 * W + pad_s) * y + 3 * x + c];
    copy_pixels(s, d); if (db != ref) bad++;
    // partial 1-D copies crossing row ends
    for (int a = 0; a < W * H; a += 2) for (int n = 0; a + n <= W * H; n += 3) { std::vector<unsigned char> d2((3 * W + pad_d) * H, 0xEE), r2 = d2; rgb8_view_t dv = interleaved_view(W, H, (rgb8_pixel_t*)d2.data(), 3 * W + pad_d);
      std::copy(s.begin() + a, s.begin() + a + n, dv.begin() + a);
      for (int i = a; i < a + n; i++) for (int c = 0; c < 3; c++) r2[(3 * W + pad_d) * (i / W) + 3 * (i % W) + c] = sb[(3 * W + pad_s) * (i / W) + 3 * (i % W) + c];
      if (d2 != r2) bad++; } }
  if (bad) REPRODUCED("%ld copies differ from the per-pixel loop or touched row padding", bad);
  NOT_REPRODUCED("copy_pixels / std::copy over 2-D iterators equal the per-pixel loop on padded views"); }
'''
UNITS = [Unit('copier', 'C04', C, extracts=X_ALL, replay=REPLAY,
              checks=[Check('copy_2d_raw', 'h_copy_2d_raw', enforce='copy_2d_raw', loops=True, object_bits=10, timeout=600),
                      Check('copy_raw_2d', 'h_copy_raw_2d', enforce='copy_raw_2d', loops=True, object_bits=10, timeout=600),
                      Check('copy_2d_2d', 'h_copy_2d_2d', enforce='copy_2d_2d', loops=True, object_bits=10, timeout=900)],
              preconditions=['n <= 2^40 pixels, row widths <= 2^40'],
              assumed=['iterator_from_2d += k follows the advance contract of C03', 'detail::copy_n on raw iterators copies k consecutive pixels (std::copy / memmove)',
                       'iterator_from_2d::x() is the raw x-iterator at the current position, valid up to the end of its row'])]
META = dict(not_covered=['fill_pixels / std::fill overload, equal_pixels (equal_n_fn, memcmp lengths), for_each_pixel, generate_pixels, transform_pixels, copy_and_convert_pixels: not built',
                         'the per-pixel assignment itself (C05) and the 1-D traversability dispatch (is_1d_traversable is under contract in C03)'])
