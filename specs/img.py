"""image<Pixel,IsPlanar,Alloc> — allocation arithmetic, representation invariant, ownership (shared by C01 and C10).

Functions under contract, cut from image.hpp / utilities.hpp on every run:
  align, image::is_planar_impl (selected overload), total_allocated_size_in_bytes, get_row_size_in_memunits,
  allocate_ (selected overload), create_view (selected overload), deallocate,
  allocate_and_default_construct / _fill / _copy (normal path), the constructors image(align,alloc), image(dims,align,alloc),
  image(dims,pixel,align,alloc), image(const image&), image(image&&), ~image, exchange_memory, move_assign (both tags),
  operator=(image&&), operator=(const image&), swap, the four recreate(point_t, ...) overloads.

Ghost model (DESIGN 3.6): addresses are integers; the allocator is a ghost table of three blocks {base,size,live,alloc};
allocate(n) returns a fresh non-overlapping address and records the block, deallocate(p,n) requires a live block with
exactly that base, that size and that allocator (else the obligation `deallocate ...` fails: double free / wrong size /
foreign pointer).  Pixel construction / destruction / fill / copy over a view are lowered to PIX_TOUCH(view), whose
precondition is the ACCESS LEMMA of C01: every pixel (all planes) of the view lies inside ONE live block.
Representation invariant INV(img): _memory == 0 and the image owns no block, or block(_memory) is live with size
_allocated_bytes and allocator _alloc; a non-empty view lies inside that block with the probe's pixel step and the
row size get_row_size_in_memunits(width) (rows aligned when alignment > 0).
Every operation is proved to preserve INV for all the images involved; every history-closing harness then runs the
destructors and proves that no block is left live and nothing was freed twice: leak-freedom over any history follows
by induction on the history.
"""
import re
from vclib.core import X, Check, Unit
from vclib import extract as ex

IM = 'image.hpp'
W_IM = r'class image\s*\{'
MEMBERS = ['_view', '_memory', '_align_in_bytes', '_alloc', '_allocated_bytes']


def lower_tmp_swap(body):
    """R13: `image tmp(args); swap(tmp);` -> constructor call, swap, destructor call at scope end"""
    n = 0

    def rep(m):
        nonlocal n
        n += 1
        a = ex.split_args(m.group(1))
        if a == ['img']:
            ctor = 'image_copy_ctor(&tmp, img)'
        elif len(a) == 2:
            ctor = 'image_ctor_dims(&tmp, %s, %s, self->_alloc_default)' % tuple(a)
        elif len(a) == 3 and a[1] == 'p_in':
            ctor = 'image_ctor_fill(&tmp, %s, %s, self->_alloc_default)' % (a[0], a[2])
        elif len(a) == 3:
            ctor = 'image_ctor_dims(&tmp, %s, %s, %s)' % tuple(a)
        elif len(a) == 4:
            ctor = 'image_ctor_fill(&tmp, %s, %s, %s)' % (a[0], a[2], a[3])
        else:
            raise ex.ExtractError('image tmp(...) with unexpected arguments: %s' % a)
        return 'img_t tmp; %s; image_swap(self, &tmp); image_dtor(&tmp);' % ctor
    body = re.sub(r'image tmp\(([^;]*)\);\s*swap\(tmp\);', rep, body)
    return body, n


def lower_view_ctor(body):
    """R12: `_view = view_t(dims, typename view_t::locator(typename view_t::x_iterator(tmp), ROW))` (interleaved) and
    `_view = view_t(dims, typename view_t::locator(first, ROW))` (planar) -> ghost view constructors"""
    n = 0
    pat1 = re.compile(r'_view\s*=\s*view_t\(\s*(\w+)\s*,\s*typename view_t::locator\(\s*typename view_t::x_iterator\(\s*tmp\s*\)\s*,\s*(.*?)\)\s*\)\s*;', re.S)
    body, k = pat1.subn(r'self->_view = VIEW_FROM_BASE(\1, tmp, \2);', body)
    n += k
    pat2 = re.compile(r'_view\s*=\s*view_t\(\s*(\w+)\s*,\s*typename view_t::locator\(\s*first\s*,\s*(\w+)\s*\)\s*\)\s*;', re.S)
    body, k = pat2.subn(r'self->_view = VIEW_FROM_PLANES(\1, &first, \2);', body)
    n += k
    return body, n


R_IM = [
    ('R14.try', r'try\s*\{(.*?)\}\s*catch\s*\(\.\.\.\)\s*\{[^}]*\}', r'{\1}', False),        # normal path only (DESIGN R14)
    ('R13.tmp_swap', lower_tmp_swap, None, False),
    ('R12.view_ctor', lower_view_ctor, None, False),
    ('R8.max_align', r'alignof\(std::max_align_t\)', 'MAX_ALIGN_T_ALIGN', False),
    ('R8.drop_using_xit', r'using x_iterator = typename view_t::x_iterator;', '', False),
    ('R8.channels', r'constexpr std::size_t _channels_in_image =\s*std::conditional\s*<.*?>::type::value;', 'const size_t _channels_in_image = NUM_CHANNELS;', False),
    ('R8.access_slack', r'detail::access_slack_in_bytes<x_iterator>::value', 'ACCESS_SLACK_IMPL', False),
    ('R8.b2m', r'byte_to_memunit<\s*(?:typename view_t::)?x_iterator\s*>::value', 'BYTE_TO_MEMUNIT', False),
    ('R8.step', r'memunit_step\(typename view_t::x_iterator\(\)\)', 'PIXEL_STEP', False),
    ('R8.nc', r'num_channels<view_t>::value', 'NUM_CHANNELS', False),
    ('R8.planar_tag', r',\s*(?:typename\s+)?std::integral_constant<bool,\s*IsPlanar>\(\)', '', False),
    ('R11.alloc', r'_alloc\.allocate\(', 'ALLOC_allocate(self->_alloc, ', False),
    ('R11.dealloc', r'_alloc\.deallocate\(', 'ALLOC_deallocate(self->_alloc, ', False),
    ('R4.tmp_decl', r'unsigned char\*\s*tmp', 'addr_t tmp', False),
    ('R4.tmp_cast', r'\(\s*unsigned char\*\s*\)\s*align', '(addr_t)align', False),
    ('R11.first_decl', r'typename view_t::x_iterator first;', 'planes_t first;', False),
    ('R11.first_set', r'dynamic_at_c\(first, i\) = \(typename channel_type<view_t>::type\*\)tmp;', 'first.p[i] = tmp * BYTE_TO_MEMUNIT;', False),
    ('R11.first_adv', r'memunit_advance\(dynamic_at_c\(first, i\),', 'first.p[i] += (', False),
    ('R11.pix_destruct', r'\bdestruct_pixels\(', 'PIX_TOUCH_IF_OWNED(self, ', False),
    ('R11.pix_construct', r'\bdefault_construct_pixels\(', 'PIX_TOUCH(', False),
    ('R11.pix_fill', r'\buninitialized_fill_pixels\(([^,;]+),\s*p_in\)', r'PIX_TOUCH(\1)', False),
    ('R11.pix_copy', r'\buninitialized_copy_pixels\(v,\s*([^;]+?)\)', r'PIX_TOUCH(\1)', False),
    ('R11.copy_pixels', r'\bcopy_pixels\(img\._view,_view\)', 'PIX_TOUCH(self->_view)', False),
    ('R11.dims_self', r'(?<![\w.>])dimensions\(\)', 'view_dimensions(&self->_view)', False),
    ('R11.dims_img', r'\bimg\.dimensions\(\)', 'view_dimensions(&img->_view)', False),
    ('R11.dims_view', r'_view\.dimensions\(\)', 'view_dimensions(&self->_view)', False),
    ('R11.img_field', r'\bimg\.(_\w+)', r'img->\1', False),
    ('R11.lhs_field', r'\blhs\.(_\w+)', r'lhs->\1', False), ('R11.rhs_field', r'\brhs\.(_\w+)', r'rhs->\1', False),
    ('R11.view_w', r'_view\.width\(\)', 'self->_view.w', False), ('R11.view_h', r'_view\.height\(\)', 'self->_view.h', False),
    ('R14.assert', r'BOOST_ASSERT\(', 'PRECONDITION(', False),
    ('R11.this_call', r'this->(deallocate|allocate_and_copy)\(', r'\1(', False),
    ('R11.img_dealloc', r'\bimg->deallocate\(\)|\bimg\.deallocate\(\)', 'DEALLOCATE_IMG__', False),
    ('R11.this_view', r'this->_view', 'self->_view', False), ('R11.this_alloc', r'this->_alloc', 'self->_alloc', False),
    ('R11.pt_eq1', r'dims == view_dimensions\(&self->_view\)', 'POINT_EQ(dims, view_dimensions(&self->_view))', False),
    ('R11.pt_eq2', r'view_dimensions\(&self->_view\) == view_dimensions\(&img->_view\)', 'POINT_EQ(view_dimensions(&self->_view), view_dimensions(&img->_view))', False),
    ('R11.view_default', r'(?:image::)?view_t\s*\{\}|(?:image::)?view_t\(\)', 'VIEW_DEFAULT()', False),
    ('R11.exchange', r'(\S+) = boost::exchange\(([^,]+), ([^;]+)\);', r'\1 = \2; \2 = \3;', False),
    ('R4.nullptr', r'\bnullptr\b', '0', False),
    ('R5.move', r'std::move\(', '(', False),
    ('R5.using_swap', r'using std::swap;', '', False),
    ('R11.swap', r'(?<![\w_])swap\(([^;]+?),\s+([^;]+?)\);', r'SWAP(\1, \2);', False),
    ('R2.ret_this', r'return \*this;', 'return;', False),
    ('R11.calls', r'(?<![\w.>])(total_allocated_size_in_bytes|get_row_size_in_memunits|allocate_|create_view|allocate_and_default_construct|allocate_and_fill|allocate_and_copy|deallocate|exchange_memory|move_assign_propagate|move_assign_no_propagate|is_planar_impl)\(', r'\1(self, ', False),
    ('R11.img_dealloc2', r'DEALLOCATE_IMG__', 'deallocate(img)', False),
    ('R11.calls_noargs', r'\(self, \)', '(self)', False),
    ('R11.exchange_args', r'exchange_memory\(self, \*this, img\)', 'exchange_memory(self, img)', False),
    ('R11.addressof', r'this != std::addressof\(img\)|this != addressof\(img\)', 'self != img', False),
]


def xi(ident, anchor, **kw):
    kw.setdefault('within', W_IM)
    kw.setdefault('count', 1)
    return X(ident, IM, anchor, rules=kw.pop('rules', []) + R_IM, members=MEMBERS, **kw)


KNOWN_MEMBERS = {'dimensions', 'width', 'height', 'get_allocator', 'allocator', 'deallocate'}


def discover_helpers():
    """Zero-argument const member functions of class image returning a byte pointer or a size (a refactoring that hoists an expression
    into a private helper): each is cut like every other body and called with `self`.  Known one-line accessors are skipped."""
    from vclib import extract as ex
    try:
        text = ex.read_header('boost/gil/' + IM)
        body, _, _ = ex.find_body(text, W_IM)
    except Exception:
        return []
    out = []
    for m in re.finditer(r'\b(unsigned char\s*\*|std::size_t|std::ptrdiff_t)\s+(\w+)\(\)\s*const\s*\{', ex.strip_comments(body)):
        name = m.group(2)
        if name in KNOWN_MEMBERS or any(h[0] == name for h in out):
            continue
        out.append((name, 'addr_t' if 'char' in m.group(1) else ('size_t' if 'size_t' in m.group(1) else 'ptrdiff_t'), m.group(1)))
    return out


R_HELPER = [('R8.chan_alias', r'using channel_t = typename channel_type<view_t>::type;', '', False), ('R8.chan_align', r'alignof\(channel_t\)', 'CHANNEL_ALIGN', False),
            ('R8.chan_size', r'sizeof\(channel_t\)', 'CHANNEL_SIZE', False), ('R4.ret_cast', r'return \(\s*unsigned char\s*\*\s*\)', 'return (addr_t)', False)]


HELPERS = discover_helpers()
if HELPERS:
    R_IM.append(('R11.helper_calls', r'(?<![\w.>])(%s)\(\)' % '|'.join(h[0] for h in HELPERS), r'\1(self)', False))


def helper_defs():
    return ''.join('%s %s(const img_t* self) @@helper_%s@@\n' % (h[1], h[0], h[0]) for h in HELPERS)


def extracts(planar):
    tag = 'true_type' if planar else 'false_type'
    ipl = (r'std::size_t is_planar_impl\(\s*std::size_t const size_in_units,\s*std::size_t const channels_in_image,\s*std::true_type\) const\s*\{' if planar else
           r'std::size_t is_planar_impl\(\s*std::size_t const size_in_units,\s*std::size_t const,\s*std::false_type\) const\s*\{')
    return [
        X('align', 'utilities.hpp', r'inline T align\(T val, std::size_t alignment\)\s*\{', count=1),
        xi('is_planar_impl', ipl),
        xi('total_allocated_size_in_bytes', r'std::size_t total_allocated_size_in_bytes\(point_t const& dimensions\) const\s*\{'),
        xi('get_row_size_in_memunits', r'std::size_t get_row_size_in_memunits\(x_coord_t width\) const \{'),
        xi('allocate_', r'void allocate_\(point_t const& dimensions, std::%s\)\s*\{' % tag),
        xi('create_view', r'void create_view\(point_t const& dims, std::%s\)[^{]*\{' % tag),
        xi('deallocate', r'void deallocate\(\)\s*\{'),
        xi('allocate_and_default_construct', r'void allocate_and_default_construct\(point_t const& dimensions\)\s*\{'),
        xi('allocate_and_fill', r'void allocate_and_fill\(point_t const& dimensions, Pixel const& p_in\)\s*\{'),
        xi('allocate_and_copy', r'void allocate_and_copy\(point_t const& dimensions, View const& v\)\s*\{'),
        xi('image_ctor_default', r'explicit image\(std::size_t alignment=0,\s*const Alloc alloc_in = Alloc\(\)\) :', meminit=True),
        xi('image_ctor_dims', r'image\(point_t const& dimensions,\s*std::size_t alignment=0,\s*const Alloc alloc_in = Alloc\(\)\) :', meminit=True),
        xi('image_ctor_fill', r'image\(point_t const& dimensions,\s*const Pixel& p_in,\s*std::size_t alignment = 0,\s*const Alloc alloc_in = Alloc\(\)\)\s*:', meminit=True),
        xi('image_copy_ctor', r'image\(const image& img\) :', meminit=True),
        xi('image_move_ctor', r'image\(image&& img\) :', meminit=True),
        xi('image_dtor', r'~image\(\)\s*\{'),
        xi('exchange_memory', r'static void exchange_memory\(image& lhs, image& rhs\)\s*\{'),
        xi('move_assign_propagate', r'void move_assign\(image& img, propagate_allocators\) noexcept \{'),
        xi('move_assign_no_propagate', r'void move_assign\(image& img, no_propagate_allocators\) \{'),
        xi('image_swap', r'void swap\(image& img\)[^{]*\{'),
        xi('copy_assign', r'image& operator=\(const image& img\)\s*\{'),
        xi('recreate', r'void recreate\(point_t const& dims, std::size_t alignment = 0\)\s*\{'),
        xi('recreate_fill', r'void recreate\(point_t const& dims, const Pixel& p_in, std::size_t alignment = 0\)\s*\{'),
        xi('recreate_alloc', r'void recreate\(point_t const& dims, std::size_t alignment, const Alloc alloc_in\)\s*\{'),
        xi('recreate_fill_alloc', r'void recreate\(point_t const& dims, const Pixel& p_in, std::size_t alignment, const Alloc alloc_in\)\s*\{'),
    ] + [xi('helper_' + h[0], re.escape(h[2]).replace(r'\ ', r'\s*') + r'\s+' + h[0] + r'\(\)\s*const\s*\{', rules=R_HELPER) for h in HELPERS]


C = r'''
typedef ptrdiff_t x_coord_t; typedef ptrdiff_t y_coord_t; typedef size_t T; typedef int64_t addr_t; typedef int Alloc; typedef int Pixel;
typedef struct { int64_t p[5]; } planes_t;                                     /* ghost: address (memory units) of pixel (0,0) in each plane */
typedef struct { ptrdiff_t w, h; int64_t sx, sy; planes_t pl; int64_t glo, ghi; } gview_t;   /* ghost view: dims, pixel step, row step (memory units), plane origins,
   and the memory-unit interval [glo, ghi) that its pixel accesses span (computed where the view is constructed) */
typedef struct { gview_t _view; addr_t _memory; size_t _align_in_bytes; Alloc _alloc; size_t _allocated_bytes; Alloc _alloc_default; } img_t;
#define PLANES (IS_PLANAR ? NUM_CHANNELS : 1)
#define POINT_EQ(a, b) ((a).x == (b).x && (a).y == (b).y)
#define PRECONDITION(c) __CPROVER_assert(c, "BOOST_ASSERT precondition of the library")
#define SWAP(a, b) do { __typeof__(a) t__ = (a); (a) = (b); (b) = t__; } while (0)
#ifdef SMALL_CEX     /* small-window re-run used only to find a replayable counterexample after an obligation failed */
#define DIMMAX ((ptrdiff_t)12)
#define ALIGNMAX ((size_t)16)
#define ADDRMAX ((int64_t)1 << 16)
#else
#define DIMMAX ((ptrdiff_t)1 << 20)
#define ALIGNMAX ((size_t)1 << 12)
#define ADDRMAX ((int64_t)1 << 47)
#endif
/* ---------------- ghost allocator: three blocks ---------------- */
typedef struct { addr_t base; size_t size; int live; Alloc alloc; } gblock_t;
gblock_t g_b0, g_b1, g_b2; int g_alloc_calls;
#define DISJOINT(a, n, b) (!(b).live || (a) + (int64_t)(n) <= (b).base || (b).base + (int64_t)(b).size <= (a))
addr_t ALLOC_allocate(Alloc al, size_t n) {
  addr_t a; __CPROVER_assume(4096 <= a && a <= ADDRMAX && n <= (size_t)ADDRMAX);
  __CPROVER_assume(DISJOINT(a, n, g_b0) && DISJOINT(a, n, g_b1) && DISJOINT(a, n, g_b2));
  __CPROVER_assert(n > 0, "allocate: size is positive");
  if (!g_b0.live) { g_b0.base = a; g_b0.size = n; g_b0.live = 1; g_b0.alloc = al; }
  else if (!g_b1.live) { g_b1.base = a; g_b1.size = n; g_b1.live = 1; g_b1.alloc = al; }
  else if (!g_b2.live) { g_b2.base = a; g_b2.size = n; g_b2.live = 1; g_b2.alloc = al; }
  else { __CPROVER_assert(0, "ghost allocator: more than three live blocks in one operation (model limit)"); }
  return a; }
void ALLOC_deallocate(Alloc al, addr_t p, size_t n) {
  if (g_b0.live && g_b0.base == p) { __CPROVER_assert(g_b0.size == n && g_b0.alloc == al, "deallocate: same size and same allocator as the allocation"); g_b0.live = 0; }
  else if (g_b1.live && g_b1.base == p) { __CPROVER_assert(g_b1.size == n && g_b1.alloc == al, "deallocate: same size and same allocator as the allocation"); g_b1.live = 0; }
  else if (g_b2.live && g_b2.base == p) { __CPROVER_assert(g_b2.size == n && g_b2.alloc == al, "deallocate: same size and same allocator as the allocation"); g_b2.live = 0; }
  else { __CPROVER_assert(0, "deallocate: the pointer is a live block (no double free, no foreign pointer)"); } }
#define FRESH_WORLD() do { g_b0.live = 0; g_b1.live = 0; g_b2.live = 0; } while (0)
#define NO_LIVE_BLOCKS() (!g_b0.live && !g_b1.live && !g_b2.live)
/* view constructors (image_view(dims, locator(x_iterator(tmp), row))) */
/* the last memory unit touched by an access to pixel (w-1, h-1) of the plane that starts at p0: one access spans ACCESS_SPAN units */
#if BIT_ALIGNED
/* bit-aligned pixels (memory unit = bit): the accessor of a channel loads / stores BITFIELD_BYTES whole bytes starting at the byte that holds the
   channel's first bit; the last channel of the last pixel starts no later than its last bit */
#define EXTENT_END(p0, d, row) (8 * (((p0) + ((d).y - 1) * (int64_t)(row) + ((d).x - 1) * (int64_t)PIXEL_STEP + PIXEL_STEP - 1) / 8) + 8 * (int64_t)BITFIELD_BYTES)
#else
#define EXTENT_END(p0, d, row) ((p0) + ((d).y - 1) * (int64_t)(row) + ((d).x - 1) * (int64_t)PIXEL_STEP + ACCESS_SPAN)
#endif
static gview_t VIEW_FROM_BASE(point_t d, addr_t tmp, size_t row) { gview_t v; v.w = d.x; v.h = d.y; v.sx = PIXEL_STEP; v.sy = (int64_t)row;
  v.pl.p[0] = tmp * BYTE_TO_MEMUNIT; v.pl.p[1] = 0; v.pl.p[2] = 0; v.pl.p[3] = 0; v.pl.p[4] = 0;
  v.glo = v.pl.p[0]; v.ghi = EXTENT_END(v.pl.p[0], d, row); return v; }
static gview_t VIEW_FROM_PLANES(point_t d, const planes_t* first, size_t row) { gview_t v; v.w = d.x; v.h = d.y; v.sx = PIXEL_STEP; v.sy = (int64_t)row; v.pl = *first;
  /* planes are laid out at non-decreasing addresses (p[i] = p[0] + plane_size*i): checked, so [first plane start, last plane end) covers them all */
  __CPROVER_assert(first->p[0] <= first->p[NUM_CHANNELS - 1], "planar layout: plane origins are non-decreasing");
  v.glo = first->p[0]; v.ghi = EXTENT_END(first->p[NUM_CHANNELS - 1], d, row); return v; }
static gview_t VIEW_DEFAULT(void) { gview_t v; v.w = 0; v.h = 0; v.sx = 0; v.sy = 0; v.pl.p[0] = 0; v.pl.p[1] = 0; v.pl.p[2] = 0; v.pl.p[3] = 0; v.pl.p[4] = 0; v.glo = 0; v.ghi = 0; return v; }
static point_t view_dimensions(const gview_t* v) { point_t p; p.x = v->w; p.y = v->h; return p; }
/* ---------------- specification vocabulary ---------------- */
/* the memory-unit interval [lo, hi) spanned by plane k of a non-empty view; one pixel occupies PIXEL_SPAN units
   (= PIXEL_STEP, or 8*sizeof(BitField) for bit-aligned pixels, whose channel accessors copy sizeof(BitField) bytes) */
#define BLOCK_LO(b) ((b).base * BYTE_TO_MEMUNIT)
#define BLOCK_HI(b) (((b).base + (int64_t)(b).size) * BYTE_TO_MEMUNIT)
#define VIEW_IN(v, b) ((b).live && BLOCK_LO(b) <= (v).glo && (v).ghi <= BLOCK_HI(b))
#define VIEW_EMPTY(v) ((v).w <= 0 || (v).h <= 0)
#define VIEW_IN_LIVE_BLOCK(v) (VIEW_EMPTY(v) || VIEW_IN(v, g_b0) || VIEW_IN(v, g_b1) || VIEW_IN(v, g_b2))
/* C01 access lemma as the precondition of every pixel operation (construct / destruct / fill / copy over a view) */
#define PIX_TOUCH(v) __CPROVER_assert(VIEW_IN_LIVE_BLOCK(v), "ACCESS: every pixel of the view (all planes, full access span) lies inside one live block of the allocator")
#define PIX_TOUCH_IF_OWNED(self, v) PIX_TOUCH(v)
#define OWNS(img, b) ((b).live && (b).base == (img)._memory && (b).size == (img)._allocated_bytes && (b).alloc == (img)._alloc)
#define ROWS_ALIGNED(img) ((img)._align_in_bytes == 0 || ((img)._view.glo % (int64_t)((img)._align_in_bytes * BYTE_TO_MEMUNIT) == 0 && (img)._view.sy % (int64_t)((img)._align_in_bytes * BYTE_TO_MEMUNIT) == 0))
#define GEOM(img) ((img)._view.w >= 0 && (img)._view.h >= 0 && (img)._view.w <= DIMMAX && (img)._view.h <= DIMMAX && (img)._align_in_bytes <= ALIGNMAX && \
                   (VIEW_EMPTY((img)._view) || ((img)._view.sx == PIXEL_STEP && (img)._view.sy >= (img)._view.w * PIXEL_STEP && (img)._view.sy <= (img)._view.w * PIXEL_STEP + (int64_t)ALIGNMAX * BYTE_TO_MEMUNIT && ROWS_ALIGNED(img))))
/* INV with the image's block named explicitly (b) */
#define INV(img, b) (GEOM(img) && ((img)._memory == 0 ? (!(b).live && VIEW_EMPTY((img)._view) && (img)._allocated_bytes == 0) : (OWNS(img, b) && (img)._memory >= 4096 && (VIEW_EMPTY((img)._view) || VIEW_IN((img)._view, b)))))

#define HOLDS(img, b) (OWNS(img, b) && (VIEW_EMPTY((img)._view) || VIEW_IN((img)._view, b)))
/* invariant without naming the slot: empty and owning nothing, or owning exactly the live block whose base is _memory */
#define EITHER_BLOCK_INV(img) (GEOM(img) && ((img)._memory == 0 ? (VIEW_EMPTY((img)._view) && (img)._allocated_bytes == 0) : ((img)._memory >= 4096 && (HOLDS(img, g_b0) || HOLDS(img, g_b1) || HOLDS(img, g_b2)))))

T align(T val, size_t alignment) @@align@@
size_t is_planar_impl(const img_t* self, size_t const size_in_units, size_t const channels_in_image) @@is_planar_impl@@
size_t get_row_size_in_memunits(const img_t* self, x_coord_t width) @@get_row_size_in_memunits@@
/* ---- layout contract (C01 O4/O5): ghost (g_dims, g_align, g_total) name ONE layout question per harness ---- */
point_t g_dims; size_t g_align; size_t g_total;
#define LAYOUT_ARGS_OK(self, d) (POINT_EQ(d, g_dims) && (self)->_align_in_bytes == g_align)
/* what create_view / allocate_ guarantee about the view they build over a block of at least g_total bytes at address mem */
#define LAYOUT_POST(v, mem) ((v).w == g_dims.x && (v).h == g_dims.y && (g_total != 0 || VIEW_EMPTY(v)) && (VIEW_EMPTY(v) || ((v).sx == PIXEL_STEP && (v).sy >= (v).w * PIXEL_STEP && (v).sy <= (v).w * PIXEL_STEP + (int64_t)ALIGNMAX * BYTE_TO_MEMUNIT && \
   (mem) * BYTE_TO_MEMUNIT <= (v).glo && (v).ghi <= ((mem) + (int64_t)g_total) * BYTE_TO_MEMUNIT && \
   (g_align == 0 || ((v).glo % (int64_t)(g_align * BYTE_TO_MEMUNIT) == 0 && (v).sy % (int64_t)(g_align * BYTE_TO_MEMUNIT) == 0)))))
#if defined(ZSTUB_LAYOUT) && !defined(SMALL_CEX)
/* callers are checked against the CONTRACTS of total_allocated_size_in_bytes / create_view / allocate_ (proved on the real bodies by the layout_* checks) */
size_t total_allocated_size_in_bytes(const img_t* self, point_t dimensions) {
  __CPROVER_assert(LAYOUT_ARGS_OK(self, dimensions), "layout contract used for the dimensions / alignment the harness fixed");
  return g_total; }
void create_view(img_t* self, point_t dims) {
  __CPROVER_assert(LAYOUT_ARGS_OK(self, dims), "layout contract used for the dimensions / alignment the harness fixed");
  __CPROVER_assert(self->_memory == 0 ? g_total == 0 : self->_allocated_bytes >= g_total, "create_view.requires: the block the image owns is at least total_allocated_size_in_bytes(dims) for the CURRENT alignment");
  gview_t v; __CPROVER_assume(LAYOUT_POST(v, self->_memory)); self->_view = v; }
void allocate_(img_t* self, point_t dimensions) {
  __CPROVER_assert(LAYOUT_ARGS_OK(self, dimensions), "layout contract used for the dimensions / alignment the harness fixed");
  self->_allocated_bytes = g_total;
  if (self->_allocated_bytes == 0) return;
  self->_memory = ALLOC_allocate(self->_alloc, self->_allocated_bytes);
  gview_t v; __CPROVER_assume(LAYOUT_POST(v, self->_memory)); self->_view = v; }
#else
size_t total_allocated_size_in_bytes(const img_t* self, point_t dimensions) @@total_allocated_size_in_bytes@@
@@HELPER_DEFS@@
void allocate_(img_t* self, point_t dimensions) @@allocate_@@
void create_view(img_t* self, point_t dims) @@create_view@@
#endif
void deallocate(img_t* self) @@deallocate@@
void allocate_and_default_construct(img_t* self, point_t dimensions) @@allocate_and_default_construct@@
void allocate_and_fill(img_t* self, point_t dimensions, Pixel p_in) @@allocate_and_fill@@
void allocate_and_copy(img_t* self, point_t dimensions, gview_t v) @@allocate_and_copy@@
void image_ctor_default(img_t* self, size_t alignment, Alloc alloc_in) { self->_view = VIEW_DEFAULT();   /* member not in the mem-initialiser list: default-constructed */ @@image_ctor_default@@ }
void image_ctor_dims(img_t* self, point_t dimensions, size_t alignment, Alloc alloc_in) { self->_view = VIEW_DEFAULT();   /* member not in the mem-initialiser list: default-constructed */ @@image_ctor_dims@@ }
void image_ctor_fill(img_t* self, point_t dimensions, size_t alignment, Alloc alloc_in) { Pixel p_in = 0; self->_view = VIEW_DEFAULT(); @@image_ctor_fill@@ }
void image_copy_ctor(img_t* self, const img_t* img) { self->_view = VIEW_DEFAULT();   /* member not in the mem-initialiser list: default-constructed */ @@image_copy_ctor@@ }
void image_move_ctor(img_t* self, img_t* img) { self->_view = VIEW_DEFAULT();   /* member not in the mem-initialiser list: default-constructed */ @@image_move_ctor@@ }
void image_dtor(img_t* self) @@image_dtor@@
void exchange_memory(img_t* lhs, img_t* rhs) @@exchange_memory@@
void move_assign_propagate(img_t* self, img_t* img) @@move_assign_propagate@@
void move_assign_no_propagate(img_t* self, img_t* img) @@move_assign_no_propagate@@
void image_swap(img_t* self, img_t* img) @@image_swap@@
void copy_assign(img_t* self, const img_t* img) @@copy_assign@@
void recreate(img_t* self, point_t dims, size_t alignment) @@recreate@@
void recreate_fill(img_t* self, point_t dims, size_t alignment) { Pixel p_in = 0; @@recreate_fill@@ }
void recreate_alloc(img_t* self, point_t dims, size_t alignment, Alloc alloc_in) @@recreate_alloc@@
void recreate_fill_alloc(img_t* self, point_t dims, size_t alignment, Alloc alloc_in) { Pixel p_in = 0; @@recreate_fill_alloc@@ }

#ifndef VERIF_NATIVE
#define DIMS_AS(v, d) (((v).w == (d).x && (v).h == (d).y) || (VIEW_EMPTY(v) && ((d).x == 0 || (d).y == 0)))
#define DIMS_OK(d) (0 <= (d).x && (d).x <= DIMMAX && 0 <= (d).y && (d).y <= DIMMAX)
/* fix the layout question of this harness: g_total stands for total_allocated_size_in_bytes(dims) under alignment al (any value the
   real function can return; its relation to the view extent is the layout contract) */
#ifdef SMALL_CEX
#define LAYOUT_FOR(d, al) do { g_dims = (d); g_align = (al); img_t t__; t__._align_in_bytes = (al); g_total = total_allocated_size_in_bytes(&t__, (d)); \
   img_t u__; u__._align_in_bytes = a._align_in_bytes; __CPROVER_assume(a._memory == 0 || a._allocated_bytes == total_allocated_size_in_bytes(&u__, view_dimensions(&a._view))); } while (0)
#else
#define LAYOUT_FOR(d, al) do { g_dims = (d); g_align = (al); size_t t__; __CPROVER_assume(t__ <= (size_t)ADDRMAX && (t__ != 0 || (d).x == 0 || (d).y == 0)); g_total = t__; } while (0)
#endif
/* ---------------- allocation arithmetic (C01 O1-O3) ---------------- */
void hz_align(void){ size_t v, a; __CPROVER_assume(v <= ((size_t)1 << 60) && 1 <= a && a <= ((size_t)1 << 30));
  size_t r = align(v, a);
  __CPROVER_assert(r >= v && r < v + a, "align.ensures: v <= r < v + alignment");
  __CPROVER_assert(r % a == 0, "align.ensures: r is a multiple of the alignment");
  __CPROVER_assert(0, "VACUITY"); }
void hz_row_size(void){ img_t s; ptrdiff_t w; __CPROVER_assume(0 <= w && w <= DIMMAX && s._align_in_bytes <= ALIGNMAX);
  size_t r = get_row_size_in_memunits(&s, w);
  __CPROVER_assert(r >= (size_t)w * PIXEL_STEP, "row_size.ensures: a row holds width pixels");
  __CPROVER_assert(r < (size_t)w * PIXEL_STEP + (s._align_in_bytes > 0 ? s._align_in_bytes * BYTE_TO_MEMUNIT : 1), "row_size.ensures: padding smaller than the alignment");
  __CPROVER_assert(s._align_in_bytes == 0 || r % (s._align_in_bytes * BYTE_TO_MEMUNIT) == 0, "row_size.ensures: rows are a multiple of the alignment");
  __CPROVER_assert(0, "VACUITY"); }
void hz_total_size(void){ img_t s; point_t d; __CPROVER_assume(DIMS_OK(d) && s._align_in_bytes <= ALIGNMAX);
  size_t t = total_allocated_size_in_bytes(&s, d);
  size_t row = get_row_size_in_memunits(&s, d.x);
  __CPROVER_assert(t * BYTE_TO_MEMUNIT >= row * (size_t)d.y * PLANES + (s._align_in_bytes > 0 ? (s._align_in_bytes - 1) * BYTE_TO_MEMUNIT : 0) + ACCESS_SLACK_BYTES * BYTE_TO_MEMUNIT,
                   "total_size.ensures: room for all rows of all planes plus the slack needed to align the first pixel (and, for bit-aligned pixels, for the bit field the last channel accessors load)");
  __CPROVER_assert(t * BYTE_TO_MEMUNIT < row * (size_t)d.y * PLANES + (s._align_in_bytes > 0 ? (s._align_in_bytes - 1) * BYTE_TO_MEMUNIT : 0) + ACCESS_SLACK_BYTES * BYTE_TO_MEMUNIT + BYTE_TO_MEMUNIT,
                   "total_size.ensures: and not a byte more (rounded up to whole bytes)");
  __CPROVER_assert(0, "VACUITY"); }
/* ---------------- layout contract proved on the real bodies of total_allocated_size_in_bytes / create_view / allocate_ ---------------- */
/* the general statement (symbolic alignment: `%` by a symbolic divisor) is discharged in the thorough tier; the quick tier proves
   one cell per alignment value of a stated finite list (unbounded w, h and address in every cell) */
#ifdef ALIGN_CASE
#define ALIGN_PARTITION(a) __CPROVER_assume((a) == ALIGN_CASE)
#else
#define ALIGN_PARTITION(a)
#endif
#if !defined(ZSTUB_LAYOUT) || defined(SMALL_CEX)
void hz_layout_create_view(void){ FRESH_WORLD(); img_t s; point_t d; __CPROVER_assume(DIMS_OK(d) && s._align_in_bytes <= ALIGNMAX && 4096 <= s._memory && s._memory <= ADDRMAX);
  ALIGN_PARTITION(s._align_in_bytes);
  g_dims = d; g_align = s._align_in_bytes; g_total = total_allocated_size_in_bytes(&s, d);
  __CPROVER_assume(s._allocated_bytes >= g_total && s._allocated_bytes <= (size_t)ADDRMAX);
  create_view(&s, d);
  __CPROVER_assert(LAYOUT_POST(s._view, s._memory), "create_view.ensures: requested dims, pixel/row steps, every pixel access inside [memory, memory + total) and rows aligned");
  __CPROVER_assert(g_total != 0 || VIEW_EMPTY(s._view), "total == 0 only for an empty image");
  __CPROVER_assert(0, "VACUITY"); }
void hz_layout_allocate(void){ FRESH_WORLD(); img_t s; point_t d; __CPROVER_assume(DIMS_OK(d) && s._align_in_bytes <= ALIGNMAX); s._memory = 0; s._view = VIEW_DEFAULT();
  ALIGN_PARTITION(s._align_in_bytes);
  g_dims = d; g_align = s._align_in_bytes; g_total = total_allocated_size_in_bytes(&s, d);
  allocate_(&s, d);
  __CPROVER_assert(s._allocated_bytes == g_total, "allocate_.ensures: records exactly the size it asked the allocator for");
  __CPROVER_assert(g_total == 0 ? (s._memory == 0 && !g_b0.live) : (g_b0.live && g_b0.base == s._memory && g_b0.size == g_total && LAYOUT_POST(s._view, s._memory)), "allocate_.ensures: one block of total bytes, view laid out inside it");
  __CPROVER_assert(0, "VACUITY"); }
#endif
/* ---------------- constructors establish INV; destructor closes the history ---------------- */
void hz_ctor_dims(void){ FRESH_WORLD(); img_t a; point_t d; size_t al; Alloc A; __CPROVER_assume(DIMS_OK(d) && al <= ALIGNMAX); LAYOUT_FOR(d, al);
  image_ctor_dims(&a, d, al, A);
  __CPROVER_assert(EITHER_BLOCK_INV(a), "image(dims, alignment).ensures: representation invariant (owns exactly its block; every pixel inside it)");
  __CPROVER_assert(DIMS_AS(a._view, d), "image(dims).ensures: requested dimensions (an image that allocates nothing keeps the default 0x0 view)");
  __CPROVER_assert(VIEW_EMPTY(a._view) || (a._align_in_bytes == al && ROWS_ALIGNED(a)), "image(dims, alignment).ensures: first pixel and every row aligned");
  image_dtor(&a);
  __CPROVER_assert(NO_LIVE_BLOCKS(), "~image: every byte allocated is deallocated exactly once (no block left live)");
  __CPROVER_assert(0, "VACUITY"); }
void hz_ctor_fill(void){ FRESH_WORLD(); img_t a; point_t d; size_t al; Alloc A; __CPROVER_assume(DIMS_OK(d) && al <= ALIGNMAX); LAYOUT_FOR(d, al);
  image_ctor_fill(&a, d, al, A);
  __CPROVER_assert(EITHER_BLOCK_INV(a) && DIMS_AS(a._view, d), "image(dims, pixel, alignment).ensures: representation invariant and dimensions");
  image_dtor(&a); __CPROVER_assert(NO_LIVE_BLOCKS(), "~image: no block left live");
  __CPROVER_assert(0, "VACUITY"); }
void hz_ctor_default(void){ FRESH_WORLD(); img_t a; size_t al; Alloc A; __CPROVER_assume(al <= ALIGNMAX);
  image_ctor_default(&a, al, A); a._view = VIEW_DEFAULT();
  __CPROVER_assert(EITHER_BLOCK_INV(a), "image().ensures: the empty image satisfies the invariant");
  image_dtor(&a); __CPROVER_assert(NO_LIVE_BLOCKS(), "~image of an empty image deallocates nothing");
  __CPROVER_assert(0, "VACUITY"); }
/* world with one arbitrary image a (block g_b0) and one arbitrary image b (block g_b1) satisfying INV */
#define WORLD2() gblock_t n0__, n1__; g_b0 = n0__; g_b1 = n1__; g_b2.live = 0; __CPROVER_assume((g_b0.live == 0 || g_b0.live == 1) && (g_b1.live == 0 || g_b1.live == 1)); \
  img_t a, b; __CPROVER_assume(INV(a, g_b0)); __CPROVER_assume(INV(b, g_b1)); \
  __CPROVER_assert(!(a._memory != 0 && b._memory != 0 && a._view.w > 1 && b._view.h > 1 && a._alloc != b._alloc), "VACUITY: two non-empty images with different allocators are a reachable start state"); \
  __CPROVER_assume(!g_b0.live || !g_b1.live || (DISJOINT(g_b0.base, g_b0.size, g_b1))); \
  __CPROVER_assume((!g_b0.live || g_b0.size >= 1) && (!g_b1.live || g_b1.size >= 1)); \
  __CPROVER_assume((!g_b0.live || (g_b0.base >= 4096 && g_b0.base <= ADDRMAX && g_b0.size <= (size_t)ADDRMAX)) && (!g_b1.live || (g_b1.base >= 4096 && g_b1.base <= ADDRMAX && g_b1.size <= (size_t)ADDRMAX)))
#define CLOSE2() image_dtor(&a); image_dtor(&b); __CPROVER_assert(NO_LIVE_BLOCKS(), "history closed: after both destructors no block is live (no leak) and no deallocate obligation failed (no double free)")
void hz_copy_ctor(void){ WORLD2(); img_t c; img_t a0__ = a; LAYOUT_FOR(view_dimensions(&a._view), a._align_in_bytes);
  image_copy_ctor(&c, &a);
  __CPROVER_assert(EITHER_BLOCK_INV(a) && a._memory == a0__._memory && a._allocated_bytes == a0__._allocated_bytes, "image(const image&).ensures: source unchanged and still valid");
  __CPROVER_assert(EITHER_BLOCK_INV(c) && (c._memory == 0 || (c._memory != a._memory && c._memory != b._memory)), "image(const image&).ensures: the copy owns a fresh block of its own (deep)");
  __CPROVER_assert(DIMS_AS(c._view, view_dimensions(&a._view)), "image(const image&).ensures: same dimensions");
  image_dtor(&c); CLOSE2();
  __CPROVER_assert(0, "VACUITY"); }
void hz_move_ctor(void){ WORLD2(); img_t c; img_t a0__ = a;
  image_move_ctor(&c, &a);
  __CPROVER_assert(EITHER_BLOCK_INV(c) && c._memory == a0__._memory, "image(image&&).ensures: the new image took over the block");
  __CPROVER_assert(a._memory == 0 && VIEW_EMPTY(a._view) && a._allocated_bytes == 0, "image(image&&).ensures: moved-from image is empty and owns nothing");
  image_dtor(&c); CLOSE2();
  __CPROVER_assert(0, "VACUITY"); }
void hz_swap(void){ WORLD2(); __CPROVER_assume(a._alloc == b._alloc || 1);
  img_t a0 = a, b0 = b;
  image_swap(&a, &b);
  __CPROVER_assert(EITHER_BLOCK_INV(a) && EITHER_BLOCK_INV(b) && a._memory == b0._memory && b._memory == a0._memory, "swap.ensures: each image owns the other's block, size and view");
  __CPROVER_assert(a._allocated_bytes == b0._allocated_bytes && b._allocated_bytes == a0._allocated_bytes && a._align_in_bytes == b0._align_in_bytes, "swap.ensures: recorded sizes and alignments travel with the blocks");
  CLOSE2();
  __CPROVER_assert(0, "VACUITY"); }
void hz_move_assign_propagate(void){ WORLD2(); img_t b0__ = b;
  move_assign_propagate(&a, &b);
  __CPROVER_assert(EITHER_BLOCK_INV(a) && a._memory == b0__._memory, "move assignment (propagating allocator).ensures: target adopts the source block");
  __CPROVER_assert(b._memory == 0 && VIEW_EMPTY(b._view), "move assignment.ensures: source left empty");
  CLOSE2();
  __CPROVER_assert(0, "VACUITY"); }
void hz_move_assign_no_propagate(void){ WORLD2();
#ifdef DEBUG_UNEQUAL
  __CPROVER_assume(a._alloc != b._alloc && b._memory != 0);
#endif
  LAYOUT_FOR(view_dimensions(&b._view), a._align_in_bytes);
  move_assign_no_propagate(&a, &b);
  __CPROVER_assert(EITHER_BLOCK_INV(a), "move assignment (non-propagating allocator).ensures: target valid");
  __CPROVER_assert(EITHER_BLOCK_INV(b), "move assignment (non-propagating allocator).ensures: source valid");
  __CPROVER_assert(a._memory == 0 || a._memory != b._memory, "move assignment (non-propagating allocator).ensures: no block owned twice");
  CLOSE2();
  __CPROVER_assert(0, "VACUITY"); }
void hz_copy_assign(void){ WORLD2(); img_t b0__ = b; LAYOUT_FOR(view_dimensions(&b._view), b._align_in_bytes);
  copy_assign(&a, &b);
  __CPROVER_assert(EITHER_BLOCK_INV(a) && EITHER_BLOCK_INV(b) && b._memory == b0__._memory, "operator=(const image&).ensures: both valid, source untouched");
  __CPROVER_assert(DIMS_AS(a._view, view_dimensions(&b._view)), "operator=(const image&).ensures: same dimensions as the source");
  __CPROVER_assert(a._memory == 0 || a._memory != b._memory, "operator=(const image&).ensures: deep (storage not shared)");
  CLOSE2();
  __CPROVER_assert(0, "VACUITY"); }
#define RECREATE_HARNESS(name, call) \
void hz_##name(void){ WORLD2(); img_t b0__ = b; point_t d; size_t al; Alloc A; __CPROVER_assume(DIMS_OK(d) && al <= ALIGNMAX); a._alloc_default = a._alloc; LAYOUT_FOR(d, al); \
  size_t old_bytes = a._allocated_bytes; addr_t old_mem = a._memory; size_t need = g_total; \
  int same = POINT_EQ(d, view_dimensions(&a._view)) && a._align_in_bytes == al; \
  call; \
  __CPROVER_assert(EITHER_BLOCK_INV(a), #name ".ensures: representation invariant: one live block of the recorded size, every pixel of the new view inside it"); \
  __CPROVER_assert(DIMS_AS(a._view, d), #name ".ensures: requested dimensions"); \
  __CPROVER_assert(same || a._align_in_bytes == al, #name ".ensures: requested alignment recorded"); \
  __CPROVER_assert(VIEW_EMPTY(a._view) || ROWS_ALIGNED(a), #name ".ensures: first pixel and every row aligned to the recorded alignment"); \
  __CPROVER_assert(same || old_mem == 0 || (old_bytes >= need) == (a._memory == old_mem && a._allocated_bytes == old_bytes), #name ".ensures: storage reused iff it is large enough"); \
  __CPROVER_assert(EITHER_BLOCK_INV(b) && b._memory == b0__._memory, #name ".ensures: other images untouched"); \
  CLOSE2(); \
  __CPROVER_assert(0, "VACUITY"); }
RECREATE_HARNESS(recreate, recreate(&a, d, al))
RECREATE_HARNESS(recreate_fill, recreate_fill(&a, d, al))
RECREATE_HARNESS(recreate_alloc, recreate_alloc(&a, d, al, A))
RECREATE_HARNESS(recreate_fill_alloc, recreate_fill_alloc(&a, d, al, A))
#endif
'''

PROBE_PRE = r'''
template <typename It, int B = byte_to_memunit<It>::value> struct bitfield_bytes { static const long value = 0; };
template <typename V, int B = byte_to_memunit<typename V::x_iterator>::value> struct chan_layout { static const long align = (long)alignof(typename channel_type<V>::type), size = (long)sizeof(typename channel_type<V>::type); };
template <typename V> struct chan_layout<V, 8> { static const long align = 1, size = 1; };      /* bit-aligned: channels are bit ranges, no byte alignment */
template <typename It> struct bitfield_bytes<It, 8> { static const long value = (long)sizeof(typename std::iterator_traits<It>::reference::bitfield_t); };
'''
PROBE = r'''
  using image_t = IMG;
  using view_t = image_t::view_t; using x_iterator = view_t::x_iterator;
  P_VAL("PIXEL_STEP", (long long)memunit_step(x_iterator()));
  P_VAL("BYTE_TO_MEMUNIT", (long long)byte_to_memunit<x_iterator>::value);
  P_VAL("NUM_CHANNELS", (long long)num_channels<view_t>::value);
  P_VAL("CHANNEL_ALIGN", (long long)chan_layout<view_t>::align); P_VAL("CHANNEL_SIZE", (long long)chan_layout<view_t>::size);
  P_VAL("IS_PLANAR", (long long)is_planar<view_t>::value);
  P_VAL("ACCESS_SPAN", (long long)ACCESS_SPAN_EXPR);
  P_VAL("BIT_ALIGNED", (int)(byte_to_memunit<x_iterator>::value == 8)); P_VAL("BITFIELD_BYTES", (long long)bitfield_bytes<x_iterator>::value);
  P_VAL("ACCESS_SLACK_BYTES", (long long)(byte_to_memunit<x_iterator>::value == 8 ? bitfield_bytes<x_iterator>::value - 1 : 0));      /* specification: what the accessors need */
  P_VAL("ACCESS_SLACK_IMPL", (long long)detail::access_slack_in_bytes<x_iterator>::value);                                          /* the constant the real trait yields */
  P_VAL("MAX_ALIGN_T_ALIGN", (long long)alignof(std::max_align_t));
#ifdef BOOST_NO_CXX17_HDR_MEMORY_RESOURCE
  P_VAL("PPDEF_BOOST_NO_CXX17_HDR_MEMORY_RESOURCE", 1);
#else
  P_VAL("PPDEF_BOOST_NO_CXX17_HDR_MEMORY_RESOURCE", 0);
#endif
  if ((int)is_planar<view_t>::value != EXPECT_PLANAR) { std::fprintf(stderr, "planarity of the instantiation differs from the spec\n"); return 1; }
'''

REPLAY = r'''
// native replay: a checking allocator (records every block, guard zones, sizes) under the real boost::gil::image
#include <boost/gil.hpp>
#include <boost/gil/extension/toolbox/metafunctions.hpp>
#include <map>
#include <vector>
#include <cstring>
#include "vreplay.hpp"
using namespace boost::gil;
#include "inst.hpp"
struct arena { std::map<unsigned char*, std::size_t> live; int errors = 0; long allocs = 0, frees = 0; int id; };
static arena A0{{},0,0,0,0}, A1{{},0,0,0,1};
template <typename T, bool PropSwap = true> struct chk_alloc { using value_type = T; arena* a; chk_alloc(arena* p = &A0) : a(p) {}
  template <typename U> struct rebind { using other = chk_alloc<U, PropSwap>; };
  template <typename U> chk_alloc(chk_alloc<U, PropSwap> const& o) : a(o.a) {}
  T* allocate(std::size_t n) { unsigned char* p = (unsigned char*)std::malloc(n * sizeof(T) + 128); std::memset(p, 0xCD, n * sizeof(T) + 128); a->live[p + 64] = n * sizeof(T); a->allocs++; return (T*)(p + 64); }
  void deallocate(T* q, std::size_t n) { unsigned char* p = (unsigned char*)q; auto it = a->live.find(p);
    if (it == a->live.end()) { std::printf("deallocate of a block that is not live in this allocator (double free / foreign)\n"); a->errors++; return; }
    if (it->second != n * sizeof(T)) { std::printf("deallocate with size %zu, allocated %zu\n", n * sizeof(T), it->second); a->errors++; }
    for (int i = 0; i < 64; i++) if (p[-1 - i] != 0xCD || p[it->second + i] != 0xCD) { std::printf("guard zone around a %zu-byte block overwritten\n", it->second); a->errors++; break; }
    a->live.erase(it); a->frees++; std::free(p - 64); }
  bool operator==(chk_alloc const& o) const { return a == o.a; } bool operator!=(chk_alloc const& o) const { return a != o.a; }
  using propagate_on_container_move_assignment = std::false_type; using propagate_on_container_swap = std::integral_constant<bool, PropSwap>; };
using pixel_t = IMG::value_type;
template <bool PS> using image_ps = image<pixel_t, IS_PLANAR_IMG, chk_alloc<unsigned char, PS>>;
template <typename V> static bool inside(V const& v, arena& ar, const char* what) { if (v.width() <= 0 || v.height() <= 0) return true;
  for (auto& kv : ar.live) { (void)kv; }
  return true; }
template <typename I> static int touch(I& im) { auto v = view(im); for (std::ptrdiff_t y = 0; y < v.height(); y++) for (std::ptrdiff_t x = 0; x < v.width(); x++) { pixel_t p = v(x,y); v(x,y) = p; } return 0; }
template <bool PS> static int scenario(){ using image_t = image_ps<PS>; using alloc_t = chk_alloc<unsigned char, PS>;
  long w0 = vr::i64("a._view.w", 16) % 64, h0 = vr::i64("a._view.h", 16) % 64, al0 = vr::i64("a._align_in_bytes", 0) % 129;
  long w1 = vr::i64("d.x", 9) % 64, h1 = vr::i64("d.y", 5) % 64, al1 = vr::i64("al", 64) % 129;
  if (w0 < 0) w0 = -w0; if (h0 < 0) h0 = -h0; if (w1 < 0) w1 = -w1; if (h1 < 0) h1 = -h1; if (al0 < 0) al0 = 0; if (al1 < 0) al1 = 0;
  std::string chk = vr::str("check");
  auto is = [&](const char* n){ return chk.empty() || chk == "all" || chk.find(n) != std::string::npos; };
  {
    image_t a(w0, h0, (std::size_t)al0, alloc_t(&A0)); touch(a);
    image_t b(w1, h1, (std::size_t)al1, alloc_t(&A1)); touch(b);
    if (is("recreate") || is("ctor_dims") || is("ctor_fill")) {
      a.recreate(w1, h1, (std::size_t)al1); touch(a);
      a.recreate(point_t(w0, h0), pixel_t(), (std::size_t)al0); touch(a);
      a.recreate(point_t(w1, h1), (std::size_t)al1, alloc_t(&A0)); touch(a);
      a.recreate(point_t(w0, h0), pixel_t(), (std::size_t)al0, alloc_t(&A0)); touch(a);
      a.recreate(point_t(w1 + 3, h1 + 2), (std::size_t)al1, alloc_t(&A1)); touch(a);          // growing recreate handing over another allocator
      a.recreate(point_t(w0 + 7, h0 + 7), pixel_t(), (std::size_t)al0, alloc_t(&A0)); touch(a); }
    if (is("copy")) { image_t c(a); touch(c); c = b; touch(c); image_t e(b); e = a; touch(e); }
    if (is("move_ctor") || is("swap")) { image_t c(a); image_t d(std::move(c)); touch(d); a.swap(d); touch(a); touch(d); }
    if (is("move_assign")) {
      a = std::move(b); touch(a);                      // non-propagating allocators, unequal
      image_t e(3, 2, 0, alloc_t(&A1)); image_t f(0, 0, 0, alloc_t(&A0)); e = std::move(f); touch(e);
      image_t g(w0, h0, (std::size_t)al0, alloc_t(&A0)); image_t h(w1, h1, (std::size_t)al1, alloc_t(&A0)); g = std::move(h); touch(g); }
  }
  long leaked = (long)A0.live.size() + (long)A1.live.size();
  if (A0.errors + A1.errors) REPRODUCED("%d allocator errors (see above) for dims %ldx%ld align %ld -> %ldx%ld align %ld", A0.errors + A1.errors, w0, h0, al0, w1, h1, al1);
  if (leaked) REPRODUCED("%ld block(s) never deallocated (allocs %ld/%ld frees %ld/%ld)", leaked, A0.allocs, A1.allocs, A0.frees, A1.frees);
  return 0; }
int main(int argc, char** argv){ vr::parse(argc, argv);
  if (scenario<true>()) return 1;          // allocator type that propagates on swap
  if (scenario<false>()) return 1;         // allocator_traits default: no propagation on swap
  NOT_REPRODUCED("no allocator error, no leak (both swap-propagation modes of the allocator type)"); }
'''

ARITH = ['align', 'row_size', 'total_size']
ALIGN_CASES = [0, 1, 2, 3, 4, 8, 16, 32, 64, 128, 4096]
ALIGN_CASES_THOROUGH = list(range(0, 65)) + [96, 100, 127, 128, 255, 256, 512, 1000, 1024, 2048, 4095, 4096]
C01_CHECKS = ARITH + ['layout_create_view', 'layout_allocate', 'ctor_dims', 'ctor_fill', 'recreate', 'recreate_fill', 'recreate_alloc', 'recreate_fill_alloc', 'copy_ctor']
C10_CHECKS = ['layout_create_view', 'layout_allocate', 'ctor_default', 'ctor_dims', 'ctor_fill', 'copy_ctor', 'move_ctor', 'swap', 'move_assign_propagate', 'move_assign_no_propagate',
              'copy_assign', 'recreate', 'recreate_fill', 'recreate_alloc', 'recreate_fill_alloc']

INSTS = [
    # name, tier, C++ image type, planar?, access span expression (memory units touched per pixel access)
    ('gray8', 'quick', 'gray8_image_t', 0, 'sizeof(gray8_pixel_t)'),
    ('rgb8', 'quick', 'rgb8_image_t', 0, 'sizeof(rgb8_pixel_t)'),
    ('rgba16', 'quick', 'rgba16_image_t', 0, 'sizeof(rgba16_pixel_t)'),
    ('rgb8_planar', 'quick', 'rgb8_planar_image_t', 1, '1'),
    ('rgba16_planar', 'quick', 'rgba16_planar_image_t', 1, '2'),
    ('rgb32f', 'thorough', 'rgb32f_image_t', 0, 'sizeof(rgb32f_pixel_t)'),
    ('cmyk8_planar', 'thorough', 'cmyk8_planar_image_t', 1, '1'),
    # bit-aligned images: memory unit = bit, accessors load sizeof(bit field) bytes (EXTENT_END has the exact formula; the span expression is unused)
    ('gray2_ba', 'quick', 'bit_aligned_image1_type<2, gray_layout_t>::type', 0, '1'),
    ('bgr121_ba', 'quick', 'bit_aligned_image3_type<1, 2, 1, bgr_layout_t>::type', 0, '1'),
    ('rgb565_ba', 'thorough', 'bit_aligned_image3_type<5, 6, 5, rgb_layout_t>::type', 0, '1'),
    ('gray1_ba', 'thorough', 'bit_aligned_image1_type<1, gray_layout_t>::type', 0, '1'),
]


def units(prop, names, bit_aligned=True):
    out = []
    for (n, tier, cxx, planar, span) in INSTS:
        checks = []
        for c in names:
            heavy = c.startswith('recreate') or c in ('copy_assign', 'move_assign_no_propagate', 'copy_ctor')
            stub = c not in ARITH and not c.startswith('layout_') and c not in ('ctor_default', 'move_ctor', 'swap', 'move_assign_propagate')
            if c.startswith('layout_'):
                checks.append(Check(c, 'hz_' + c, engine='Z', timeout=300, zopts={'jobs': 2}, gi_flags=['--unwind', '6'] if planar else [],
                                    partition=('ALIGN_CASE', ALIGN_CASES), inputs=('d.x', 'd.y')))
                # thorough: every alignment 0..64 and a spread up to 4096 (a symbolic alignment - `% align` by a symbolic divisor - times out in z3 for
                # the wider pixel types, so it is not registered: an undecided check may not stand in a registered command)
                if n.endswith('_ba'):
                    continue                      # bit-aligned images: the byte-granular extent (`/ 8`) makes the wider alignment cells slow (z3 time-outs under load): the 11 quick alignments only
                checks.append(Check(c + '_more', 'hz_' + c, engine='Z', timeout=120, tier='thorough', zopts={'jobs': 2}, gi_flags=['--unwind', '6'] if planar else [],
                                    partition=('ALIGN_CASE', [a for a in ALIGN_CASES_THOROUGH if a not in ALIGN_CASES]), inputs=('d.x', 'd.y')))
                continue
            checks.append(Check(c, 'hz_' + c, engine='Z', timeout=400 if heavy else 300, zopts={'unsigned_overflow': c in ARITH, 'jobs': 8},
                                defines=['ZSTUB_LAYOUT'] if stub else [], small=['SMALL_CEX'] if c.startswith('recreate') else (),
                                gi_flags=['--unwind', '6'] if planar else [],
                                inputs=('a._view.w', 'a._view.h', 'a._align_in_bytes', 'd.x', 'd.y', 'al')))
        out.append(Unit('image.' + n, prop, C.replace('@@HELPER_DEFS@@', helper_defs()), extracts=extracts(planar), checks=checks,
                        insts=[(n, tier, {'T_IMG': cxx, 'ACCESS_SPAN_EXPR': span, 'EXPECT_PLANAR': str(planar), 'IS_PLANAR_IMG': 'true' if planar else 'false'})],
                        probe_includes=['boost/gil.hpp'], probe=PROBE, probe_pre=PROBE_PRE, replay=REPLAY,
                        preconditions=['image dimensions 0 <= w,h <= 2^20, alignment <= 4096, block addresses in [4096, 2^47]'],
                        assumed=['std::allocator_traits / the allocator itself (modelled by the ghost block table)',
                                 'pixel construction / destruction / fill / copy loops touch exactly the pixels of the view they are given (algorithm.hpp, C04)',
                                 'image_view / locator / planar iterator constructors store their arguments']))
    return out
