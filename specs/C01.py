"""C01 — pixel access through images and views never leaves the image's storage.  See specs/img.py (allocation
arithmetic + the access lemma as precondition of every pixel operation) and specs/bits.py; view transformations keep
accesses inside by C02's contracts (every derived pixel IS a source pixel)."""
from . import img
UNITS = img.units('C01', img.C01_CHECKS)
META = dict(not_covered=['bit-aligned images (BitField wider than the tail of the buffer): see DESIGN section 6.8',
                         'caller-supplied buffers (interleaved_view / planar_rgb_view): same address arithmetic with alignment 0, not built separately'])
