"""C09 — default colour conversion keeps neutrals, range and order and composes soundly (8-bit channel pixels).

Functions under contract (bodies cut from color_convert.hpp; channel functions from channel_algorithm.hpp):
  detail::rgb_to_luminance_fn<uint8_t,uint8_t,uint8_t,G>::operator(),
  default_color_converter_impl<gray_t,rgb_t>, <rgb_t,gray_t>, <rgb_t,cmyk_t>, <cmyk_t,rgb_t>, <cmyk_t,gray_t>,
  <C1,rgba_t> (for C1 in gray/rgb/cmyk), <rgba_t,C2> (C2 = rgb), detail::alpha_or_max_impl (both),
  channel_invert<uint8_t>, channel_multiplier_unsigned<uint8_t>, detail::div255.
Pixels are lowered to an array of channels IN MEMORY ORDER; get_color(p, colour_t()) becomes p.ch[IDX] where IDX is the memory
index the real get_color yields for that pixel type (measured by the probe on a real pixel object), so a body that assigns
channels positionally instead of by colour name is caught for every non-canonical layout (bgra, argb, abgr, bgr).
8-bit to 8-bit channel_convert is the identity (proved as conv.u8_u8 under C06).
"""
from vclib.core import X, Check, Unit
from vclib import extract as ex
from . import C07

CC = 'color_convert.hpp'
CH_CONV = r'channel_convert<(?:[^<>()]|<[^<>]*>)*>\('


def lower_pixel_ctor(body):
    n_total = 0

    def ctor(a):
        return 'pixel_make%d(%s)' % (len(a), ', '.join(a))
    body, n = ex.rewrite_calls(body, r'typename P2::value_type\(', ctor)
    n_total += n
    body, n = ex.rewrite_calls(body, r'pixel<T1,rgb_layout_t>\(', ctor)
    n_total += n
    return body, n_total


def R(srcname='src', dstname='dst'):
    return [
        ('R11.get_tmp', r'get_color\(tmp,\s*(\w+?)_t\(\)\)', r'tmp.ch[IDX_tmp_\1]', False),
        ('R11.get_color', r'get_color\((\w+),\s*(\w+?)_t\(\)\)', r'\1->ch[IDX_\1_\2]', False),
        ('R8.chan_alias', r'using (\w+)\s*=\s*typename channel_type<[^;]+>::type;', r'typedef uint8_t \1;', False),
        ('R8.ch_min', r'channel_traits<(?:[^<>()]|<[^<>]*>)*>::min_value\(\)', 'CH_MIN', False),
        ('R8.ch_max', r'channel_traits<(?:[^<>()]|<[^<>]*>)*>::max_value\(\)', 'CH_MAX', False),
        ('R11.convert', CH_CONV, 'CHANNEL_CONVERT(', False),
        ('R11.invert_t', r'channel_invert<T1>\(', 'channel_invert(', False),
        ('R11.lum', r'(?:detail::)?rgb_to_luminance<(?:[^<>()]|<[^<>]*>)*>\(', 'lum_u8(', False),
        ('R4.T1', r'(?<![\w<])T1\(', '(uint8_t)(', False),
        ('R12.pixel_ctor', lower_pixel_ctor, None, False),
        ('R12.tmp_decl', r'pixel<T2,rgb_layout_t> tmp;', 'pixel_t tmp;', False),
        ('R11.to_rgb', r'default_color_converter_impl<C1,rgb_t>\(\)\(src,tmp\);', 'CONVERT_C1_TO_RGB(src, &tmp);', False),
        ('R11.from_rgb', r'default_color_converter_impl<rgb_t,C2>\(\)\(\s*(pixel_make3\(.*?\))\s*,dst\);', r'{ pixel_t pm__ = \1; CONVERT_RGB_TO_C2(&pm__, dst); }', False),
        ('R11.alpha_or_max', r'alpha_or_max\(src\)', 'ALPHA_OR_MAX(src)', False),
        ('R11.static_fill', r'static_fill\(dst,\s*([^;]+)\);', r'STATIC_FILL(dst, \1);', False),
        ('R9.ref_assign', r'(?<![\w.>\[])dst = (?!=)', '*dst = ', False),     # whole-object assignment through the reference parameter
    ]


def conv(ident, spec_anchor, sig, extra=()):
    return X(ident, CC, sig, within=spec_anchor, count=1, rules=R() + list(extra))


OP = r'void operator\(\)\(const P1& src, P2& dst\) const\s*\{'
X_ALL = [
    X('lum_u8', CC, r'auto operator\(\)\(uint8_t red, uint8_t green, uint8_t blue\) const -> GrayChannelValue\s*\{',
      within=r'struct rgb_to_luminance_fn<uint8_t,uint8_t,uint8_t, GrayChannelValue> \{', count=1, rules=R()),
    conv('gray_to_rgb', r'struct default_color_converter_impl<gray_t,rgb_t> \{', OP),
    conv('rgb_to_gray', r'struct default_color_converter_impl<rgb_t,gray_t> \{', OP),
    conv('rgb_to_cmyk', r'struct default_color_converter_impl<rgb_t, cmyk_t>\s*\{', r'void operator\(\)\(SrcPixel const& src, DstPixel& dst\) const\s*\{'),
    conv('cmyk_to_rgb', r'struct default_color_converter_impl<cmyk_t,rgb_t> \{', OP),
    conv('cmyk_to_gray', r'struct default_color_converter_impl<cmyk_t,gray_t> \{', r'void operator\(\)\(const P1& src, P2& dst\) const\s*\{'),
    conv('to_rgba', r'struct default_color_converter_impl<C1,rgba_t> \{', OP),
    conv('from_rgba', r'struct default_color_converter_impl<rgba_t,C2> \{', OP),
    C07.X_INVERT, C07.X_DIV255, C07.X_MUL_U8,
    # definition-count guard: the generic luminance functor and the uint8_t specialisation are the only definitions (a new specialisation is an extraction break)
    X('lum_guard', CC, r'struct rgb_to_luminance_fn\b[^{;]*\{', nth=0, count=2, common=False),
]

C = r'''
#if 0  /* guard only (counted, never compiled) */
@@lum_guard@@
#endif
typedef struct { uint8_t ch[5]; } pixel_t;            /* channels in MEMORY order */
typedef uint8_t GrayChannelValue; typedef uint8_t uint_t_;
#define CH_MIN ((uint8_t)0)
#define CH_MAX ((uint8_t)255)
#define CHANNEL_CONVERT(e) ((uint8_t)(e))              /* channel_convert<uint8_t>(uint8_t) is the identity (C06: conv.u8_u8) */
#define C_T uint8_t
#define C_PROMOTED_T int
#define C_MAXV 255
#define C_MINV 0
static pixel_t pixel_make3(uint8_t a, uint8_t b, uint8_t c) { pixel_t p; p.ch[0] = a; p.ch[1] = b; p.ch[2] = c; p.ch[3] = 0; p.ch[4] = 0; return p; }   /* pixel(v0,v1,v2): positional = memory order */
static pixel_t pixel_make4(uint8_t a, uint8_t b, uint8_t c, uint8_t d) { pixel_t p; p.ch[0] = a; p.ch[1] = b; p.ch[2] = c; p.ch[3] = d; p.ch[4] = 0; return p; }
#define IDX_tmp_red 0
#define IDX_tmp_green 1
#define IDX_tmp_blue 2
#define IDX_pm___red 0
#define IDX_pm___green 1
#define IDX_pm___blue 2
uint8_t channel_invert(uint8_t x)
__CPROVER_ensures(RET == 255 - x)
__CPROVER_assigns()
@@invert@@
uint32_t div255(uint32_t in)
__CPROVER_requires(in <= 65025)
__CPROVER_ensures(RET <= 255 && 255 * I64(RET) <= I64(in) + 127 && I64(in) <= 255 * I64(RET) + 127)
__CPROVER_assigns()
@@div255@@
uint8_t channel_multiply(uint8_t a, uint8_t b)
__CPROVER_ensures(255 * (int32_t)RET <= (int32_t)a * b + 127 && (int32_t)a * b <= 255 * (int32_t)RET + 127)
__CPROVER_assigns()
@@mul_u8@@

/* detail::rgb_to_luminance_fn<uint8_t,uint8_t,uint8_t,G>::operator(): (4915 r + 9667 g + 1802 b + 8192) >> 14 */
uint8_t lum_u8(uint8_t red, uint8_t green, uint8_t blue)
__CPROVER_ensures(16384 * (int)(RET) - (4915 * (int)(red) + 9667 * (int)(green) + 1802 * (int)(blue)) <= 8192)      /* within half a unit of the 14-bit weights ... */
__CPROVER_ensures((4915 * (int)(red) + 9667 * (int)(green) + 1802 * (int)(blue)) - 16384 * (int)(RET) <= 8192)      /* ... (weights/16384 = 0.29999, 0.59003, 0.10999) */
__CPROVER_ensures(100 * (int)(RET) - (30 * (int)(red) + 59 * (int)(green) + 11 * (int)(blue)) < 100 && (30 * (int)(red) + 59 * (int)(green) + 11 * (int)(blue)) - 100 * (int)(RET) < 100)   /* within one unit of 0.30r+0.59g+0.11b */
__CPROVER_ensures(IMPLIES(red == green && green == blue, RET == red))                                       /* (v,v,v) -> v exactly */
__CPROVER_assigns()
@@lum_u8@@

#ifdef ROUNDTRIP_UNIT   /* rgb8_pixel_t and cmyk8_pixel_t in their canonical layouts (probe asserts it): both directions in one unit */
#define IDX_src_cyan 0
#define IDX_src_magenta 1
#define IDX_src_yellow 2
#define IDX_src_black 3
#define IDX_dst_red 0
#define IDX_dst_green 1
#define IDX_dst_blue 2
#endif
#define P_OK(p) __CPROVER_is_fresh(p, sizeof(pixel_t))
#if SRC_IS_gray && DST_IS_rgb
void gray_to_rgb(const pixel_t* src, pixel_t* dst)
__CPROVER_requires(P_OK(src) && P_OK(dst))
__CPROVER_assigns(dst->ch)
__CPROVER_ensures(dst->ch[IDX_dst_red] == src->ch[0] && dst->ch[IDX_dst_green] == src->ch[0] && dst->ch[IDX_dst_blue] == src->ch[0])   /* gray v -> rgb (v,v,v), by colour name */
@@gray_to_rgb@@
#endif
#if SRC_IS_rgb && DST_IS_gray
void rgb_to_gray(const pixel_t* src, pixel_t* dst)
__CPROVER_requires(P_OK(src) && P_OK(dst))
__CPROVER_assigns(dst->ch)
__CPROVER_ensures(IMPLIES(src->ch[0] == src->ch[1] && src->ch[1] == src->ch[2], dst->ch[0] == src->ch[0]))    /* rgb (v,v,v) -> gray v exactly */
__CPROVER_ensures(100 * (int)(dst->ch[0]) - (30 * (int)(src->ch[IDX_src_red]) + 59 * (int)(src->ch[IDX_src_green]) + 11 * (int)(src->ch[IDX_src_blue])) < 100)
__CPROVER_ensures((30 * (int)(src->ch[IDX_src_red]) + 59 * (int)(src->ch[IDX_src_green]) + 11 * (int)(src->ch[IDX_src_blue])) - 100 * (int)(dst->ch[0]) < 100)      /* within one unit of 0.30r+0.59g+0.11b */
@@rgb_to_gray@@
#endif
#if (SRC_IS_rgb && DST_IS_cmyk) || defined(ROUNDTRIP_UNIT)
void rgb_to_cmyk(const pixel_t* src, pixel_t* dst)
__CPROVER_requires(P_OK(src) && P_OK(dst))
__CPROVER_assigns(dst->ch)
__CPROVER_ensures(IMPLIES(src->ch[0] == 0 && src->ch[1] == 0 && src->ch[2] == 0, dst->ch[IDX_dst_cyan] == 0 && dst->ch[IDX_dst_magenta] == 0 && dst->ch[IDX_dst_yellow] == 0 && dst->ch[IDX_dst_black] == 255))   /* black -> black */
__CPROVER_ensures(IMPLIES(src->ch[0] == 255 && src->ch[1] == 255 && src->ch[2] == 255, dst->ch[0] == 0 && dst->ch[1] == 0 && dst->ch[2] == 0 && dst->ch[3] == 0))   /* white -> white */
@@rgb_to_cmyk@@
#endif
#if (SRC_IS_cmyk && DST_IS_rgb) || defined(ROUNDTRIP_UNIT)
void cmyk_to_rgb(const pixel_t* src, pixel_t* dst)
__CPROVER_requires(P_OK(src) && P_OK(dst))
__CPROVER_assigns(dst->ch)
__CPROVER_ensures(IMPLIES(src->ch[IDX_src_black] == 255, dst->ch[0] == 0 && dst->ch[1] == 0 && dst->ch[2] == 0))                                      /* black -> black */
__CPROVER_ensures(IMPLIES(src->ch[0] == 0 && src->ch[1] == 0 && src->ch[2] == 0 && src->ch[3] == 0, dst->ch[0] == 255 && dst->ch[1] == 255 && dst->ch[2] == 255))   /* white -> white */
@@cmyk_to_rgb@@
#endif
#if SRC_IS_cmyk && DST_IS_gray
void cmyk_to_gray(const pixel_t* src, pixel_t* dst)
__CPROVER_requires(P_OK(src) && P_OK(dst))
__CPROVER_assigns(dst->ch)
__CPROVER_ensures(IMPLIES(src->ch[IDX_src_black] == 255, dst->ch[0] == 0))
__CPROVER_ensures(IMPLIES(src->ch[0] == 0 && src->ch[1] == 0 && src->ch[2] == 0 && src->ch[3] == 0, dst->ch[0] == 255))
@@cmyk_to_gray@@
#endif
#define ALPHA_OR_MAX(s) CH_MAX         /* alpha_or_max(src) for a source colour space without alpha (probe: SRC_HAS_ALPHA == 0) */
/* the rgb intermediate of <C1,rgba_t> has rgb_layout_t: indices 0,1,2 */
#if SRC_IS_gray
#define CONVERT_C1_TO_RGB(s, t) do { (t)->ch[0] = (s)->ch[0]; (t)->ch[1] = (s)->ch[0]; (t)->ch[2] = (s)->ch[0]; } while (0)    /* contract of gray_to_rgb with an rgb_layout_t destination */
#define SPEC_R(s) ((s)->ch[0])
#define SPEC_G(s) ((s)->ch[0])
#define SPEC_B(s) ((s)->ch[0])
#elif SRC_IS_rgb
#define CONVERT_C1_TO_RGB(s, t) do { (t)->ch[0] = (s)->ch[IDX_src_red]; (t)->ch[1] = (s)->ch[IDX_src_green]; (t)->ch[2] = (s)->ch[IDX_src_blue]; } while (0)
#define SPEC_R(s) ((s)->ch[IDX_src_red])
#define SPEC_G(s) ((s)->ch[IDX_src_green])
#define SPEC_B(s) ((s)->ch[IDX_src_blue])
#endif
#if (SRC_IS_gray || SRC_IS_rgb) && DST_IS_rgba
void to_rgba(const pixel_t* src, pixel_t* dst)
__CPROVER_requires(P_OK(src) && P_OK(dst))
__CPROVER_assigns(dst->ch)
__CPROVER_ensures(dst->ch[IDX_dst_red] == SPEC_R(src) && dst->ch[IDX_dst_green] == SPEC_G(src) && dst->ch[IDX_dst_blue] == SPEC_B(src))   /* colour channels by NAME = the rgb conversion of the source */
__CPROVER_ensures(dst->ch[IDX_dst_alpha] == 255)                                                                                         /* converting to rgba sets alpha to max */
@@to_rgba@@
#endif
#define STATIC_FILL(d, v) do { (d)->ch[0] = (v); (d)->ch[1] = (v); (d)->ch[2] = (v); (d)->ch[3] = (v); (d)->ch[4] = (v); } while (0)     /* static_fill(p, v): every channel of p = v */
#if SRC_IS_rgba && DST_IS_rgb
#define CONVERT_RGB_TO_C2(pm, d) do { (d)->ch[IDX_dst_red] = (pm)->ch[0]; (d)->ch[IDX_dst_green] = (pm)->ch[1]; (d)->ch[IDX_dst_blue] = (pm)->ch[2]; } while (0)
void from_rgba(const pixel_t* src, pixel_t* dst)
__CPROVER_requires(P_OK(src) && P_OK(dst))
__CPROVER_assigns(dst->ch)
/* converting from rgba equals converting the alpha-premultiplied rgb: each colour is channel_multiply(colour, alpha) (within one level of c*a/255) */
__CPROVER_ensures(255 * (int32_t)dst->ch[IDX_dst_red] <= (int32_t)src->ch[IDX_src_red] * src->ch[IDX_src_alpha] + 127 && (int32_t)src->ch[IDX_src_red] * src->ch[IDX_src_alpha] <= 255 * (int32_t)dst->ch[IDX_dst_red] + 127)
__CPROVER_ensures(255 * (int32_t)dst->ch[IDX_dst_green] <= (int32_t)src->ch[IDX_src_green] * src->ch[IDX_src_alpha] + 127 && (int32_t)src->ch[IDX_src_green] * src->ch[IDX_src_alpha] <= 255 * (int32_t)dst->ch[IDX_dst_green] + 127)
__CPROVER_ensures(255 * (int32_t)dst->ch[IDX_dst_blue] <= (int32_t)src->ch[IDX_src_blue] * src->ch[IDX_src_alpha] + 127 && (int32_t)src->ch[IDX_src_blue] * src->ch[IDX_src_alpha] <= 255 * (int32_t)dst->ch[IDX_dst_blue] + 127)
@@from_rgba@@
#endif
#if SRC_IS_rgba && DST_IS_cmyk
pixel_t g_pm; _Bool g_pm_set;        /* ghost: the alpha-premultiplied rgb pixel (rgb_layout_t: indices 0,1,2) handed to the rgb converter */
/* default_color_converter_impl<rgb_t,cmyk_t> applied to an rgb_layout_t pixel: its contract, proved on the real body in unit cc.rgb_cmyk */
void rgb_to_cmyk_c(const pixel_t* src, pixel_t* dst)
__CPROVER_requires(P_OK(src) && P_OK(dst))
__CPROVER_assigns(dst->ch)
__CPROVER_ensures(IMPLIES(src->ch[0] == 0 && src->ch[1] == 0 && src->ch[2] == 0, dst->ch[IDX_dst_cyan] == 0 && dst->ch[IDX_dst_magenta] == 0 && dst->ch[IDX_dst_yellow] == 0 && dst->ch[IDX_dst_black] == 255))   /* black -> black */
__CPROVER_ensures(IMPLIES(src->ch[0] == 255 && src->ch[1] == 255 && src->ch[2] == 255, dst->ch[IDX_dst_cyan] == 0 && dst->ch[IDX_dst_magenta] == 0 && dst->ch[IDX_dst_yellow] == 0 && dst->ch[IDX_dst_black] == 0))   /* white -> white */
{ uint8_t c, m, y, k; if (src->ch[0] == 0 && src->ch[1] == 0 && src->ch[2] == 0) { c = 0; m = 0; y = 0; k = 255; } if (src->ch[0] == 255 && src->ch[1] == 255 && src->ch[2] == 255) { c = 0; m = 0; y = 0; k = 0; }
  dst->ch[IDX_dst_cyan] = c; dst->ch[IDX_dst_magenta] = m; dst->ch[IDX_dst_yellow] = y; dst->ch[IDX_dst_black] = k; }
#define CONVERT_RGB_TO_C2(pm, d) do { g_pm = *(pm); g_pm_set = 1; rgb_to_cmyk_c((pm), (d)); } while (0)
#define NEAR_PRODUCT(v, c, a) (255 * (int32_t)(v) <= (int32_t)(c) * (a) + 127 && (int32_t)(c) * (a) <= 255 * (int32_t)(v) + 127)
void from_rgba(const pixel_t* src, pixel_t* dst)
__CPROVER_requires(P_OK(src) && P_OK(dst) && !g_pm_set)
__CPROVER_assigns(dst->ch, g_pm, g_pm_set)
/* converting from rgba equals converting the alpha-premultiplied rgb: the rgb converter is applied to (r*a, g*a, b*a) (each within one level of c*a/255) ... */
__CPROVER_ensures(g_pm_set && NEAR_PRODUCT(g_pm.ch[0], src->ch[IDX_src_red], src->ch[IDX_src_alpha]) && NEAR_PRODUCT(g_pm.ch[1], src->ch[IDX_src_green], src->ch[IDX_src_alpha]) && NEAR_PRODUCT(g_pm.ch[2], src->ch[IDX_src_blue], src->ch[IDX_src_alpha]))
/* ... hence a fully transparent pixel (premultiplied black) becomes cmyk black and opaque white becomes cmyk white */
__CPROVER_ensures(IMPLIES(src->ch[IDX_src_alpha] == 0, dst->ch[IDX_dst_cyan] == 0 && dst->ch[IDX_dst_magenta] == 0 && dst->ch[IDX_dst_yellow] == 0 && dst->ch[IDX_dst_black] == 255))
__CPROVER_ensures(IMPLIES(src->ch[IDX_src_alpha] == 255 && src->ch[IDX_src_red] == 255 && src->ch[IDX_src_green] == 255 && src->ch[IDX_src_blue] == 255, dst->ch[IDX_dst_cyan] == 0 && dst->ch[IDX_dst_magenta] == 0 && dst->ch[IDX_dst_yellow] == 0 && dst->ch[IDX_dst_black] == 0))
@@from_rgba@@
#endif

#ifndef VERIF_NATIVE
void h_lum(void){ uint8_t r, g, b; lum_u8(r, g, b); __CPROVER_assert(0, "VACUITY"); }
void hz_lum(void){ uint8_t red, green, blue; uint8_t r__ = lum_u8(red, green, blue);
  __CPROVER_assert(16384 * (int)r__ - (4915 * (int)red + 9667 * (int)green + 1802 * (int)blue) <= 8192 && (4915 * (int)red + 9667 * (int)green + 1802 * (int)blue) - 16384 * (int)r__ <= 8192, "lum_u8.ensures: within half a unit of the 14-bit weights 4915/9667/1802");
  __CPROVER_assert(100 * (int)r__ - (30 * (int)red + 59 * (int)green + 11 * (int)blue) < 100 && (30 * (int)red + 59 * (int)green + 11 * (int)blue) - 100 * (int)r__ < 100, "lum_u8.ensures: within one unit of 0.30r + 0.59g + 0.11b");
  __CPROVER_assert(!(red == green && green == blue) || r__ == red, "lum_u8.ensures: (v,v,v) -> v exactly");
  __CPROVER_assert(0, "VACUITY"); }
#if SRC_IS_rgb && DST_IS_gray
void h_rgb_to_gray_is_lum(void){ pixel_t s, d; rgb_to_gray(&s, &d);
  __CPROVER_assert(d.ch[0] == lum_u8(s.ch[IDX_src_red], s.ch[IDX_src_green], s.ch[IDX_src_blue]), "rgb -> gray is rgb_to_luminance of the channels taken by colour name");
  __CPROVER_assert(0, "VACUITY"); }
#endif
void h_lum_mono(void){ uint8_t r, r2, g, b; __CPROVER_assume(r <= r2);
  __CPROVER_assert(lum_u8(r, g, b) <= lum_u8(r2, g, b), "rgb to gray is monotone in red");
  __CPROVER_assert(lum_u8(g, r, b) <= lum_u8(g, r2, b), "rgb to gray is monotone in green");
  __CPROVER_assert(lum_u8(g, b, r) <= lum_u8(g, b, r2), "rgb to gray is monotone in blue");
  __CPROVER_assert(0, "VACUITY"); }
void h_invert(void){ uint8_t x; channel_invert(x); __CPROVER_assert(0, "VACUITY"); }
#if SRC_IS_gray && DST_IS_rgb
void h_gray_to_rgb(void){ pixel_t* s; pixel_t* d; gray_to_rgb(s, d); __CPROVER_assert(0, "VACUITY"); }
#endif
#if SRC_IS_rgb && DST_IS_gray
void h_rgb_to_gray(void){ pixel_t* s; pixel_t* d; rgb_to_gray(s, d); __CPROVER_assert(0, "VACUITY"); }
#endif
#if (SRC_IS_rgb && DST_IS_cmyk) || defined(ROUNDTRIP_UNIT)
void h_rgb_to_cmyk(void){ pixel_t* s; pixel_t* d; rgb_to_cmyk(s, d); __CPROVER_assert(0, "VACUITY"); }
#endif
#if (SRC_IS_cmyk && DST_IS_rgb) || defined(ROUNDTRIP_UNIT)
void h_cmyk_to_rgb(void){ pixel_t* s; pixel_t* d; cmyk_to_rgb(s, d); __CPROVER_assert(0, "VACUITY"); }
#endif
#if SRC_IS_cmyk && DST_IS_gray
void h_cmyk_to_gray(void){ pixel_t* s; pixel_t* d; cmyk_to_gray(s, d); __CPROVER_assert(0, "VACUITY"); }
#endif
#if (SRC_IS_gray || SRC_IS_rgb) && DST_IS_rgba
void h_to_rgba(void){ pixel_t* s; pixel_t* d; to_rgba(s, d); __CPROVER_assert(0, "VACUITY"); }
#endif
#if SRC_IS_rgba && (DST_IS_rgb || DST_IS_cmyk)
void h_from_rgba(void){ pixel_t* s; pixel_t* d;
#if DST_IS_cmyk
  g_pm_set = 0;
#endif
  from_rgba(s, d); __CPROVER_assert(0, "VACUITY"); }
#endif
#ifdef ROUNDTRIP_UNIT
/* rgb -> cmyk -> rgb returns the original within one 8-bit level: composition of the two real bodies, one cell per black level k */
void h_roundtrip(void){ pixel_t s, c, d; uint8_t r = s.ch[IDX_src_red], g = s.ch[IDX_src_green], b = s.ch[IDX_src_blue];
#ifdef KCELL
  __CPROVER_assume(255 - MAX(r, MAX(g, b)) == KCELL);
#endif
  rgb_to_cmyk(&s, &c);
  { pixel_t* src = &c; pixel_t* dst = &d;       /* cmyk -> rgb reads the cmyk pixel just produced (same pixel type) */
    cmyk_to_rgb(src, dst); }
  __CPROVER_assert(d.ch[IDX_dst_red] - r <= 1 && r - d.ch[IDX_dst_red] <= 1 && d.ch[IDX_dst_green] - g <= 1 && g - d.ch[IDX_dst_green] <= 1 && d.ch[IDX_dst_blue] - b <= 1 && b - d.ch[IDX_dst_blue] <= 1,
                   "rgb -> cmyk -> rgb returns the original within one 8-bit level");
  __CPROVER_assert(0, "VACUITY"); }
#endif
#endif
'''

PROBE_PRE = r'''
template <typename P, typename Color> int midx(const char* pname, const char* cname) {
  P p; int i = (int)(((const unsigned char*)&get_color(p, Color())) - (const unsigned char*)&p) / (int)sizeof(typename channel_type<P>::type);
  std::printf("#define IDX_%s_%s %d\n", pname, cname, i); return i; }
template <typename P> void idx_all(const char* n, std::true_type /*gray*/, int) { midx<P, gray_color_t>(n, "gray_color"); }
template <typename P> void idx_rgb(const char* n) { midx<P, red_t>(n, "red"); midx<P, green_t>(n, "green"); midx<P, blue_t>(n, "blue"); }
template <typename P> void idx_rgba(const char* n) { idx_rgb<P>(n); midx<P, alpha_t>(n, "alpha"); }
template <typename P> void idx_cmyk(const char* n) { midx<P, cyan_t>(n, "cyan"); midx<P, magenta_t>(n, "magenta"); midx<P, yellow_t>(n, "yellow"); midx<P, black_t>(n, "black"); }
template <typename P> void idx(const char* n) {
  using cs = typename color_space_type<P>::type;
  if (std::is_same<cs, gray_t>::value) { std::printf("#define IDX_%s_gray_color 0\n", n); }
  std::printf("#define %s_IS_gray %d\n#define %s_IS_rgb %d\n#define %s_IS_rgba %d\n#define %s_IS_cmyk %d\n", n, (int)std::is_same<cs, gray_t>::value, n, (int)std::is_same<cs, rgb_t>::value, n, (int)std::is_same<cs, rgba_t>::value, n, (int)std::is_same<cs, cmyk_t>::value);
}
template <typename P> typename std::enable_if<std::is_same<typename color_space_type<P>::type, rgb_t>::value>::type idx2(const char* n) { idx_rgb<P>(n); }
template <typename P> typename std::enable_if<std::is_same<typename color_space_type<P>::type, rgba_t>::value>::type idx2(const char* n) { idx_rgba<P>(n); }
template <typename P> typename std::enable_if<std::is_same<typename color_space_type<P>::type, cmyk_t>::value>::type idx2(const char* n) { idx_cmyk<P>(n); }
template <typename P> typename std::enable_if<std::is_same<typename color_space_type<P>::type, gray_t>::value>::type idx2(const char*) {}
'''
PROBE = r'''
  static_assert(std::is_same<channel_type<SRCP>::type, std::uint8_t>::value && std::is_same<channel_type<DSTP>::type, std::uint8_t>::value, "8-bit instantiation");
  idx<SRCP>("SRC"); idx<DSTP>("DST"); idx<SRCP>("src"); idx<DSTP>("dst"); idx2<SRCP>("src"); idx2<DSTP>("dst");
  { using has_a = boost::mp11::mp_contains<color_space_type<SRCP>::type, alpha_t>; P_VAL("SRC_HAS_ALPHA", (int)has_a::value); }
'''

REPLAY = r'''
// native replay: color_convert on real 8-bit pixels of the instantiation's source / destination types
#include <boost/gil.hpp>
#include <cstdlib>
#include "vreplay.hpp"
using namespace boost::gil;
#include "inst.hpp"
using dcs = color_space_type<DSTP>::type;
template <typename D, typename C> typename std::enable_if<boost::mp11::mp_contains<typename color_space_type<D>::type, red_t>::value, bool>::type
same_rgb(D const& d, C const& canon) { return get_color(d, red_t()) == get_color(canon, red_t()) && get_color(d, green_t()) == get_color(canon, green_t()) && get_color(d, blue_t()) == get_color(canon, blue_t()); }
template <typename D, typename C> typename std::enable_if<!boost::mp11::mp_contains<typename color_space_type<D>::type, red_t>::value, bool>::type
same_rgb(D const&, C const&) { return true; }
template <typename D> typename std::enable_if<boost::mp11::mp_contains<typename color_space_type<D>::type, alpha_t>::value, bool>::type alpha_max(D const& d) { return get_color(d, alpha_t()) == 255; }
template <typename D> typename std::enable_if<!boost::mp11::mp_contains<typename color_space_type<D>::type, alpha_t>::value, bool>::type alpha_max(D const&) { return true; }
// from an rgba source: the result is the conversion of the alpha-premultiplied rgb pixel
template <typename S, typename D> typename std::enable_if<boost::mp11::mp_contains<typename color_space_type<S>::type, alpha_t>::value, long>::type from_rgba_check() { long bad = 0;
  for (int a : {0, 1, 128, 254, 255}) for (int r : {0, 3, 200, 255}) for (int g : {0, 77, 255}) for (int b : {0, 130, 255}) { S s; get_color(s, red_t()) = r; get_color(s, green_t()) = g; get_color(s, blue_t()) = b; get_color(s, alpha_t()) = a;
    rgb8_pixel_t pm(channel_multiply((std::uint8_t)r, (std::uint8_t)a), channel_multiply((std::uint8_t)g, (std::uint8_t)a), channel_multiply((std::uint8_t)b, (std::uint8_t)a)); D want, got; color_convert(pm, want); color_convert(s, got);
    if (!(want == got)) { if (bad++ < 3) std::printf("rgba (%d,%d,%d,%d): conversion differs from the conversion of the premultiplied rgb pixel\n", r, g, b, a); } }
  return bad; }
template <typename S, typename D> typename std::enable_if<!boost::mp11::mp_contains<typename color_space_type<S>::type, alpha_t>::value, long>::type from_rgba_check() { return 0; }
int main(int argc, char** argv){ vr::parse(argc, argv);
  long bad = 0, bada = 0;
  for (int a = 0; a < 256; a += 5) for (int b = 0; b < 256; b += 5) for (int c = 0; c < 256; c += 17) {
    rgb8_pixel_t ref(a, b, c); SRCP s; DSTP d;
    color_convert(ref, s);                                   // a source pixel of the instantiation's type
    color_convert(s, d);
    pixel<std::uint8_t, layout<dcs>> canon; color_convert(s, canon);      // the same conversion into the canonical layout of the destination colour space
    if (!same_rgb(d, canon)) { if (bad++ < 3) std::printf("reference rgb (%d,%d,%d): colour channels (by name) differ from the canonical-layout conversion\n", a, b, c); }
    if (!boost::mp11::mp_contains<color_space_type<SRCP>::type, alpha_t>::value && !alpha_max(d)) bada++;
  }
  bad += from_rgba_check<SRCP, DSTP>();
  { // float pixels: cmyk black -> rgb black, cmyk white -> rgb white, rgb8 -> cmyk32f -> rgb8 is the identity on a grid
    cmyk32f_pixel_t kb(0.f, 0.f, 0.f, 1.f), kw(0.f, 0.f, 0.f, 0.f); rgb8_pixel_t r1, r2; color_convert(kb, r1); color_convert(kw, r2);
    if (r1 != rgb8_pixel_t(0, 0, 0)) REPRODUCED("cmyk32f black -> rgb8 (%d,%d,%d), expected (0,0,0)", (int)r1[0], (int)r1[1], (int)r1[2]);
    if (r2 != rgb8_pixel_t(255, 255, 255)) REPRODUCED("cmyk32f white -> rgb8 (%d,%d,%d), expected (255,255,255)", (int)r2[0], (int)r2[1], (int)r2[2]);
    for (int a = 0; a < 256; a += 51) for (int b = 0; b < 256; b += 51) for (int c = 0; c < 256; c += 51) { rgb8_pixel_t p(a, b, c), q; cmyk32f_pixel_t k; color_convert(p, k); color_convert(k, q);
      if (std::abs((int)q[0] - a) > 1 || std::abs((int)q[1] - b) > 1 || std::abs((int)q[2] - c) > 1) REPRODUCED("rgb8 (%d,%d,%d) -> cmyk32f -> rgb8 gives (%d,%d,%d)", a, b, c, (int)q[0], (int)q[1], (int)q[2]); } }
  { // 16-bit and float channels: luminance is within two units of .30 r + .59 g + .11 b, white -> white, black -> black, monotone on a grid
    const int G[] = {0, 1, 255, 256, 4660, 32767, 32768, 65279, 65534, 65535}; long bad16 = 0;
    for (int r : G) for (int g : G) for (int b : G) { rgb16_pixel_t p(r, g, b); gray16_pixel_t q; color_convert(p, q); double want = 0.30 * r + 0.59 * g + 0.11 * b;
      if (std::abs((double)q[0] - want) > 2.0) { if (!bad16++) std::printf("rgb16 (%d,%d,%d) -> gray16 %d, expected about %.2f\n", r, g, b, (int)q[0], want); }
      rgb16_pixel_t p2(r, g, b == 65535 ? b : b + 1); gray16_pixel_t q2; color_convert(p2, q2); if (q2[0] < q[0]) { if (!bad16++) std::printf("rgb16 luminance not monotone in blue at (%d,%d,%d)\n", r, g, b); }
      cmyk16_pixel_t k; color_convert(p, k); gray16_pixel_t q3; color_convert(k, q3); (void)q3;
      rgb32f_pixel_t pf(r / 65535.f, g / 65535.f, b / 65535.f); gray32f_pixel_t qf; color_convert(pf, qf); if (std::abs((double)qf[0] * 65535.0 - want) > 2.0) { if (!bad16++) std::printf("rgb32f luminance off at (%d,%d,%d)\n", r, g, b); } }
    gray8_pixel_t w8; color_convert(rgb16_pixel_t(65535, 65535, 65535), w8); if (w8[0] != 255) { if (!bad16++) std::printf("rgb16 white -> gray8 %d\n", (int)w8[0]); }
    if (bad16) REPRODUCED("%ld 16-bit / float luminance results are off (see above)", bad16); }
  if (bad) REPRODUCED("%ld pixels: color_convert into this layout does not pair channels by colour name / from rgba is not the conversion of the premultiplied rgb", bad);
  if (bada) REPRODUCED("%ld pixels: alpha not set to max when converting from a colour space without alpha", bada);
  NOT_REPRODUCED("conversions agree with the canonical-layout conversion"); }
'''


def unit(name, src, dst, checks, tier='quick'):
    return Unit('cc.' + name, 'C09', C, extracts=[x for x in X_ALL if x.ident in NEEDED[name] or x.ident in ('invert', 'div255', 'mul_u8', 'lum_u8', 'lum_guard')],
                checks=checks, insts=[(name, tier, {'T_SRCP': src, 'T_DSTP': dst})], probe_includes=['boost/gil.hpp'], probe=PROBE, probe_pre=PROBE_PRE,
                replay=REPLAY, assumed=['8-bit to 8-bit channel_convert is the identity (C06 conv.u8_u8)', 'pixel(v0,...,vn) stores its arguments in memory order (pixel.hpp / color_base.hpp constructors, C05)'])


BASE = [Check('invert', 'h_invert', enforce='channel_invert')]
NEEDED = {}
UNITS = []


def add(name, src, dst, bodies, checks, tier='quick'):
    NEEDED[name] = bodies
    # unselected bodies: give the holes an empty stub by removing the functions that need them via SEL macros
    UNITS.append(unit(name, src, dst, BASE + checks, tier))


FL = ['--conversion-check']
add('rgb_gray', 'rgb8_pixel_t', 'gray8_pixel_t', ['rgb_to_gray'],
    [Check('lum', 'hz_lum', engine='Z', inputs=('red', 'green', 'blue')), Check('lum_mono', 'h_lum_mono', engine='Z', inputs=('r', 'r2', 'g', 'b')),
     Check('rgb_to_gray', 'h_rgb_to_gray_is_lum', engine='Z')])
add('bgr_gray', 'bgr8_pixel_t', 'gray8_pixel_t', ['rgb_to_gray'], [Check('rgb_to_gray', 'h_rgb_to_gray_is_lum', engine='Z')])
add('gray_rgb', 'gray8_pixel_t', 'rgb8_pixel_t', ['gray_to_rgb'], [Check('gray_to_rgb', 'h_gray_to_rgb', enforce='gray_to_rgb')])
add('gray_bgr', 'gray8_pixel_t', 'bgr8_pixel_t', ['gray_to_rgb'], [Check('gray_to_rgb', 'h_gray_to_rgb', enforce='gray_to_rgb')])
add('rgb_cmyk', 'rgb8_pixel_t', 'cmyk8_pixel_t', ['rgb_to_cmyk'], [Check('rgb_to_cmyk', 'h_rgb_to_cmyk', enforce='rgb_to_cmyk', replace=['channel_invert'], flags=FL + ['--float-overflow-check', '--nan-check'])])
add('cmyk_rgb', 'cmyk8_pixel_t', 'rgb8_pixel_t', ['cmyk_to_rgb'], [Check('cmyk_to_rgb', 'h_cmyk_to_rgb', enforce='cmyk_to_rgb', replace=['channel_invert', 'channel_multiply'], object_bits=12)])
add('cmyk_gray', 'cmyk8_pixel_t', 'gray8_pixel_t', ['cmyk_to_gray'], [Check('cmyk_to_gray', 'h_cmyk_to_gray', enforce='cmyk_to_gray', replace=['channel_invert', 'lum_u8'], timeout=300, object_bits=12)])
for dl in ('rgba', 'bgra', 'argb', 'abgr'):
    add('rgb_' + dl, 'rgb8_pixel_t', dl + '8_pixel_t', ['to_rgba'], [Check('to_rgba', 'h_to_rgba', enforce='to_rgba')])
    add('gray_' + dl, 'gray8_pixel_t', dl + '8_pixel_t', ['to_rgba'], [Check('to_rgba', 'h_to_rgba', enforce='to_rgba')], tier='quick' if dl in ('bgra', 'argb') else 'thorough')
add('bgr_argb', 'bgr8_pixel_t', 'argb8_pixel_t', ['to_rgba'], [Check('to_rgba', 'h_to_rgba', enforce='to_rgba')])
for sl in ('rgba', 'abgr'):
    add(sl + '_bgr', sl + '8_pixel_t', 'bgr8_pixel_t', ['from_rgba'], [Check('from_rgba', 'h_from_rgba', enforce='from_rgba', replace=['channel_multiply'], timeout=300, flags=['--z3'])])
for sl in ('rgba', 'abgr', 'bgra'):
    add(sl + '_cmyk', sl + '8_pixel_t', 'cmyk8_pixel_t', ['from_rgba'], [Check('from_rgba', 'h_from_rgba', enforce='from_rgba', replace=['channel_multiply', 'rgb_to_cmyk_c'], timeout=300, flags=['--z3'])])

# ---------------------------------------------------------------------------------------------------------------------------------------
# detail::alpha_or_max_impl(p, false_type): the alpha given to a destination when the source colour space has none
X_AOM = [X('aom_noalpha', CC, r'auto alpha_or_max_impl\(Pixel const&, std::false_type\) -> typename channel_type<Pixel>::type\s*\{', count=1,
           rules=[('R8.ch_max', r'channel_traits<typename channel_type<Pixel>::type>::max_value\(\)', 'SRC_CH_MAXV', False),
                  ('R8.nl_max', r'\(std::numeric_limits<typename channel_type<Pixel>::type>::max\)\(\)', 'SRC_NUMERIC_LIMITS_MAX', False)])]
AOM_C = r'''
typedef SRC_CH_T channel_t;
channel_t alpha_or_max_noalpha(void)
__CPROVER_assigns()
__CPROVER_ensures(RET == (channel_t)SRC_CH_MAXV)          /* converting to rgba sets alpha to max: the maximum of the channel's RANGE (1.0 for float32_t, not the largest float) */
@@aom_noalpha@@
#ifndef VERIF_NATIVE
void h_alpha_or_max(void){ alpha_or_max_noalpha(); __CPROVER_assert(0, "VACUITY"); }
#endif
'''
PROBE_AOM = r'''
  using ch_t = channel_type<SRCP>::type; using base_t = base_channel_type<ch_t>::type;
  P_TYPE("SRC_CH_T", base_t); P_VAL("SRC_CH_MAXV", (base_t)channel_traits<ch_t>::max_value()); P_VAL("SRC_NUMERIC_LIMITS_MAX", (base_t)(std::numeric_limits<ch_t>::max)());
'''
REPLAY_AOM = r'''
#include <boost/gil.hpp>
#include "vreplay.hpp"
using namespace boost::gil;
#include "inst.hpp"
int main(int argc, char** argv){ vr::parse(argc, argv);
  using ch_t = channel_type<SRCP>::type; SRCP s; static_fill(s, channel_traits<ch_t>::max_value());
  pixel<ch_t, rgba_layout_t> d; color_convert(s, d);
  if (get_color(d, alpha_t()) != channel_traits<ch_t>::max_value()) REPRODUCED("converting a pixel without alpha to rgba gives alpha %g, expected the channel maximum %g", (double)get_color(d, alpha_t()), (double)channel_traits<ch_t>::max_value());
  rgba8_pixel_t d8; color_convert(s, d8); if (get_color(d8, alpha_t()) != 255) REPRODUCED("converting to rgba8 gives alpha %d, expected 255", (int)get_color(d8, alpha_t()));
  NOT_REPRODUCED("alpha is set to the channel maximum"); }
'''

for _n, _t in (('gray8', 'gray8_pixel_t'), ('rgb16', 'rgb16_pixel_t'), ('rgb32f', 'rgb32f_pixel_t'), ('cmyk32f', 'cmyk32f_pixel_t'), ('gray32f', 'gray32f_pixel_t')):
    UNITS.append(Unit('alpha_or_max.' + _n, 'C09', AOM_C, extracts=X_AOM, replay=REPLAY_AOM, probe=PROBE_AOM, probe_includes=['boost/gil.hpp', 'limits'],
                      insts=[(_n, 'quick', {'T_SRCP': _t})], checks=[Check('alpha_or_max', 'h_alpha_or_max', enforce='alpha_or_max_noalpha', flags=['--nan-check'])],
                      assumed=['alpha_or_max dispatches on whether the colour space contains alpha_t (mp_contains); the probe evaluates channel_traits<>::max_value() and numeric_limits<>::max() of the channel type with g++']))
# round trip rgb -> cmyk -> rgb, one cell per black level
NEEDED['roundtrip'] = ['rgb_to_cmyk', 'cmyk_to_rgb']
UNITS.append(Unit('cc.roundtrip', 'C09', C.replace('IDX_dst_red', 'IDX_src_red').replace('IDX_dst_green', 'IDX_src_green').replace('IDX_dst_blue', 'IDX_src_blue') if False else C,
                  extracts=[x for x in X_ALL if x.ident in ('rgb_to_cmyk', 'cmyk_to_rgb', 'invert', 'div255', 'mul_u8', 'lum_u8')],
                  checks=[Check('roundtrip', 'h_roundtrip', engine='D', partition=('KCELL', list(range(0, 256, 1))), flags=FL, timeout=120, inputs=(), defines=['ROUNDTRIP_UNIT'])],
                  insts=[('rgb_cmyk_rgb', 'quick', {'T_SRCP': 'rgb8_pixel_t', 'T_DSTP': 'cmyk8_pixel_t'})], probe_includes=['boost/gil.hpp'], probe=PROBE, probe_pre=PROBE_PRE,
                  replay=None, assumed=['partition: the 256 cells 255 - max(r,g,b) == k cover all rgb8 pixels']))

META = dict(not_covered=['16-bit / float pixel instantiations (only 8-bit pixels are lowered)', 'default_color_converter_impl<C,C> / <rgba_t,rgba_t> (static_for_each over channel_convert: template recursion, C05/C06)',
                         'color_convert_deref_fn / copy_and_convert_pixels (by construction color_convert per pixel; not extracted)',
                         'gray <-> cmyk neutrals are not part of the property statement (gray_t -> cmyk_t maps gray v to black v)'])
