"""C02 — view transformations are exact, copy-free coordinate remappings.

Functions under contract (bodies / mem-initialiser expressions cut from the headers on every run):
  image_view_factory.hpp: flipped_up_down_view, flipped_left_right_view, transposed_view, rotated90cw_view,
      rotated90ccw_view, rotated180_view, subimage_view (both overloads), subsampled_view
  locator.hpp: memory_based_2d_locator(loc, y_step) and (loc, x_step, y_step, transpose) [initialiser expressions],
      offset, operator+=, row_size, pixel_size
  image_view.hpp: image_view::xy_at(x, y)
Ghost model: a view is (w, h, locator) and a memory-based locator is (address a, pixel stride sx, row stride sy) in
memory units (DESIGN 3.6); ADDR(v, x, y) = a + y*sy + x*sx.  Each factory contract says: documented dimensions, and
for a ghost coordinate (x, y) inside the result, ADDR(result, x, y) == ADDR(src, fx(x,y), fy(x,y)) with the documented
formula - for ARBITRARY source strides (negative, transposed, stepped), hence closed under composition; equality of
addresses is what "shallow" means (a write through the derived view hits exactly that source pixel).
"""
from vclib.core import X, Check, Unit
from vclib import extract as ex
from .C03 import X_LOC, R_LOC, W_LOC

F = 'image_view_factory.hpp'
LOC = 'locator.hpp'
VIEW = 'image_view.hpp'


def lower_ctors(body):
    """R12: view / locator constructor calls -> ghost constructors, by number of arguments"""
    n_total = 0

    def loc_fn(a):
        if len(a) == 2:
            return 'loc_ctor2(%s, %s)' % tuple(a)
        if len(a) == 3:
            return 'loc_ctor4(%s, %s, %s, 0)' % tuple(a)      # bool transpose = false (default argument)
        if len(a) == 4:
            return 'loc_ctor4(%s, %s, %s, %s)' % tuple(a)
        raise ex.ExtractError('xy_locator constructor with %d arguments' % len(a))

    def view_fn(a):
        if len(a) == 2:
            return 'view_ctor_dims(%s, %s)' % tuple(a)
        if len(a) == 3:
            return 'view_ctor_wh(%s, %s, %s)' % tuple(a)
        raise ex.ExtractError('view constructor with %d arguments' % len(a))

    def xy_fn(a):
        if len(a) == 2:
            return 'view_xy_at(src, %s, %s)' % tuple(a)
        if len(a) == 1:
            return 'view_xy_at(src, (%s).x, (%s).y)' % (a[0], a[0])
        raise ex.ExtractError('xy_at with %d arguments' % len(a))
    body, n = ex.rewrite_calls(body, r'typename (?:RView|view_t)::xy_locator\(', loc_fn)
    n_total += n
    body, n = ex.rewrite_calls(body, r'\bsrc\.xy_at\(', xy_fn)
    n_total += n
    body, n = ex.rewrite_calls(body, r'(?<![\w:.])(?:RView|view_t|View)\(', view_fn)
    n_total += n
    return body, n_total


R_F = [('R6.drop_using', r'using (?:RView|view_t)\s*=[^;]+;', '', False),
       ('R12.ctors', lower_ctors, None, True),
       ('R11.dims', r'\bsrc\.dimensions\(\)', 'view_dimensions(src)', False),
       ('R11.w', r'\bsrc\.width\(\)', 'src->w', False), ('R11.h', r'\bsrc\.height\(\)', 'src->h', False),
       ('R14.assert', r'BOOST_ASSERT\(', 'PRECONDITION(', False),
       ('R4.true', r'\btrue\b', '1', False)]


def fac(name, anchor, nth=0):
    return X(name, F, anchor, nth=nth, rules=R_F)


# a default-constructed x-iterator's memunit step has nothing to do with the source locator: ghost field `nat`, unconstrained
R_CTOR4 = [('R11.row', r'loc\.row_size\(\)', 'ROW_SIZE(loc)', False), ('R11.pix', r'loc\.pixel_size\(\)', 'PIXEL_SIZE(loc)', False),
           ('R11.nat', r'memunit_step\(x_iterator\(\)\)', 'loc->nat', False)]
X_FAC = [
    fac('flipped_up_down_view', r'inline auto flipped_up_down_view\(View const& src\)\s*->[^{]*\{'),
    fac('flipped_left_right_view', r'inline auto flipped_left_right_view\(View const& src\)\s*->[^{]*\{'),
    fac('transposed_view', r'inline auto transposed_view\(View const& src\)\s*->[^{]*\{'),
    fac('rotated90cw_view', r'inline auto rotated90cw_view\(View const& src\)\s*->[^{]*\{'),
    fac('rotated90ccw_view', r'inline auto rotated90ccw_view\(View const& src\)\s*->[^{]*\{'),
    fac('rotated180_view', r'inline auto rotated180_view\(View const& src\)\s*->[^{]*\{'),
    fac('subimage_view_pt', r'inline View subimage_view\(\s*View const& src,\s*typename View::point_t const& topleft,\s*typename View::point_t const& dimensions\)\s*\{'),
    fac('subimage_view_xy', r'inline View subimage_view\(View const& src,\s*typename View::coord_t x_min,\s*typename View::coord_t y_min,\s*typename View::coord_t width,\s*typename View::coord_t height\)\s*\{'),
    fac('subsampled_view', r'auto subsampled_view\(View const& src, typename View::coord_t x_step, typename View::coord_t y_step\)\s*->[^{]*\{'),
    X('view_xy_at', VIEW, r'auto xy_at\(x_coord_t x, y_coord_t y\) const -> xy_locator\s*\{', count=1,
      within=None, rules=[('R11.loc_plus', r'return _pixels \+ point_t\(x, y\);', 'gloc_t r__ = self->loc; point_t d__; d__.x = x; d__.y = y; loc_pluseq(&r__, d__); return r__;', True),
             ('R14.assert', r'BOOST_ASSERT\(', 'PRECONDITION(', False), ('R11.w', r'\bwidth\(\)', 'self->w', False), ('R11.h', r'\bheight\(\)', 'self->h', False)]),
    # mem-initialiser expressions of the two stepping constructors of memory_based_2d_locator
    X('ctor2_ys', LOC, r'memory_based_2d_locator\(const memory_based_2d_locator<SI>& loc, coord_t y_step\) : _p\(loc\.x\(\), (.*?)\) \{\}', kind='expr',
      rules=[('R11.row', r'loc\.row_size\(\)', 'ROW_SIZE(loc)', True)]),
    # the two expressions are cut independently of each other's text (first: up to the `),` that ends the make_step_iterator call's line; second: the rest)
    X('ctor4_xs', LOC, r'bool transpose=false\)\s*: _p\(make_step_iterator\(loc\.x\(\),([^\n]*?)\),\s*\n', kind='expr', rules=R_CTOR4),
    X('ctor4_ys', LOC, r'bool transpose=false\)\s*: _p\(make_step_iterator\(loc\.x\(\),[^\n]*\),\s*\n\s*(.*?) \) \{\}', kind='expr', rules=R_CTOR4),
] + [x for x in X_LOC if x.ident in ('loc_offset', 'loc_pluseq', 'loc_row_size', 'loc_pixel_size')]

C = r'''
typedef ptrdiff_t x_coord_t; typedef ptrdiff_t y_coord_t; typedef ptrdiff_t coord_t; typedef point_t difference_type;
typedef struct { int64_t a, sx, sy, nat; } gloc_t;            /* ghost memory-based locator (nat: memunit step of a default-constructed x-iterator, unconstrained) */
typedef struct { ptrdiff_t w, h; gloc_t loc; } gview_t;        /* ghost view: dimensions + locator of pixel (0,0) */
#define MEMUNIT_ADVANCE(pa, d) (*(pa) += (d))
#define MEMUNIT_STEP_Y(self) ((self)->sy)
#define MEMUNIT_STEP_X(self) ((self)->sx)
#define PRECONDITION(c) __CPROVER_assert(c, "BOOST_ASSERT precondition of the library")
#define SMAX ((int64_t)1 << 40)
#define CMAX ((int64_t)1 << 20)
ptrdiff_t ROW_SIZE(const gloc_t* self) @@loc_row_size@@
ptrdiff_t PIXEL_SIZE(const gloc_t* self) @@loc_pixel_size@@
ptrdiff_t loc_offset(const gloc_t* self, x_coord_t x, y_coord_t y) @@loc_offset@@
void loc_pluseq(gloc_t* self, point_t d) @@loc_pluseq@@
/* memory_based_2d_locator(loc, y_step) : _p(loc.x(), <ctor2_ys>)  - the y-iterator keeps loc.x() (address and pixel step) and gets the new row step */
gloc_t loc_ctor2(gloc_t loc_, coord_t y_step) { const gloc_t* loc = &loc_; gloc_t r; r.a = loc->a; r.sx = loc->sx; r.sy = @@ctor2_ys@@; return r; }
/* memory_based_2d_locator(loc, x_step, y_step, transpose) : _p(make_step_iterator(loc.x(), <ctor4_xs>), <ctor4_ys>) */
gloc_t loc_ctor4(gloc_t loc_, coord_t x_step, coord_t y_step, _Bool transpose) { const gloc_t* loc = &loc_; gloc_t r; r.a = loc->a; r.sx = @@ctor4_xs@@; r.sy = @@ctor4_ys@@; return r; }
/* image_view(dims, loc) / image_view(w, h, loc) store their arguments */
gview_t view_ctor_dims(point_t dims, gloc_t loc) { gview_t v; v.w = dims.x; v.h = dims.y; v.loc = loc; return v; }
gview_t view_ctor_wh(ptrdiff_t w, ptrdiff_t h, gloc_t loc) { gview_t v; v.w = w; v.h = h; v.loc = loc; return v; }
point_t view_dimensions(const gview_t* v) { point_t p; p.x = v->w; p.y = v->h; return p; }
gloc_t view_xy_at(const gview_t* self, x_coord_t x, y_coord_t y) @@view_xy_at@@

gview_t flipped_up_down_view(const gview_t* src) @@flipped_up_down_view@@
gview_t flipped_left_right_view(const gview_t* src) @@flipped_left_right_view@@
gview_t transposed_view(const gview_t* src) @@transposed_view@@
gview_t rotated90cw_view(const gview_t* src) @@rotated90cw_view@@
gview_t rotated90ccw_view(const gview_t* src) @@rotated90ccw_view@@
gview_t rotated180_view(const gview_t* src) @@rotated180_view@@
gview_t subimage_view_pt(const gview_t* src, point_t topleft, point_t dimensions) @@subimage_view_pt@@
gview_t subimage_view_xy(const gview_t* src, coord_t x_min, coord_t y_min, coord_t width, coord_t height) @@subimage_view_xy@@
gview_t subsampled_view(const gview_t* src, coord_t x_step, coord_t y_step) @@subsampled_view@@

#ifndef VERIF_NATIVE
#define ADDR(v, x, y) ((v).loc.a + (y) * (v).loc.sy + (x) * (v).loc.sx)
#define VIEWOK(v) (0 <= (v).w && (v).w <= CMAX && 0 <= (v).h && (v).h <= CMAX && -SMAX <= (v).loc.a && (v).loc.a <= SMAX && -SMAX <= (v).loc.sx && (v).loc.sx <= SMAX && -SMAX <= (v).loc.sy && (v).loc.sy <= SMAX)
#define INSIDE(v, x, y) (0 <= (x) && (x) < (v).w && 0 <= (y) && (y) < (v).h)
#define FACTORY1(name, RW, RH, FX, FY, text) \
void hz_##name(void){ gview_t s; ptrdiff_t x, y; __CPROVER_assume(VIEWOK(s)); \
  gview_t r = name(&s); __CPROVER_assume(INSIDE(r, x, y)); \
  __CPROVER_assert(r.w == (RW) && r.h == (RH), #name ".ensures: documented dimensions"); \
  __CPROVER_assert(INSIDE(s, (FX), (FY)), #name ".ensures: the source coordinate lies inside the source view"); \
  __CPROVER_assert(ADDR(r, x, y) == ADDR(s, (FX), (FY)), #name ".ensures: " text); \
  __CPROVER_assert(0, "VACUITY"); }
FACTORY1(flipped_up_down_view, s.w, s.h, x, s.h - 1 - y, "pixel (x,y) is source pixel (x, h-1-y), same address (shallow)")
FACTORY1(flipped_left_right_view, s.w, s.h, s.w - 1 - x, y, "pixel (x,y) is source pixel (w-1-x, y)")
FACTORY1(transposed_view, s.h, s.w, y, x, "pixel (x,y) is source pixel (y, x)")
FACTORY1(rotated90cw_view, s.h, s.w, y, s.h - 1 - x, "rotated90cw(v)(x,y) = v(y, h-1-x)")
FACTORY1(rotated90ccw_view, s.h, s.w, s.w - 1 - y, x, "rotated90ccw(v)(x,y) = v(w-1-y, x)")
FACTORY1(rotated180_view, s.w, s.h, s.w - 1 - x, s.h - 1 - y, "rotated180(v)(x,y) = v(w-1-x, h-1-y)")
void hz_subimage_view_xy(void){ gview_t s; ptrdiff_t x, y, x0, y0, w, h; __CPROVER_assume(VIEWOK(s));
  __CPROVER_assume(0 <= x0 && x0 <= s.w && 0 <= y0 && y0 <= s.h && 0 <= w && w <= s.w - x0 && 0 <= h && h <= s.h - y0);
  gview_t r = subimage_view_xy(&s, x0, y0, w, h); __CPROVER_assume(INSIDE(r, x, y));
  __CPROVER_assert(r.w == w && r.h == h, "subimage_view.ensures: requested dimensions");
  __CPROVER_assert(INSIDE(s, x0 + x, y0 + y), "subimage_view.ensures: stays inside the source");
  __CPROVER_assert(ADDR(r, x, y) == ADDR(s, x0 + x, y0 + y), "subimage_view.ensures: pixel (x,y) is source pixel (x0+x, y0+y)");
  __CPROVER_assert(r.loc.sx == s.loc.sx && r.loc.sy == s.loc.sy, "subimage_view.ensures: same strides");
  __CPROVER_assert(0, "VACUITY"); }
void hz_subimage_view_pt(void){ gview_t s; ptrdiff_t x, y; point_t tl, dm; __CPROVER_assume(VIEWOK(s));
  __CPROVER_assume(0 <= tl.x && tl.x <= s.w && 0 <= tl.y && tl.y <= s.h && 0 <= dm.x && dm.x <= s.w - tl.x && 0 <= dm.y && dm.y <= s.h - tl.y);
  gview_t r = subimage_view_pt(&s, tl, dm); __CPROVER_assume(INSIDE(r, x, y));
  __CPROVER_assert(r.w == dm.x && r.h == dm.y, "subimage_view(point).ensures: requested dimensions");
  __CPROVER_assert(ADDR(r, x, y) == ADDR(s, tl.x + x, tl.y + y), "subimage_view(point).ensures: pixel (x,y) is source pixel (x0+x, y0+y)");
  __CPROVER_assert(0, "VACUITY"); }
void hz_subsampled_view(void){ gview_t s; ptrdiff_t x, y, xs, ys; __CPROVER_assume(VIEWOK(s)); __CPROVER_assume(1 <= xs && xs <= CMAX && 1 <= ys && ys <= CMAX);
  gview_t r = subsampled_view(&s, xs, ys);
  __CPROVER_assert(r.w * xs >= s.w && (r.w == 0 || (r.w - 1) * xs < s.w), "subsampled_view.ensures: width is ceil(w / x_step)");
  __CPROVER_assert(r.h * ys >= s.h && (r.h == 0 || (r.h - 1) * ys < s.h), "subsampled_view.ensures: height is ceil(h / y_step)");
  __CPROVER_assume(INSIDE(r, x, y));
  __CPROVER_assert(INSIDE(s, x * xs, y * ys), "subsampled_view.ensures: x*x_step < w and y*y_step < h");
  __CPROVER_assert(ADDR(r, x, y) == ADDR(s, x * xs, y * ys), "subsampled_view.ensures: subsampled(v,sx,sy)(x,y) = v(x*sx, y*sy)");
  __CPROVER_assert(0, "VACUITY"); }
/* algebra of the transformations, over the real bodies: a composition equals the identity / another transformation when it
   has the same dimensions, the same origin address and the same strides */
#define SAMEVIEW(p, q) ((p).w == (q).w && (p).h == (q).h && (p).loc.sx == (q).loc.sx && (p).loc.sy == (q).loc.sy && ((p).w == 0 || (p).h == 0 || (p).loc.a == (q).loc.a))
void hz_algebra(void){ gview_t s; __CPROVER_assume(VIEWOK(s)); __CPROVER_assume(s.w <= 1024 && s.h <= 1024 && -1024 <= s.loc.sx && s.loc.sx <= 1024 && -(1 << 20) <= s.loc.sy && s.loc.sy <= (1 << 20));
  gview_t a = flipped_up_down_view(&s); gview_t aa = flipped_up_down_view(&a);
  __CPROVER_assert(SAMEVIEW(aa, s), "flipped_up_down twice is the identity");
  gview_t b = flipped_left_right_view(&s); gview_t bb = flipped_left_right_view(&b);
  __CPROVER_assert(SAMEVIEW(bb, s), "flipped_left_right twice is the identity");
  gview_t t = transposed_view(&s); gview_t tt = transposed_view(&t);
  __CPROVER_assert(SAMEVIEW(tt, s), "transposed twice is the identity");
  gview_t ab = flipped_left_right_view(&a); gview_t r180 = rotated180_view(&s);
  __CPROVER_assert(SAMEVIEW(ab, r180), "rotated180 == flipped_left_right(flipped_up_down)");
  gview_t c = rotated90cw_view(&s); gview_t cc = rotated90ccw_view(&c);
  __CPROVER_assert(SAMEVIEW(cc, s), "rotated90ccw(rotated90cw(v)) == v");
  gview_t c2 = rotated90cw_view(&c);
  __CPROVER_assert(SAMEVIEW(c2, r180), "rotated90cw twice == rotated180");
  gview_t c3 = rotated90cw_view(&c2); gview_t c4 = rotated90cw_view(&c3);
  __CPROVER_assert(SAMEVIEW(c4, s), "rotated90cw four times is the identity");
  __CPROVER_assert(0, "VACUITY"); }
#endif
'''

REPLAY = r'''
// native replay: every transformation on real views (interleaved with row padding, planar, and a stepped / transposed
// source so that compositions are exercised), compared pixel address by pixel address with the documented formula
#include <boost/gil.hpp>
#include <vector>
#include "vreplay.hpp"
using namespace boost::gil;
template <typename V, typename S> static int same(V const& r, S const& s, long x, long y, long fx, long fy, const char* what){
  if (&r(x,y)[0] != &s(fx,fy)[0]) { std::printf("REPRODUCED: %s: pixel (%ld,%ld) is not source pixel (%ld,%ld) (off by %td bytes)\n", what, x, y, fx, fy, (const unsigned char*)&r(x,y)[0] - (const unsigned char*)&s(fx,fy)[0]); return 1; } return 0; }
template <typename S> static int all(S const& s, long xs, long ys, long x0, long y0, long sw, long sh){
  long w = s.width(), h = s.height(); int bad = 0;
  { auto r = flipped_up_down_view(s); if (r.width()!=w||r.height()!=h) bad=1; for(long y=0;y<h&&!bad;y++)for(long x=0;x<w&&!bad;x++) bad|=same(r,s,x,y,x,h-1-y,"flipped_up_down_view"); }
  { auto r = flipped_left_right_view(s); for(long y=0;y<h&&!bad;y++)for(long x=0;x<w&&!bad;x++) bad|=same(r,s,x,y,w-1-x,y,"flipped_left_right_view"); }
  { auto r = transposed_view(s); if (r.width()!=h||r.height()!=w) bad=1; for(long y=0;y<w&&!bad;y++)for(long x=0;x<h&&!bad;x++) bad|=same(r,s,x,y,y,x,"transposed_view"); }
  { auto r = rotated90cw_view(s); if (r.width()!=h||r.height()!=w) bad=1; for(long y=0;y<w&&!bad;y++)for(long x=0;x<h&&!bad;x++) bad|=same(r,s,x,y,y,h-1-x,"rotated90cw_view"); }
  { auto r = rotated90ccw_view(s); for(long y=0;y<w&&!bad;y++)for(long x=0;x<h&&!bad;x++) bad|=same(r,s,x,y,w-1-y,x,"rotated90ccw_view"); }
  { auto r = rotated180_view(s); for(long y=0;y<h&&!bad;y++)for(long x=0;x<w&&!bad;x++) bad|=same(r,s,x,y,w-1-x,h-1-y,"rotated180_view"); }
  if (x0+sw<=w && y0+sh<=h) { auto r = subimage_view(s,x0,y0,sw,sh); if (r.width()!=sw||r.height()!=sh) bad=1; for(long y=0;y<sh&&!bad;y++)for(long x=0;x<sw&&!bad;x++) bad|=same(r,s,x,y,x0+x,y0+y,"subimage_view"); }
  { auto r = subsampled_view(s,xs,ys); if (r.width()!=(w+xs-1)/xs||r.height()!=(h+ys-1)/ys) { std::printf("REPRODUCED: subsampled_view dimensions %td x %td for %ld x %ld step (%ld,%ld)\n", r.width(), r.height(), w, h, xs, ys); bad=1; }
    for(long y=0;y<r.height()&&!bad;y++)for(long x=0;x<r.width()&&!bad;x++) bad|=same(r,s,x,y,x*xs,y*ys,"subsampled_view"); }
  return bad; }
int main(int argc, char** argv){ vr::parse(argc, argv);
  long xs = vr::i64("xs", 2) % 7 + 0, ys = vr::i64("ys", 3) % 7; if (xs < 1) xs = 1; if (ys < 1) ys = 1;
  long x0 = vr::i64("x0", 1) % 3, y0 = vr::i64("y0", 2) % 3, sw = vr::i64("w", 3) % 4, sh = vr::i64("h", 2) % 4; if (x0<0)x0=0; if(y0<0)y0=0; if(sw<0)sw=0; if(sh<0)sh=0;
  int bad = 0;
  for (long W = 0; W <= 7 && !bad; W++) for (long H = 0; H <= 6 && !bad; H++) {          // empty shapes included
    std::vector<unsigned char> buf((3*W + 5) * H + 8);
    rgb8_view_t v = interleaved_view(W, H, (rgb8_pixel_t*)buf.data(), 3*W + 5);
    bad |= all(v, xs, ys, x0, y0, sw, sh);
    if (!bad) bad |= all(rotated90cw_view(v), xs, ys, x0, y0, sw, sh);                 // transposed, negative step source
    if (!bad) bad |= all(subsampled_view(flipped_left_right_view(v), 2, 1), xs, ys, x0, y0, sw, sh);
    std::vector<unsigned char> pl(3 * (W + 3) * H);
    auto p = planar_rgb_view(W, H, pl.data(), pl.data() + (W+3)*H, pl.data() + 2*(W+3)*H, W + 3);
    if (!bad) bad |= all(p, xs, ys, x0, y0, sw, sh);
  }
  if (bad) return 1;
  NOT_REPRODUCED("all transformations match their coordinate formulas on the sampled views"); }
'''

names = ['flipped_up_down_view', 'flipped_left_right_view', 'transposed_view', 'rotated90cw_view', 'rotated90ccw_view', 'rotated180_view',
         'subimage_view_xy', 'subimage_view_pt', 'subsampled_view']
UNITS = [
    Unit('factory', 'C02', C, extracts=X_FAC, replay=REPLAY,
         checks=[Check(n, 'hz_' + n, engine='Z', timeout=300, inputs=('x', 'y', 'xs', 'ys', 'x0', 'y0', 'w', 'h')) for n in names] +
                [Check('algebra', 'hz_algebra', engine='Z', timeout=600)],
         preconditions=['views: 0 <= w,h <= 2^20, |address|, |strides| <= 2^40 memory units; subsampling steps 1..2^20; sub-rectangle inside the source'],
         assumed=['image_view(dims, loc) / image_view(w, h, loc) store their arguments (one-line constructors)',
                  'make_step_iterator(it, step) yields an iterator at the same address whose step is `step` (step_iterator.hpp, three one-line overloads)',
                  'memunit_advance / memunit_step of the underlying iterators follow the address model (see C03)']),
]

# ---------------------------------------------------------------------------------------------------------------------------------------
# nth_channel_view / kth_channel_view of basic (memory-based) views: the `adjacent` dispatch predicate and both make() bodies
R_CH = [('R12.sit', r'x_iterator_t sit\(x_iterator_base_t\((.*?)\),src\.pixels\(\)\.pixel_size\(\)\);', r'gloc_t sit = step_iterator_ctor(\1, PIXEL_SIZE(&src->loc));', True),
        ('R12.view', r'return type\(src\.dimensions\(\),locator_t\(sit, src\.pixels\(\)\.row_size\(\)\)\);', 'return view_ctor_dims(view_dimensions(src), loc_from_xit(sit, ROW_SIZE(&src->loc)));', True),
        ('R6.drop_using', r'using \w+\s*=[^;]+;', '', True),
        ('R11.chan_n', r'&\(src\(0,0\)\[n\]\)', 'CHAN_ADDR(src, n)', False), ('R11.chan_k', r'&gil::at_c<K>\(src\(0,0\)\)', 'CHAN_ADDR(src, K)', False)]
R_CHT = [('R12.interleaved', r'return interleaved_view\(src\.width\(\),src\.height\(\),\(x_iterator_t\)(.*?), src\.pixels\(\)\.row_size\(\)\);', r'return interleaved_view_ch(src->w, src->h, \1, ROW_SIZE(&src->loc));', True),
         ('R6.drop_using', r'using \w+\s*=[^;]+;', '', True),
         ('R11.chan_n', r'&\(src\(0,0\)\[n\]\)', 'CHAN_ADDR(src, n)', False), ('R11.chan_k', r'&gil::at_c<K>\(src\(0,0\)\)', 'CHAN_ADDR(src, K)', False)]
R_ADJ = [('R8.is_step', r'iterator_is_step<src_x_iterator>::value', 'IS_STEP', True), ('R8.is_planar', r'is_planar<src_x_iterator>::value', 'IS_PLANAR', True),
         ('R8.nch', r'num_channels<View>::value', 'NUM_CHANNELS', True)]
X_CH = [X('nth_make_false', F, r'struct __nth_channel_view_basic<View,false> \{.*?static type make\(View const& src, int n\) \{', count=1, rules=R_CH),
        X('nth_make_true', F, r'struct __nth_channel_view_basic<View,true> \{.*?static type make\(View const& src, int n\) \{', count=1, rules=R_CHT),
        X('kth_make_false', F, r'struct __kth_channel_view_basic<K,View,false> \{.*?static type make\(View const& src\) \{', count=1, rules=R_CH),
        X('kth_make_true', F, r'struct __kth_channel_view_basic<K,View,true> \{.*?static type make\(View const& src\) \{', count=1, rules=R_CHT),
        X('nth_adjacent', F, r'struct __nth_channel_view<View,true>\s*\{.*?static constexpr bool adjacent =(.*?);', kind='expr', rules=R_ADJ),
        X('kth_adjacent', F, r'struct __kth_channel_view<K,View,true>\s*\{.*?static constexpr bool adjacent =(.*?);', kind='expr', rules=R_ADJ),
        ] + [x for x in X_LOC if x.ident in ('loc_row_size', 'loc_pixel_size')]
C_CH = r'''
typedef ptrdiff_t coord_t;
typedef struct { int64_t a, sx, sy; } gloc_t;                 /* ghost memory-based locator (address, pixel step, row step) in memory units = bytes */
typedef struct gview_s { ptrdiff_t w, h; gloc_t loc; } gview_t;
#define MEMUNIT_STEP_Y(self) ((self)->sy)
#define MEMUNIT_STEP_X(self) ((self)->sx)
#define SMAX ((int64_t)1 << 40)
#define CMAX ((int64_t)1 << 20)
ptrdiff_t ROW_SIZE(const gloc_t* self) @@loc_row_size@@
ptrdiff_t PIXEL_SIZE(const gloc_t* self) @@loc_pixel_size@@
/* address of channel c of the pixel a locator points at: a + c * sizeof(channel) for interleaved pixels; for planar pixels plane c lives at an
   arbitrary distance g_plane[c] from plane 0, and all planes share the strides (planar_pixel_iterator advances every plane pointer alike, C03) */
int64_t g_plane; int g_n;          /* ghost: the channel under consideration and, for planar pixels, the distance of its plane */
#define CH_OFF(c) (IS_PLANAR ? g_plane : (int64_t)(c) * CHAN_SIZE)
int64_t CHAN_ADDR(const gview_t* v, int c) { __CPROVER_assert(c == g_n, "ghost: the address asked for is that of the channel under consideration"); return v->loc.a + CH_OFF(c); }
gview_t view_ctor_dims(point_t dims, gloc_t loc) { gview_t v; v.w = dims.x; v.h = dims.y; v.loc = loc; return v; }
point_t view_dimensions(const gview_t* v) { point_t p; p.x = v->w; p.y = v->h; return p; }
/* memory_based_step_iterator(base, step): at the address of base, stepping by `step` memory units */
gloc_t step_iterator_ctor(int64_t base, ptrdiff_t step) { gloc_t r; r.a = base; r.sx = step; r.sy = 0; return r; }
/* memory_based_2d_locator(x_iterator xit, row_bytes) : _p(xit, row_bytes) */
gloc_t loc_from_xit(gloc_t xit, ptrdiff_t row_bytes) { gloc_t r; r.a = xit.a; r.sx = xit.sx; r.sy = row_bytes; return r; }
/* interleaved_view(w, h, channel_t* pixels, rowsize): a view over plain gray pixels - the x step is sizeof(channel) */
gview_t interleaved_view_ch(ptrdiff_t w, ptrdiff_t h, int64_t pixels, ptrdiff_t rowsize) { gview_t v; v.w = w; v.h = h; v.loc.a = pixels; v.loc.sx = CHAN_SIZE; v.loc.sy = rowsize; return v; }
gview_t nth_make_false(const gview_t* src, int n) @@nth_make_false@@
gview_t nth_make_true(const gview_t* src, int n) @@nth_make_true@@
#define K g_k
int g_k;
gview_t kth_make_false(const gview_t* src) @@kth_make_false@@
gview_t kth_make_true(const gview_t* src) @@kth_make_true@@
/* __nth_channel_view<View,true>::make / __kth_channel_view<K,View,true>::make: dispatch on the constant `adjacent` */
gview_t nth_channel_view(const gview_t* src, int n) { if (@@nth_adjacent@@) return nth_make_true(src, n); return nth_make_false(src, n); }
gview_t kth_channel_view(const gview_t* src) { if (@@kth_adjacent@@) return kth_make_true(src); return kth_make_false(src); }
#ifndef VERIF_NATIVE
#define ADDR(v, x, y) ((v).loc.a + (y) * (v).loc.sy + (x) * (v).loc.sx)
/* a view of this source type: arbitrary strides when its x iterator is a step iterator, the fixed pixel step of the iterator type otherwise */
#define VIEWOK(v) (0 <= (v).w && (v).w <= CMAX && 0 <= (v).h && (v).h <= CMAX && -SMAX <= (v).loc.a && (v).loc.a <= SMAX && -SMAX <= (v).loc.sx && (v).loc.sx <= SMAX && -SMAX <= (v).loc.sy && (v).loc.sy <= SMAX && \
                   (IS_STEP || (v).loc.sx == STATIC_XSTEP))
#define INSIDE(v, x, y) (0 <= (x) && (x) < (v).w && 0 <= (y) && (y) < (v).h)
#define PLANES_OK (-SMAX <= g_plane && g_plane <= SMAX)
void hz_nth_channel_view(void){ gview_t s; ptrdiff_t x, y; int n; __CPROVER_assume(VIEWOK(s)); __CPROVER_assume(PLANES_OK); __CPROVER_assume(0 <= n && n < NUM_CHANNELS); g_n = n;
  gview_t r = nth_channel_view(&s, n); __CPROVER_assume(INSIDE(r, x, y));
  __CPROVER_assert(r.w == s.w && r.h == s.h, "nth_channel_view.ensures: the dimensions of the source");
  __CPROVER_assert(INSIDE(s, x, y), "nth_channel_view.ensures: the source coordinate lies inside the source view");
  __CPROVER_assert(ADDR(r, x, y) == ADDR(s, x, y) + CH_OFF(n), "nth_channel_view.ensures: pixel (x,y) is channel n of source pixel (x,y), same address (shallow)");
  __CPROVER_assert(0, "VACUITY"); }
void hz_kth_channel_view(void){ gview_t s; ptrdiff_t x, y; int k; __CPROVER_assume(VIEWOK(s)); __CPROVER_assume(PLANES_OK); __CPROVER_assume(0 <= k && k < NUM_CHANNELS); g_k = k; g_n = k;
  gview_t r = kth_channel_view(&s); __CPROVER_assume(INSIDE(r, x, y));
  __CPROVER_assert(r.w == s.w && r.h == s.h, "kth_channel_view.ensures: the dimensions of the source");
  __CPROVER_assert(ADDR(r, x, y) == ADDR(s, x, y) + CH_OFF(k), "kth_channel_view.ensures: pixel (x,y) is channel K of source pixel (x,y), same address (shallow)");
  __CPROVER_assert(0, "VACUITY"); }
/* the extracted `adjacent` expression is the one the compiler used: the real nth_channel_view_type<View>::type has a step x-iterator iff !adjacent */
void h_dispatch(void){
  __CPROVER_assert(RESULT_NTH_IS_STEP == !(@@nth_adjacent@@), "nth_channel_view: the result type is the step view exactly when `adjacent` is false (extracted predicate == compiled predicate)");
  __CPROVER_assert(RESULT_KTH_IS_STEP == !(@@kth_adjacent@@), "kth_channel_view: the result type is the step view exactly when `adjacent` is false");
  __CPROVER_assert(0, "VACUITY"); }
#endif
'''
PROBE_CH_PRE = r'''
template <typename V, bool Step> struct xstep { static long get() { return 0; } };
template <typename V> struct xstep<V, false> { static long get() { return (long)memunit_step(typename V::x_iterator()); } };
'''
PROBE_CH = r'''
  typedef typename SRCV::x_iterator xit;
  P_VAL("IS_STEP", (int)iterator_is_step<xit>::value); P_VAL("IS_PLANAR", (int)is_planar<xit>::value); P_VAL("NUM_CHANNELS", (int)num_channels<SRCV>::value);
  P_VAL("CHAN_SIZE", (int)sizeof(typename channel_type<SRCV>::type)); P_VAL("STATIC_XSTEP", (xstep<SRCV, iterator_is_step<xit>::value>::get()));
  P_VAL("RESULT_NTH_IS_STEP", (int)iterator_is_step<typename nth_channel_view_type<SRCV>::type::x_iterator>::value);
  P_VAL("RESULT_KTH_IS_STEP", (int)iterator_is_step<typename kth_channel_view_type<0, SRCV>::type::x_iterator>::value);
'''
REPLAY_CH = r'''
// native replay: nth_channel_view / kth_channel_view of real views of the instantiated source type built over one buffer: direct, flipped,
// subsampled, transposed sources; every channel address compared with the source pixel's channel address
#include <boost/gil.hpp>
#include <vector>
#include "vreplay.hpp"
using namespace boost::gil;
#include "inst.hpp"
template <typename S> static int chk(S const& s, const char* what) { int bad = 0;
  for (int n = 0; n < (int)num_channels<S>::value && !bad; n++) { auto r = nth_channel_view(s, n);
    if (r.dimensions() != s.dimensions()) { std::printf("REPRODUCED: nth_channel_view dimensions differ (%s)\n", what); return 1; }
    for (long y = 0; y < s.height() && !bad; y++) for (long x = 0; x < s.width() && !bad; x++)
      if ((const void*)&r(x, y)[0] != (const void*)&s(x, y)[n]) { std::printf("REPRODUCED: nth_channel_view(%s, %d)(%ld,%ld) is not channel %d of source pixel (%ld,%ld): off by %td bytes\n", what, n, x, y, n, x, y, (const char*)&r(x, y)[0] - (const char*)&s(x, y)[n]); bad = 1; } }
  { auto r = kth_channel_view<0>(s);
    for (long y = 0; y < s.height() && !bad; y++) for (long x = 0; x < s.width() && !bad; x++)
      if ((const void*)&r(x, y)[0] != (const void*)&at_c<0>(s(x, y))) { std::printf("REPRODUCED: kth_channel_view<0>(%s)(%ld,%ld) is not channel 0 of source pixel (%ld,%ld)\n", what, x, y, x, y); bad = 1; } }
  return bad; }
template <typename V> struct make_src;
template <typename V, bool Planar = is_planar<typename V::x_iterator>::value, int N = num_channels<V>::value> struct base_view;
template <typename V, int N> struct base_view<V, false, N> { typedef typename V::value_type px; typedef typename view_type_from_pixel<px, false>::type type;
  static type make(std::vector<unsigned char>& buf, long W, long H) { buf.assign((sizeof(px) * W + 5) * H + 16, 0); return interleaved_view(W, H, (px*)buf.data(), sizeof(px) * W + 5); } };
template <typename V> struct base_view<V, true, 3> { typedef typename channel_type<V>::type ch; typedef typename view_type<ch, typename V::value_type::layout_t, true, false, true>::type type;
  static type make(std::vector<unsigned char>& buf, long W, long H) { long row = sizeof(ch) * W + 6; buf.assign(3 * row * H + 16, 0);
    return planar_rgb_view(W, H, (ch*)buf.data(), (ch*)(buf.data() + row * H), (ch*)(buf.data() + 2 * row * H), row); } };
template <typename V, typename B> static int run(B const& b, std::true_type /* step source type */) { int bad = 0;
  bad |= chk(V(flipped_left_right_view(b)), "flipped_left_right source"); if (!bad) bad |= chk(V(subsampled_view(b, 2, 1)), "subsampled(2,1) source");
  if (!bad) bad |= chk(V(transposed_view(b)), "transposed source"); if (!bad) bad |= chk(V(rotated180_view(b)), "rotated180 source"); return bad; }
template <typename V, typename B> static int run(B const& b, std::false_type) { return chk(V(b), "plain source") || chk(V(flipped_up_down_view(b)), "flipped_up_down source") || chk(V(subimage_view(b, 1, 0, b.width() - 1, b.height())), "subimage source"); }
int main(int argc, char** argv){ vr::parse(argc, argv); int bad = 0;
  for (long W = 1; W <= 6 && !bad; W++) for (long H = 1; H <= 5 && !bad; H++) { std::vector<unsigned char> buf; auto b = base_view<SRCV>::make(buf, W, H);
    bad |= run<SRCV>(b, std::integral_constant<bool, iterator_is_step<typename SRCV::x_iterator>::value>()); }
  if (bad) return 1;
  NOT_REPRODUCED("nth_channel_view / kth_channel_view address every channel of every source pixel exactly"); }
'''
CH_SOURCES = [('gray8', 'gray8_view_t'), ('gray8_step', 'gray8_step_view_t'), ('rgb8', 'rgb8_view_t'), ('rgb8_step', 'rgb8_step_view_t'),
              ('rgb8_planar', 'rgb8_planar_view_t'), ('rgb8_planar_step', 'rgb8_planar_step_view_t'), ('rgb16_planar_step', 'rgb16_planar_step_view_t'),
              ('bgra8', 'bgra8_view_t'), ('gray16_step', 'gray16_step_view_t'), ('rgba16', 'rgba16_view_t')]
UNITS.append(Unit('channel_view', 'C02', C_CH, extracts=X_CH, replay=REPLAY_CH, probe=PROBE_CH, probe_pre=PROBE_CH_PRE, probe_includes=['boost/gil.hpp'],
                  insts=[(n, 'quick', {'T_SRCV': t}) for n, t in CH_SOURCES],
                  checks=[Check('nth_channel_view', 'hz_nth_channel_view', engine='Z', timeout=300, inputs=('x', 'y', 'n')),
                          Check('kth_channel_view', 'hz_kth_channel_view', engine='Z', timeout=300, inputs=('x', 'y', 'k')),
                          Check('dispatch', 'h_dispatch', engine='D', timeout=120)],
                  preconditions=['views: 0 <= w,h <= 2^20, |address|, |strides|, |plane distances| <= 2^40 bytes; channel index inside the pixel'],
                  assumed=['&(src(0,0)[n]) / &at_c<K>(src(0,0)) is the address of the locator plus n * sizeof(channel) (interleaved) or plus the distance of plane n (planar); all planes share the strides',
                           'memory_based_step_iterator(base, step), memory_based_2d_locator(xit, row_bytes) and interleaved_view(w, h, ptr, row_bytes) store their arguments; a plain channel pointer steps by sizeof(channel)',
                           'a non-step x-iterator type steps by memunit_step(x_iterator()) (probe: sizeof(pixel) interleaved, sizeof(channel) planar)']))

# ---------------------------------------------------------------------------------------------------------------------------------------
def lower_adaptor_ctor(body):
    """dereference_iterator_adaptor<Iterator,DFn>(base [, fn]) -> ghost constructor; a missing function-object argument is the default-constructed one"""
    def fn(a):
        if len(a) == 2:
            return 'DEREF_ADAPTOR_CTOR(%s, %s)' % tuple(a)
        if len(a) == 1:
            return 'DEREF_ADAPTOR_CTOR(%s, DEFAULT_FN)' % a[0]
        raise ex.ExtractError('dereference_iterator_adaptor constructor with %d arguments' % len(a))
    return ex.rewrite_calls(body, r'dereference_iterator_adaptor<Iterator,DFn>\(', fn)


# make_step_iterator over compound iterators (step_iterator.hpp): "step composition for adaptors of adaptors"
SI = 'step_iterator.hpp'
X_MSI = [X('msi_false', SI, r'auto make_step_iterator_impl\(I const& it, std::ptrdiff_t step, std::false_type\)\s*->[^{]*\{', count=1,
           rules=[('R12.ctor', r'memory_based_step_iterator<I>\(it, step\)', 'STEP_ITER_CTOR(*it, step)', True)]),
         X('msi_step', SI, r'auto make_step_iterator_impl\(\s*memory_based_step_iterator<BaseIt> const& it,\s*std::ptrdiff_t step,\s*std::true_type\)\s*->[^{]*\{', count=1,
           rules=[('R12.ctor', r'memory_based_step_iterator<BaseIt>\(it\.base\(\), step\)', 'STEP_ITER_CTOR(BASE(it), step)', True)]),
         X('msi_deref', SI, r'auto make_step_iterator_impl\(\s*dereference_iterator_adaptor<It, DFn> const& it,\s*std::ptrdiff_t step,\s*std::true_type\)\s*->[^{]*\{', count=1,
           rules=[('R6.drop_using', r'using result_t = [^;]+;', '', False), ('R12.ctor', r'\bresult_t\(', 'DEREF_ADAPTOR_CTOR(', True),
                  ('R11.base', r'\bit\.base\(\)', 'BASE(it)', True), ('R11.fn', r'\bit\.deref_fn\(\)', 'DEREF_FN(it)', True)]),
         # memunit_advanced(dereference_iterator_adaptor const& p, diff): behind view(x,y), locator(x,y) and cached locations of adapted views
         X('madv_deref', 'pixel_iterator_adaptor.hpp', r'inline auto memunit_advanced\(dereference_iterator_adaptor<Iterator,DFn> const& p,\s*typename std::iterator_traits<Iterator>::difference_type diff\)\s*->[^{]*\{', count=1,
           rules=[('R12.ctor', lambda body: lower_adaptor_ctor(body), None, True), ('R11.adv', r'\bmemunit_advanced\(p\.base\(\), diff\)', 'MEMUNIT_ADVANCED_BASE(BASE(p), diff)', True),
                  ('R11.fn', r'\bp\.deref_fn\(\)', 'DEREF_FN(p)', False)])]
C_MSI = r'''
/* ghost compound x-iterator: up to two dereference adaptors (function-object states fn0 outer, fn1 inner) over an optional
   memory_based_step_iterator over a plain pixel pointer at address a */
typedef struct { int nderef; int64_t fn0, fn1; _Bool has_step; int64_t step; int64_t a; } git_t;
static git_t BASE(const git_t* it) { git_t r = *it; if (r.nderef > 0) { r.nderef = r.nderef - 1; r.fn0 = r.fn1; r.fn1 = 0; } else { __CPROVER_assert(r.has_step, "base() of a plain iterator"); r.has_step = 0; r.step = 0; } return r; }
#define DEREF_FN(it) ((it)->fn0)
/* dereference_iterator_adaptor(base, fn) and memory_based_step_iterator(base, step) store their arguments */
static git_t DEREF_ADAPTOR_CTOR(git_t base, int64_t fn) { git_t r = base; __CPROVER_assert(base.nderef < 2, "ghost: at most two adaptor layers"); r.nderef = base.nderef + 1; r.fn1 = base.fn0; r.fn0 = fn; return r; }
static git_t STEP_ITER_CTOR(git_t base, ptrdiff_t step) { git_t r = base; __CPROVER_assert(base.nderef == 0 && !base.has_step, "the step iterator wraps the plain base iterator"); r.has_step = 1; r.step = step; return r; }
#define DEFAULT_FN ((int64_t)0)                /* a default-constructed function object */
static git_t MEMUNIT_ADVANCED_BASE(git_t base, ptrdiff_t diff) { git_t r = base; r.a = base.a + diff; return r; }      /* memunit_advanced of the base iterator: its address moves by diff memory units */
git_t madv_deref(const git_t* p, ptrdiff_t diff) @@madv_deref@@
git_t msi_false(const git_t* it, ptrdiff_t step) @@msi_false@@
git_t msi_step(const git_t* it, ptrdiff_t step) @@msi_step@@
/* make_step_iterator dispatches on is_iterator_adaptor and, by partial ordering, on the adaptor kind; the recursion through it.base() is
   unrolled over the (at most two) adaptor layers */
git_t make_step_iterator_0(git_t it, ptrdiff_t step) { if (it.has_step) return msi_step(&it, step); return msi_false(&it, step); }
#define make_step_iterator make_step_iterator_0
git_t msi_deref_1(const git_t* it, ptrdiff_t step) @@msi_deref@@
#undef make_step_iterator
git_t make_step_iterator_1(git_t it, ptrdiff_t step) { if (it.nderef >= 1) return msi_deref_1(&it, step); return make_step_iterator_0(it, step); }
#define make_step_iterator make_step_iterator_1
git_t msi_deref_2(const git_t* it, ptrdiff_t step) @@msi_deref@@
#undef make_step_iterator
git_t make_step_iterator_2(git_t it, ptrdiff_t step) { if (it.nderef >= 2) return msi_deref_2(&it, step); return make_step_iterator_1(it, step); }
#ifndef VERIF_NATIVE
void h_make_step_iterator(void){ git_t it; ptrdiff_t s; __CPROVER_assume(0 <= it.nderef && it.nderef <= 2); if (it.nderef < 2) it.fn1 = 0; if (it.nderef < 1) it.fn0 = 0; if (!it.has_step) it.step = 0;
  git_t r = make_step_iterator_2(it, s);
  __CPROVER_assert(r.a == it.a, "make_step_iterator.ensures: the result addresses the same pixel");
  __CPROVER_assert(r.has_step && r.step == s, "make_step_iterator.ensures: the step iterator inside the result has the requested step");
  __CPROVER_assert(r.nderef == it.nderef && r.fn0 == it.fn0 && r.fn1 == it.fn1, "make_step_iterator.ensures: every dereference adaptor keeps its function object (channel index of nth_channel_deref_fn, colour converter, ...)");
  __CPROVER_assert(0, "VACUITY"); }
void h_memunit_advanced(void){ git_t it; ptrdiff_t d; __CPROVER_assume(1 <= it.nderef && it.nderef <= 2 && -((int64_t)1 << 40) <= it.a && it.a <= ((int64_t)1 << 40) && -((int64_t)1 << 40) <= d && d <= ((int64_t)1 << 40)); if (it.nderef < 2) it.fn1 = 0;
  git_t r = madv_deref(&it, d);
  __CPROVER_assert(r.a == it.a + d && r.has_step == it.has_step && r.step == it.step, "memunit_advanced(adaptor, diff): the base iterator moves by diff memory units");
  __CPROVER_assert(r.nderef == it.nderef && r.fn0 == it.fn0 && r.fn1 == it.fn1, "memunit_advanced(adaptor, diff) keeps the adaptor's function object (view(x,y) of an adapted view reads through the same function as iteration)");
  __CPROVER_assert(0, "VACUITY"); }
#endif
'''
REPLAY_MSI = r'''
// native: stepped (flipped / subsampled / transposed) views of views that carry a stateful dereference adaptor
#include <boost/gil.hpp>
#include "vreplay.hpp"
using namespace boost::gil;
int main(int argc, char** argv){ vr::parse(argc, argv);
  rgb16_image_t img(4, 3); auto v = view(img); for (int y = 0; y < 3; y++) for (int x = 0; x < 4; x++) v(x, y) = rgb16_pixel_t(256 * (x + 1), 256 * (10 + x + 4 * y), 256 * (100 + x + 5 * y));
  auto cc = color_converted_view<rgb8_pixel_t>(v);
  for (int n = 0; n < 3; n++) { auto nv = nth_channel_view(cc, n);
    { auto it = nv.begin(); for (int y = 0; y < 3; y++) for (int x = 0; x < 4; x++, ++it) if (nv(x, y)[0] != (*it)[0])
        REPRODUCED("nth_channel_view(color_converted_view(v), %d)(%d,%d) = %d, but iterating the same view yields %d there", n, x, y, (int)nv(x, y)[0], (int)(*it)[0]); }
    auto f = flipped_left_right_view(nv); for (int y = 0; y < 3; y++) for (int x = 0; x < 4; x++) if (f(x, y)[0] != nv(3 - x, y)[0])
      REPRODUCED("flipped_left_right_view(nth_channel_view(color_converted_view(v), %d))(%d,%d) = %d, but the source pixel (%d,%d) holds %d", n, x, y, (int)f(x, y)[0], 3 - x, y, (int)nv(3 - x, y)[0]);
    auto s2 = subsampled_view(nv, 2, 1); for (int y = 0; y < 3; y++) for (int x = 0; x < 2; x++) if (s2(x, y)[0] != nv(2 * x, y)[0])
      REPRODUCED("subsampled_view(nth_channel_view(color_converted_view(v), %d), 2, 1)(%d,%d) = %d, but the source pixel (%d,%d) holds %d", n, x, y, (int)s2(x, y)[0], 2 * x, y, (int)nv(2 * x, y)[0]);
    auto t = transposed_view(nv); for (int y = 0; y < 4; y++) for (int x = 0; x < 3; x++) if (t(x, y)[0] != nv(y, x)[0])
      REPRODUCED("transposed_view(nth_channel_view(color_converted_view(v), %d))(%d,%d) differs from the source pixel (%d,%d)", n, x, y, y, x); }
  NOT_REPRODUCED("stepped views of adapted views keep the adaptor's function object"); }
'''
UNITS.append(Unit('step_adaptor', 'C02', C_MSI, extracts=X_MSI, replay=REPLAY_MSI,
                  checks=[Check('make_step_iterator', 'h_make_step_iterator', engine='D', timeout=300), Check('memunit_advanced', 'h_memunit_advanced', engine='D', timeout=300)],
                  assumed=['overload resolution: a dereference_iterator_adaptor argument selects the overload written for it, a memory_based_step_iterator its own, any other iterator the false_type overload',
                           'it.base() strips the outermost layer; the adaptor / step iterator constructors store their arguments; at most two dereference adaptors are stacked (ghost bound)']))

META = dict(
    not_covered=['nth_channel_view / kth_channel_view of non-basic views (nth_channel_deref_fn adaptor path)',
                 'color_converted_view: value-level, belongs to C09 (color_convert_deref_fn)',
                 'virtual_2d_locator / position_iterator step constructors', 'extension/dynamic_image view factories (C14, not applicable)'],
)
