"""C02 — view transformations are exact, copy-free coordinate remappings.

Functions under contract (bodies / mem-initialiser expressions cut from the headers on every run):
  image_view_factory.hpp: flipped_up_down_view, flipped_left_right_view, transposed_view, rotated90cw_view,
      rotated90ccw_view, rotated180_view, subimage_view (both overloads), subsampled_view
  locator.hpp: memory_based_2d_locator(loc, y_step) and (loc, x_step, y_step, transpose) [initialiser expressions],
      offset, operator+=, row_size, pixel_size
  image_view.hpp: image_view::xy_at(x, y)
Ghost model: a view is (w, h, locator) and a memory-based locator is (address a, pixel stride sx, row stride sy) in
memory units (DESIGN 3.6); ADDR(v, x, y) = a + y*sy + x*sx.  Each factory contract says: documented dimensions, and
for a ghost coordinate (x, y) inside the result, ADDR(result, x, y) == ADDR(src, fx(x,y), fy(x,y)) with the documented
formula - for ARBITRARY source strides (negative, transposed, stepped), hence closed under composition; equality of
addresses is what "shallow" means (a write through the derived view hits exactly that source pixel).
"""
from vclib.core import X, Check, Unit
from vclib import extract as ex
from .C03 import X_LOC, R_LOC, W_LOC

F = 'image_view_factory.hpp'
LOC = 'locator.hpp'
VIEW = 'image_view.hpp'


def lower_ctors(body):
    """R12: view / locator constructor calls -> ghost constructors, by number of arguments"""
    n_total = 0

    def loc_fn(a):
        if len(a) == 2:
            return 'loc_ctor2(%s, %s)' % tuple(a)
        if len(a) == 3:
            return 'loc_ctor4(%s, %s, %s, 0)' % tuple(a)      # bool transpose = false (default argument)
        if len(a) == 4:
            return 'loc_ctor4(%s, %s, %s, %s)' % tuple(a)
        raise ex.ExtractError('xy_locator constructor with %d arguments' % len(a))

    def view_fn(a):
        if len(a) == 2:
            return 'view_ctor_dims(%s, %s)' % tuple(a)
        if len(a) == 3:
            return 'view_ctor_wh(%s, %s, %s)' % tuple(a)
        raise ex.ExtractError('view constructor with %d arguments' % len(a))

    def xy_fn(a):
        if len(a) == 2:
            return 'view_xy_at(src, %s, %s)' % tuple(a)
        if len(a) == 1:
            return 'view_xy_at(src, (%s).x, (%s).y)' % (a[0], a[0])
        raise ex.ExtractError('xy_at with %d arguments' % len(a))
    body, n = ex.rewrite_calls(body, r'typename (?:RView|view_t)::xy_locator\(', loc_fn)
    n_total += n
    body, n = ex.rewrite_calls(body, r'\bsrc\.xy_at\(', xy_fn)
    n_total += n
    body, n = ex.rewrite_calls(body, r'(?<![\w:.])(?:RView|view_t|View)\(', view_fn)
    n_total += n
    return body, n_total


R_F = [('R6.drop_using', r'using (?:RView|view_t)\s*=[^;]+;', '', False),
       ('R12.ctors', lower_ctors, None, True),
       ('R11.dims', r'\bsrc\.dimensions\(\)', 'view_dimensions(src)', False),
       ('R11.w', r'\bsrc\.width\(\)', 'src->w', False), ('R11.h', r'\bsrc\.height\(\)', 'src->h', False),
       ('R14.assert', r'BOOST_ASSERT\(', 'PRECONDITION(', False),
       ('R4.true', r'\btrue\b', '1', False)]


def fac(name, anchor, nth=0):
    return X(name, F, anchor, nth=nth, rules=R_F)


X_FAC = [
    fac('flipped_up_down_view', r'inline auto flipped_up_down_view\(View const& src\)\s*->[^{]*\{'),
    fac('flipped_left_right_view', r'inline auto flipped_left_right_view\(View const& src\)\s*->[^{]*\{'),
    fac('transposed_view', r'inline auto transposed_view\(View const& src\)\s*->[^{]*\{'),
    fac('rotated90cw_view', r'inline auto rotated90cw_view\(View const& src\)\s*->[^{]*\{'),
    fac('rotated90ccw_view', r'inline auto rotated90ccw_view\(View const& src\)\s*->[^{]*\{'),
    fac('rotated180_view', r'inline auto rotated180_view\(View const& src\)\s*->[^{]*\{'),
    fac('subimage_view_pt', r'inline View subimage_view\(\s*View const& src,\s*typename View::point_t const& topleft,\s*typename View::point_t const& dimensions\)\s*\{'),
    fac('subimage_view_xy', r'inline View subimage_view\(View const& src,\s*typename View::coord_t x_min,\s*typename View::coord_t y_min,\s*typename View::coord_t width,\s*typename View::coord_t height\)\s*\{'),
    fac('subsampled_view', r'auto subsampled_view\(View const& src, typename View::coord_t x_step, typename View::coord_t y_step\)\s*->[^{]*\{'),
    X('view_xy_at', VIEW, r'auto xy_at\(x_coord_t x, y_coord_t y\) const -> xy_locator\s*\{', count=1,
      within=None, rules=[('R11.loc_plus', r'return _pixels \+ point_t\(x, y\);', 'gloc_t r__ = self->loc; point_t d__; d__.x = x; d__.y = y; loc_pluseq(&r__, d__); return r__;', True),
             ('R14.assert', r'BOOST_ASSERT\(', 'PRECONDITION(', False), ('R11.w', r'\bwidth\(\)', 'self->w', False), ('R11.h', r'\bheight\(\)', 'self->h', False)]),
    # mem-initialiser expressions of the two stepping constructors of memory_based_2d_locator
    X('ctor2_ys', LOC, r'memory_based_2d_locator\(const memory_based_2d_locator<SI>& loc, coord_t y_step\) : _p\(loc\.x\(\), (.*?)\) \{\}', kind='expr',
      rules=[('R11.row', r'loc\.row_size\(\)', 'ROW_SIZE(loc)', True)]),
    X('ctor4_xs', LOC, r'bool transpose=false\)\s*: _p\(make_step_iterator\(loc\.x\(\),(.*?)\),\s*\(transpose \? loc\.pixel_size\(\) : loc\.row_size\(\)\)\*y_step \) \{\}', kind='expr',
      rules=[('R11.row', r'loc\.row_size\(\)', 'ROW_SIZE(loc)', True), ('R11.pix', r'loc\.pixel_size\(\)', 'PIXEL_SIZE(loc)', True)]),
    X('ctor4_ys', LOC, r'bool transpose=false\)\s*: _p\(make_step_iterator\(loc\.x\(\),\(transpose \? loc\.row_size\(\) : loc\.pixel_size\(\)\)\*x_step\),\s*(.*?) \) \{\}', kind='expr',
      rules=[('R11.row', r'loc\.row_size\(\)', 'ROW_SIZE(loc)', True), ('R11.pix', r'loc\.pixel_size\(\)', 'PIXEL_SIZE(loc)', True)]),
] + [x for x in X_LOC if x.ident in ('loc_offset', 'loc_pluseq', 'loc_row_size', 'loc_pixel_size')]

C = r'''
typedef ptrdiff_t x_coord_t; typedef ptrdiff_t y_coord_t; typedef ptrdiff_t coord_t; typedef point_t difference_type;
typedef struct { int64_t a, sx, sy; } gloc_t;                 /* ghost memory-based locator */
typedef struct { ptrdiff_t w, h; gloc_t loc; } gview_t;        /* ghost view: dimensions + locator of pixel (0,0) */
#define MEMUNIT_ADVANCE(pa, d) (*(pa) += (d))
#define MEMUNIT_STEP_Y(self) ((self)->sy)
#define MEMUNIT_STEP_X(self) ((self)->sx)
#define PRECONDITION(c) __CPROVER_assert(c, "BOOST_ASSERT precondition of the library")
#define SMAX ((int64_t)1 << 40)
#define CMAX ((int64_t)1 << 20)
ptrdiff_t ROW_SIZE(const gloc_t* self) @@loc_row_size@@
ptrdiff_t PIXEL_SIZE(const gloc_t* self) @@loc_pixel_size@@
ptrdiff_t loc_offset(const gloc_t* self, x_coord_t x, y_coord_t y) @@loc_offset@@
void loc_pluseq(gloc_t* self, point_t d) @@loc_pluseq@@
/* memory_based_2d_locator(loc, y_step) : _p(loc.x(), <ctor2_ys>)  - the y-iterator keeps loc.x() (address and pixel step) and gets the new row step */
gloc_t loc_ctor2(gloc_t loc_, coord_t y_step) { const gloc_t* loc = &loc_; gloc_t r; r.a = loc->a; r.sx = loc->sx; r.sy = @@ctor2_ys@@; return r; }
/* memory_based_2d_locator(loc, x_step, y_step, transpose) : _p(make_step_iterator(loc.x(), <ctor4_xs>), <ctor4_ys>) */
gloc_t loc_ctor4(gloc_t loc_, coord_t x_step, coord_t y_step, _Bool transpose) { const gloc_t* loc = &loc_; gloc_t r; r.a = loc->a; r.sx = @@ctor4_xs@@; r.sy = @@ctor4_ys@@; return r; }
/* image_view(dims, loc) / image_view(w, h, loc) store their arguments */
gview_t view_ctor_dims(point_t dims, gloc_t loc) { gview_t v; v.w = dims.x; v.h = dims.y; v.loc = loc; return v; }
gview_t view_ctor_wh(ptrdiff_t w, ptrdiff_t h, gloc_t loc) { gview_t v; v.w = w; v.h = h; v.loc = loc; return v; }
point_t view_dimensions(const gview_t* v) { point_t p; p.x = v->w; p.y = v->h; return p; }
gloc_t view_xy_at(const gview_t* self, x_coord_t x, y_coord_t y) @@view_xy_at@@

gview_t flipped_up_down_view(const gview_t* src) @@flipped_up_down_view@@
gview_t flipped_left_right_view(const gview_t* src) @@flipped_left_right_view@@
gview_t transposed_view(const gview_t* src) @@transposed_view@@
gview_t rotated90cw_view(const gview_t* src) @@rotated90cw_view@@
gview_t rotated90ccw_view(const gview_t* src) @@rotated90ccw_view@@
gview_t rotated180_view(const gview_t* src) @@rotated180_view@@
gview_t subimage_view_pt(const gview_t* src, point_t topleft, point_t dimensions) @@subimage_view_pt@@
gview_t subimage_view_xy(const gview_t* src, coord_t x_min, coord_t y_min, coord_t width, coord_t height) @@subimage_view_xy@@
gview_t subsampled_view(const gview_t* src, coord_t x_step, coord_t y_step) @@subsampled_view@@

#ifndef VERIF_NATIVE
#define ADDR(v, x, y) ((v).loc.a + (y) * (v).loc.sy + (x) * (v).loc.sx)
#define VIEWOK(v) (0 <= (v).w && (v).w <= CMAX && 0 <= (v).h && (v).h <= CMAX && -SMAX <= (v).loc.a && (v).loc.a <= SMAX && -SMAX <= (v).loc.sx && (v).loc.sx <= SMAX && -SMAX <= (v).loc.sy && (v).loc.sy <= SMAX)
#define INSIDE(v, x, y) (0 <= (x) && (x) < (v).w && 0 <= (y) && (y) < (v).h)
#define FACTORY1(name, RW, RH, FX, FY, text) \
void hz_##name(void){ gview_t s; ptrdiff_t x, y; __CPROVER_assume(VIEWOK(s)); \
  gview_t r = name(&s); __CPROVER_assume(INSIDE(r, x, y)); \
  __CPROVER_assert(r.w == (RW) && r.h == (RH), #name ".ensures: documented dimensions"); \
  __CPROVER_assert(INSIDE(s, (FX), (FY)), #name ".ensures: the source coordinate lies inside the source view"); \
  __CPROVER_assert(ADDR(r, x, y) == ADDR(s, (FX), (FY)), #name ".ensures: " text); \
  __CPROVER_assert(0, "VACUITY"); }
FACTORY1(flipped_up_down_view, s.w, s.h, x, s.h - 1 - y, "pixel (x,y) is source pixel (x, h-1-y), same address (shallow)")
FACTORY1(flipped_left_right_view, s.w, s.h, s.w - 1 - x, y, "pixel (x,y) is source pixel (w-1-x, y)")
FACTORY1(transposed_view, s.h, s.w, y, x, "pixel (x,y) is source pixel (y, x)")
FACTORY1(rotated90cw_view, s.h, s.w, y, s.h - 1 - x, "rotated90cw(v)(x,y) = v(y, h-1-x)")
FACTORY1(rotated90ccw_view, s.h, s.w, s.w - 1 - y, x, "rotated90ccw(v)(x,y) = v(w-1-y, x)")
FACTORY1(rotated180_view, s.w, s.h, s.w - 1 - x, s.h - 1 - y, "rotated180(v)(x,y) = v(w-1-x, h-1-y)")
void hz_subimage_view_xy(void){ gview_t s; ptrdiff_t x, y, x0, y0, w, h; __CPROVER_assume(VIEWOK(s));
  __CPROVER_assume(0 <= x0 && x0 <= s.w && 0 <= y0 && y0 <= s.h && 0 <= w && w <= s.w - x0 && 0 <= h && h <= s.h - y0);
  gview_t r = subimage_view_xy(&s, x0, y0, w, h); __CPROVER_assume(INSIDE(r, x, y));
  __CPROVER_assert(r.w == w && r.h == h, "subimage_view.ensures: requested dimensions");
  __CPROVER_assert(INSIDE(s, x0 + x, y0 + y), "subimage_view.ensures: stays inside the source");
  __CPROVER_assert(ADDR(r, x, y) == ADDR(s, x0 + x, y0 + y), "subimage_view.ensures: pixel (x,y) is source pixel (x0+x, y0+y)");
  __CPROVER_assert(r.loc.sx == s.loc.sx && r.loc.sy == s.loc.sy, "subimage_view.ensures: same strides");
  __CPROVER_assert(0, "VACUITY"); }
void hz_subimage_view_pt(void){ gview_t s; ptrdiff_t x, y; point_t tl, dm; __CPROVER_assume(VIEWOK(s));
  __CPROVER_assume(0 <= tl.x && tl.x <= s.w && 0 <= tl.y && tl.y <= s.h && 0 <= dm.x && dm.x <= s.w - tl.x && 0 <= dm.y && dm.y <= s.h - tl.y);
  gview_t r = subimage_view_pt(&s, tl, dm); __CPROVER_assume(INSIDE(r, x, y));
  __CPROVER_assert(r.w == dm.x && r.h == dm.y, "subimage_view(point).ensures: requested dimensions");
  __CPROVER_assert(ADDR(r, x, y) == ADDR(s, tl.x + x, tl.y + y), "subimage_view(point).ensures: pixel (x,y) is source pixel (x0+x, y0+y)");
  __CPROVER_assert(0, "VACUITY"); }
void hz_subsampled_view(void){ gview_t s; ptrdiff_t x, y, xs, ys; __CPROVER_assume(VIEWOK(s)); __CPROVER_assume(1 <= xs && xs <= CMAX && 1 <= ys && ys <= CMAX);
  gview_t r = subsampled_view(&s, xs, ys);
  __CPROVER_assert(r.w * xs >= s.w && (r.w == 0 || (r.w - 1) * xs < s.w), "subsampled_view.ensures: width is ceil(w / x_step)");
  __CPROVER_assert(r.h * ys >= s.h && (r.h == 0 || (r.h - 1) * ys < s.h), "subsampled_view.ensures: height is ceil(h / y_step)");
  __CPROVER_assume(INSIDE(r, x, y));
  __CPROVER_assert(INSIDE(s, x * xs, y * ys), "subsampled_view.ensures: x*x_step < w and y*y_step < h");
  __CPROVER_assert(ADDR(r, x, y) == ADDR(s, x * xs, y * ys), "subsampled_view.ensures: subsampled(v,sx,sy)(x,y) = v(x*sx, y*sy)");
  __CPROVER_assert(0, "VACUITY"); }
/* algebra of the transformations, over the real bodies: a composition equals the identity / another transformation when it
   has the same dimensions, the same origin address and the same strides */
#define SAMEVIEW(p, q) ((p).w == (q).w && (p).h == (q).h && (p).loc.sx == (q).loc.sx && (p).loc.sy == (q).loc.sy && ((p).w == 0 || (p).h == 0 || (p).loc.a == (q).loc.a))
void hz_algebra(void){ gview_t s; __CPROVER_assume(VIEWOK(s)); __CPROVER_assume(s.w <= 1024 && s.h <= 1024 && -1024 <= s.loc.sx && s.loc.sx <= 1024 && -(1 << 20) <= s.loc.sy && s.loc.sy <= (1 << 20));
  gview_t a = flipped_up_down_view(&s); gview_t aa = flipped_up_down_view(&a);
  __CPROVER_assert(SAMEVIEW(aa, s), "flipped_up_down twice is the identity");
  gview_t b = flipped_left_right_view(&s); gview_t bb = flipped_left_right_view(&b);
  __CPROVER_assert(SAMEVIEW(bb, s), "flipped_left_right twice is the identity");
  gview_t t = transposed_view(&s); gview_t tt = transposed_view(&t);
  __CPROVER_assert(SAMEVIEW(tt, s), "transposed twice is the identity");
  gview_t ab = flipped_left_right_view(&a); gview_t r180 = rotated180_view(&s);
  __CPROVER_assert(SAMEVIEW(ab, r180), "rotated180 == flipped_left_right(flipped_up_down)");
  gview_t c = rotated90cw_view(&s); gview_t cc = rotated90ccw_view(&c);
  __CPROVER_assert(SAMEVIEW(cc, s), "rotated90ccw(rotated90cw(v)) == v");
  gview_t c2 = rotated90cw_view(&c);
  __CPROVER_assert(SAMEVIEW(c2, r180), "rotated90cw twice == rotated180");
  gview_t c3 = rotated90cw_view(&c2); gview_t c4 = rotated90cw_view(&c3);
  __CPROVER_assert(SAMEVIEW(c4, s), "rotated90cw four times is the identity");
  __CPROVER_assert(0, "VACUITY"); }
#endif
'''

REPLAY = r'''
// native replay: every transformation on real views (interleaved with row padding, planar, and a stepped / transposed
// source so that compositions are exercised), compared pixel address by pixel address with the documented formula
#include <boost/gil.hpp>
#include <vector>
#include "vreplay.hpp"
using namespace boost::gil;
template <typename V, typename S> static int same(V const& r, S const& s, long x, long y, long fx, long fy, const char* what){
  if (&r(x,y)[0] != &s(fx,fy)[0]) { std::printf("REPRODUCED: %s: pixel (%ld,%ld) is not source pixel (%ld,%ld) (off by %td bytes)\n", what, x, y, fx, fy, (const unsigned char*)&r(x,y)[0] - (const unsigned char*)&s(fx,fy)[0]); return 1; } return 0; }
template <typename S> static int all(S const& s, long xs, long ys, long x0, long y0, long sw, long sh){
  long w = s.width(), h = s.height(); int bad = 0;
  { auto r = flipped_up_down_view(s); if (r.width()!=w||r.height()!=h) bad=1; for(long y=0;y<h&&!bad;y++)for(long x=0;x<w&&!bad;x++) bad|=same(r,s,x,y,x,h-1-y,"flipped_up_down_view"); }
  { auto r = flipped_left_right_view(s); for(long y=0;y<h&&!bad;y++)for(long x=0;x<w&&!bad;x++) bad|=same(r,s,x,y,w-1-x,y,"flipped_left_right_view"); }
  { auto r = transposed_view(s); if (r.width()!=h||r.height()!=w) bad=1; for(long y=0;y<w&&!bad;y++)for(long x=0;x<h&&!bad;x++) bad|=same(r,s,x,y,y,x,"transposed_view"); }
  { auto r = rotated90cw_view(s); if (r.width()!=h||r.height()!=w) bad=1; for(long y=0;y<w&&!bad;y++)for(long x=0;x<h&&!bad;x++) bad|=same(r,s,x,y,y,h-1-x,"rotated90cw_view"); }
  { auto r = rotated90ccw_view(s); for(long y=0;y<w&&!bad;y++)for(long x=0;x<h&&!bad;x++) bad|=same(r,s,x,y,w-1-y,x,"rotated90ccw_view"); }
  { auto r = rotated180_view(s); for(long y=0;y<h&&!bad;y++)for(long x=0;x<w&&!bad;x++) bad|=same(r,s,x,y,w-1-x,h-1-y,"rotated180_view"); }
  if (x0+sw<=w && y0+sh<=h) { auto r = subimage_view(s,x0,y0,sw,sh); if (r.width()!=sw||r.height()!=sh) bad=1; for(long y=0;y<sh&&!bad;y++)for(long x=0;x<sw&&!bad;x++) bad|=same(r,s,x,y,x0+x,y0+y,"subimage_view"); }
  { auto r = subsampled_view(s,xs,ys); if (r.width()!=(w+xs-1)/xs||r.height()!=(h+ys-1)/ys) { std::printf("REPRODUCED: subsampled_view dimensions %td x %td for %ld x %ld step (%ld,%ld)\n", r.width(), r.height(), w, h, xs, ys); bad=1; }
    for(long y=0;y<r.height()&&!bad;y++)for(long x=0;x<r.width()&&!bad;x++) bad|=same(r,s,x,y,x*xs,y*ys,"subsampled_view"); }
  return bad; }
int main(int argc, char** argv){ vr::parse(argc, argv);
  long xs = vr::i64("xs", 2) % 7 + 0, ys = vr::i64("ys", 3) % 7; if (xs < 1) xs = 1; if (ys < 1) ys = 1;
  long x0 = vr::i64("x0", 1) % 3, y0 = vr::i64("y0", 2) % 3, sw = vr::i64("w", 3) % 4, sh = vr::i64("h", 2) % 4; if (x0<0)x0=0; if(y0<0)y0=0; if(sw<0)sw=0; if(sh<0)sh=0;
  int bad = 0;
  for (long W = 1; W <= 7 && !bad; W++) for (long H = 1; H <= 6 && !bad; H++) {
    std::vector<unsigned char> buf((3*W + 5) * H + 8);
    rgb8_view_t v = interleaved_view(W, H, (rgb8_pixel_t*)buf.data(), 3*W + 5);
    bad |= all(v, xs, ys, x0, y0, sw, sh);
    if (!bad) bad |= all(rotated90cw_view(v), xs, ys, x0, y0, sw, sh);                 // transposed, negative step source
    if (!bad) bad |= all(subsampled_view(flipped_left_right_view(v), 2, 1), xs, ys, x0, y0, sw, sh);
    std::vector<unsigned char> pl(3 * (W + 3) * H);
    auto p = planar_rgb_view(W, H, pl.data(), pl.data() + (W+3)*H, pl.data() + 2*(W+3)*H, W + 3);
    if (!bad) bad |= all(p, xs, ys, x0, y0, sw, sh);
  }
  if (bad) return 1;
  NOT_REPRODUCED("all transformations match their coordinate formulas on the sampled views"); }
'''

names = ['flipped_up_down_view', 'flipped_left_right_view', 'transposed_view', 'rotated90cw_view', 'rotated90ccw_view', 'rotated180_view',
         'subimage_view_xy', 'subimage_view_pt', 'subsampled_view']
UNITS = [
    Unit('factory', 'C02', C, extracts=X_FAC, replay=REPLAY,
         checks=[Check(n, 'hz_' + n, engine='Z', timeout=300, inputs=('x', 'y', 'xs', 'ys', 'x0', 'y0', 'w', 'h')) for n in names] +
                [Check('algebra', 'hz_algebra', engine='Z', timeout=600)],
         preconditions=['views: 0 <= w,h <= 2^20, |address|, |strides| <= 2^40 memory units; subsampling steps 1..2^20; sub-rectangle inside the source'],
         assumed=['image_view(dims, loc) / image_view(w, h, loc) store their arguments (one-line constructors)',
                  'make_step_iterator(it, step) yields an iterator at the same address whose step is `step` (step_iterator.hpp, three one-line overloads)',
                  'memunit_advance / memunit_step of the underlying iterators follow the address model (see C03)']),
]

META = dict(
    not_covered=['nth_channel_view / kth_channel_view (pointer to channel n of pixel (0,0) with the source strides): template lowering not built',
                 'color_converted_view: value-level, belongs to C09 (color_convert_deref_fn)',
                 'virtual_2d_locator / position_iterator step constructors', 'extension/dynamic_image view factories (C14, not applicable)'],
)
