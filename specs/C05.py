"""C05 — pixel operations pair channels by colour, independent of memory layout (partial).

Under contract: the layout-converting constructors homogeneous_color_base<E,L,N>(homogeneous_color_base<E2,L2,N> const&) for N = 3, 4
(mem-initialiser lists cut from color_base.hpp, rule R12), with mapping_transform<L,L2,K>::value bound by the probe (g++ on the real
headers) and the memory index of every colour name measured on real pixel objects (address of get_color(p, c) minus address of p).
Postcondition from the property: after construction every named colour of dst equals that of src, for every ordered pair of the provided
layouts of rgb (rgb, bgr) and rgba (rgba, bgra, argb, abgr).  Also: semantic_at_c<K> is at_c<mapping[K]> (the probe table is a permutation
and relates the two exactly).
"""
from vclib.core import X, Check, Unit

CB = 'color_base.hpp'
R = [('R8.mt', r'gil::at_c<mapping_transform<(Layout|L2), (Layout|L2), (\d)>::value>\(c\)', r'c->v[MT_\1_\2_\3]', True),
     ('R3.fields', r'\bv(\d)_\b', r'v[\1]', False)]
X_ALL = [
    X('ctor3', CB, r'homogeneous_color_base\(homogeneous_color_base<E2, L2, 3> const& c\)\s*:', count=1, meminit=True, rules=R),
    X('ctor4', CB, r'homogeneous_color_base\(homogeneous_color_base<E2, L2, 4> const& c\)\s*:', count=1, meminit=True, rules=R),
]
C = r'''
typedef struct { uint16_t v[5]; } cb_t;      /* homogeneous_color_base: elements in memory order (the element type does not matter: 16-bit symbolic values) */
#if NCH == 3
void convert_ctor(cb_t* self, const cb_t* c)
__CPROVER_requires(__CPROVER_is_fresh(self, sizeof(*self)) && __CPROVER_is_fresh(c, sizeof(*c)))
__CPROVER_assigns(self->v)
__CPROVER_ensures(self->v[IDX_dst_red] == c->v[IDX_src_red] && self->v[IDX_dst_green] == c->v[IDX_src_green] && self->v[IDX_dst_blue] == c->v[IDX_src_blue])   /* every named colour of dst equals that of src */
@@ctor3@@
#else
void convert_ctor(cb_t* self, const cb_t* c)
__CPROVER_requires(__CPROVER_is_fresh(self, sizeof(*self)) && __CPROVER_is_fresh(c, sizeof(*c)))
__CPROVER_assigns(self->v)
__CPROVER_ensures(self->v[IDX_dst_red] == c->v[IDX_src_red] && self->v[IDX_dst_green] == c->v[IDX_src_green] && self->v[IDX_dst_blue] == c->v[IDX_src_blue] && self->v[IDX_dst_alpha] == c->v[IDX_src_alpha])
@@ctor4@@
#endif
#ifndef VERIF_NATIVE
void h_ctor(void){ cb_t* d; cb_t* s; convert_ctor(d, s); __CPROVER_assert(0, "VACUITY"); }
/* semantic_at_c<K>(p) is at_c<channel_mapping[K]>(p): the probe's table (memory index of the K-th colour of the colour space) is a permutation */
void h_mapping(void){
  int used[5] = {0, 0, 0, 0, 0};
  used[IDX_dst_red]++; used[IDX_dst_green]++; used[IDX_dst_blue]++;
#if NCH == 4
  used[IDX_dst_alpha]++;
#endif
  __CPROVER_assert(used[0] == 1 && used[1] == 1 && used[2] == 1 && (NCH < 4 || used[3] == 1), "the layout's channel mapping is a permutation of the memory positions");
  __CPROVER_assert(SEM0 == IDX_dst_red && SEM1 == IDX_dst_green && SEM2 == IDX_dst_blue && (NCH < 4 || SEM3 == IDX_dst_alpha), "semantic_at_c<K> addresses the memory position the mapping names (semantic_at_c<K> == at_c<mapping[K]>)");
  __CPROVER_assert(0, "VACUITY"); }
#endif
'''
PROBE_PRE = r'''
template <typename P, typename Color> void midx(const char* pname, const char* cname) {
  P p; int i = (int)(((const unsigned char*)&get_color(p, Color())) - (const unsigned char*)&p) / (int)sizeof(typename channel_type<P>::type);
  std::printf("#define IDX_%s_%s %d\n", pname, cname, i); }
template <typename P, int K> int semidx() { P p; return (int)(((const unsigned char*)&semantic_at_c<K>(p)) - (const unsigned char*)&p) / (int)sizeof(typename channel_type<P>::type); }
template <typename P> typename std::enable_if<num_channels<P>::value == 3>::type probe_px(const char* n) { midx<P, red_t>(n, "red"); midx<P, green_t>(n, "green"); midx<P, blue_t>(n, "blue"); }
template <typename P> typename std::enable_if<num_channels<P>::value == 4>::type probe_px(const char* n) { midx<P, red_t>(n, "red"); midx<P, green_t>(n, "green"); midx<P, blue_t>(n, "blue"); midx<P, alpha_t>(n, "alpha"); }
template <typename D, typename S, int N> struct mt { static void run() { mt<D, S, N - 1>::run(); std::printf("#define MT_Layout_L2_%d %d\n#define MT_L2_Layout_%d %d\n#define MT_Layout_Layout_%d %d\n#define MT_L2_L2_%d %d\n", N - 1, (int)detail::mapping_transform<typename D::layout_t, typename S::layout_t, N - 1>::value, N - 1, (int)detail::mapping_transform<typename S::layout_t, typename D::layout_t, N - 1>::value, N - 1, N - 1, N - 1, N - 1); } };
template <typename D, typename S> struct mt<D, S, 0> { static void run() {} };
template <typename P, int N> struct sem { static void run() { sem<P, N - 1>::run(); std::printf("#define SEM%d %d\n", N - 1, semidx<P, N - 1>()); } };
template <typename P> struct sem<P, 0> { static void run() {} };
'''
PROBE = r'''
  probe_px<SRCP>("src"); probe_px<DSTP>("dst"); P_VAL("NCH", (int)num_channels<DSTP>::value);
  mt<DSTP, SRCP, num_channels<DSTP>::value>::run(); sem<DSTP, num_channels<DSTP>::value>::run();
  if (num_channels<DSTP>::value < 4) std::printf("#define SEM3 3\n#define IDX_dst_alpha 3\n#define IDX_src_alpha 3\n");
'''
REPLAY = r'''
#include <boost/gil.hpp>
#include "vreplay.hpp"
using namespace boost::gil;
#include "inst.hpp"
template <typename D, typename S> typename std::enable_if<num_channels<D>::value == 4, bool>::type alpha_ok(D const& d, S const& s) { return get_color(d, alpha_t()) == get_color(s, alpha_t()); }
template <typename D, typename S> typename std::enable_if<num_channels<D>::value != 4, bool>::type alpha_ok(D const&, S const&) { return true; }
int main(int argc, char** argv){ vr::parse(argc, argv);
  SRCP s; get_color(s, red_t()) = 11; get_color(s, green_t()) = 22; get_color(s, blue_t()) = 33; static_fill(s, 0); get_color(s, red_t()) = 11; get_color(s, green_t()) = 22; get_color(s, blue_t()) = 33;
  SRCP s2(s); DSTP d(s);                              // layout-converting construction
  if (get_color(d, red_t()) != 11 || get_color(d, green_t()) != 22 || get_color(d, blue_t()) != 33 || !alpha_ok(d, s)) REPRODUCED("converting construction does not pair channels by colour: r=%d g=%d b=%d", (int)get_color(d, red_t()), (int)get_color(d, green_t()), (int)get_color(d, blue_t()));
  if (!(d == s)) REPRODUCED("dst == src is false after dst(src)");
  NOT_REPRODUCED("converting construction pairs channels by colour name"); }
'''
L3 = ['rgb8_pixel_t', 'bgr8_pixel_t']
L4 = ['rgba8_pixel_t', 'bgra8_pixel_t', 'argb8_pixel_t', 'abgr8_pixel_t']
UNITS = []
for group in (L3, L4):
    for s in group:
        for d in group:
            n = '%s_%s' % (s.split('8')[0], d.split('8')[0])
            UNITS.append(Unit('ctor.' + n, 'C05', C, extracts=X_ALL, replay=REPLAY,
                              checks=[Check('ctor', 'h_ctor', enforce='convert_ctor'), Check('mapping', 'h_mapping', engine='D')],
                              insts=[(n, 'quick', {'T_SRCP': s, 'T_DSTP': d})], probe_includes=['boost/gil.hpp'], probe=PROBE, probe_pre=PROBE_PRE,
                              assumed=['at_c<K>(color_base) returns the K-th element in memory order (one-line accessors in color_base.hpp)',
                                       'pixel / packed_pixel / planar reference constructors forward to homogeneous_color_base']))
# ---------------------------------------------------------------------------------------------------------------------------------------
# All converting constructors (const& and l-value reference forms) for N = 2 .. 5, over user-style layouts of devicen_t<N> (GIL provides
# a single layout for 2- and 5-channel colour spaces, but the constructors are generic in the layout): the K-th colour of dst equals the
# K-th colour of src, with the memory position of the K-th colour read off the layout's channel_mapping_t (a type, independent of the
# colour-base code).
def _xn(n):
    return [X('ctor%dc' % n, CB, r'homogeneous_color_base\(homogeneous_color_base<E2, L2, %d> const& c\)\s*:' % n, count=1, meminit=True, rules=R),
            X('ctor%dm' % n, CB, r'homogeneous_color_base\(homogeneous_color_base<E2, L2, %d>& c\)\s*:' % n, count=1, meminit=True, rules=R)]
CN = r"""
typedef struct { uint16_t v[5]; } cb_t;
#define PAIRED(K) ((K) >= NCH || self->v[MAPD_##K] == c->v[MAPS_##K])
void ctor_const(cb_t* self, const cb_t* c)
__CPROVER_requires(__CPROVER_is_fresh(self, sizeof(*self)) && __CPROVER_is_fresh(c, sizeof(*c)))
__CPROVER_assigns(self->v)
__CPROVER_ensures(PAIRED(0) && PAIRED(1) && PAIRED(2) && PAIRED(3) && PAIRED(4))   /* the K-th colour of dst equals the K-th colour of src */
@@ctorc@@
void ctor_mut(cb_t* self, cb_t* c)
__CPROVER_requires(__CPROVER_is_fresh(self, sizeof(*self)) && __CPROVER_is_fresh(c, sizeof(*c)))
__CPROVER_assigns(self->v)
__CPROVER_ensures(PAIRED(0) && PAIRED(1) && PAIRED(2) && PAIRED(3) && PAIRED(4))
@@ctorm@@
#ifndef VERIF_NATIVE
void h_const(void){ cb_t* d; cb_t* s; ctor_const(d, s); __CPROVER_assert(0, "VACUITY"); }
void h_mut(void){ cb_t* d; cb_t* s; ctor_mut(d, s); __CPROVER_assert(0, "VACUITY"); }
#endif
"""
PROBE_N_PRE = r"""
template <typename P, int N> struct cmap { static void run(const char* pre) { cmap<P, N - 1>::run(pre);
  std::printf("#define %s_%d %d\n", pre, N - 1, (int)boost::mp11::mp_at_c<typename P::layout_t::channel_mapping_t, N - 1>::value); } };
template <typename P> struct cmap<P, 0> { static void run(const char*) {} };
template <typename D, typename S, int N> struct mt { static void run() { mt<D, S, N - 1>::run(); std::printf("#define MT_Layout_L2_%d %d\n#define MT_L2_Layout_%d %d\n#define MT_Layout_Layout_%d %d\n#define MT_L2_L2_%d %d\n", N - 1, (int)detail::mapping_transform<typename D::layout_t, typename S::layout_t, N - 1>::value, N - 1, (int)detail::mapping_transform<typename S::layout_t, typename D::layout_t, N - 1>::value, N - 1, N - 1, N - 1, N - 1); } };
template <typename D, typename S> struct mt<D, S, 0> { static void run() {} };
"""
PROBE_N = r"""
  P_VAL("NCH", (int)num_channels<DSTP>::value);
  cmap<SRCP, num_channels<SRCP>::value>::run("MAPS"); cmap<DSTP, num_channels<DSTP>::value>::run("MAPD"); mt<DSTP, SRCP, num_channels<DSTP>::value>::run();
  for (int k = (int)num_channels<DSTP>::value; k < 5; k++) std::printf("#define MAPS_%d %d\n#define MAPD_%d %d\n", k, k, k, k);
"""
REPLAY_N = r"""
#include <boost/gil.hpp>
#include "vreplay.hpp"
using namespace boost::gil;
#include "inst.hpp"
template <typename D, typename S, int K> struct chk { static bool run(D const& d, S const& s) { return chk<D, S, K - 1>::run(d, s) && semantic_at_c<K - 1>(d) == semantic_at_c<K - 1>(s); } };
template <typename D, typename S> struct chk<D, S, 0> { static bool run(D const&, S const&) { return true; } };
template <typename S, int K> struct fillp { static void run(S& s) { fillp<S, K - 1>::run(s); semantic_at_c<K - 1>(s) = (std::uint8_t)(11 * K); } };
template <typename S> struct fillp<S, 0> { static void run(S&) {} };
int main(int argc, char** argv){ vr::parse(argc, argv); constexpr int N = num_channels<DSTP>::value;
  SRCP s; fillp<SRCP, N>::run(s);
  DSTP d1(static_cast<SRCP const&>(s));              // const& form
  DSTP d2(s);                                        // l-value form
  DSTP d3; d3 = s;                                   // assignment
  if (!chk<DSTP, SRCP, N>::run(d1, s)) REPRODUCED("Dst(const Src&) does not pair channel K of dst with channel K of src (semantic order)");
  if (!chk<DSTP, SRCP, N>::run(d2, s)) REPRODUCED("Dst(Src&) does not pair channel K of dst with channel K of src (semantic order)");
  if (!chk<DSTP, SRCP, N>::run(d3, s)) REPRODUCED("dst = src does not pair channel K of dst with channel K of src (semantic order)");
  if (!(d1 == s) || !(d2 == s) || !(d3 == s)) REPRODUCED("dst == src is false after conversion");
  detail::homogeneous_color_base<std::uint8_t&, typename DSTP::layout_t, N> r(s);      // reference proxy over the source's channels: the l-value form
  if (!chk<decltype(r), SRCP, N>::run(r, s)) REPRODUCED("a reference colour base built from Src& (l-value constructor) does not refer to channel K of src at its position K (semantic order)");
  NOT_REPRODUCED("converting construction pairs channels by semantic position"); }
"""
def _lay(n, perm):
    return 'pixel<std::uint8_t, layout<typename devicen_t<%d>::type, boost::mp11::mp_list_c<int, %s>>>' % (n, ', '.join(str(k) for k in perm))
PERMS = {2: [(0, 1), (1, 0)], 3: [(0, 1, 2), (2, 0, 1), (1, 2, 0)], 4: [(0, 1, 2, 3), (3, 0, 2, 1), (1, 3, 0, 2)], 5: [(0, 1, 2, 3, 4), (4, 2, 0, 1, 3), (1, 0, 4, 3, 2)]}
for n, perms in PERMS.items():
    insts = []
    for a in perms:
        for b in perms:
            nm = 'n%d_%s_%s' % (n, ''.join(map(str, a)), ''.join(map(str, b)))
            insts.append((nm, 'quick', {'T_SRCP': _lay(n, a), 'T_DSTP': _lay(n, b)}))
    xs = _xn(n)
    UNITS.append(Unit('ctorN.%d' % n, 'C05', CN.replace('@@ctorc@@', '@@ctor%dc@@' % n).replace('@@ctorm@@', '@@ctor%dm@@' % n), extracts=xs, replay=REPLAY_N,
                      checks=[Check('const_ref', 'h_const', enforce='ctor_const'), Check('lvalue_ref', 'h_mut', enforce='ctor_mut')],
                      insts=insts, probe_includes=['boost/gil.hpp'], probe=PROBE_N, probe_pre=PROBE_N_PRE,
                      assumed=['gil::at_c<K>(color_base) forwards to color_base::at(integral_constant<int,K>) (one-line forwarder; the accessors themselves are unit at.N)']))
# ---------------------------------------------------------------------------------------------------------------------------------------
# The element accessors every other colour-base operation goes through: homogeneous_color_base<E,L,N>::at(integral_constant<int,K>)
# (const and non-const, N = 1..5, 30 bodies) returns the K-th element in memory order.
REPLAY_AT = r"""
#include <boost/gil.hpp>
#include "vreplay.hpp"
using namespace boost::gil;
using cb_t = detail::homogeneous_color_base<std::uint8_t, layout<typename devicen_t<@N@>::type>, @N@>;
template <int K> struct chk { static int run(cb_t& c) { int bad = chk<K - 1>::run(c); cb_t const& cc = c;
  if ((unsigned char const*)&c.at(std::integral_constant<int, K - 1>()) != (unsigned char const*)&c + (K - 1)) { std::printf("at(integral_constant<int,%d>) is at memory position %d\\n", K - 1, (int)((unsigned char const*)&c.at(std::integral_constant<int, K - 1>()) - (unsigned char const*)&c)); bad++; }
  if ((unsigned char const*)&cc.at(std::integral_constant<int, K - 1>()) != (unsigned char const*)&c + (K - 1)) { std::printf("at(integral_constant<int,%d>) const is at memory position %d\\n", K - 1, (int)((unsigned char const*)&cc.at(std::integral_constant<int, K - 1>()) - (unsigned char const*)&c)); bad++; }
  return bad; } };
template <> struct chk<0> { static int run(cb_t&) { return 0; } };
int main(int argc, char** argv){ vr::parse(argc, argv); cb_t c; int bad = chk<@N@>::run(c);
  if (bad) REPRODUCED("%d element accessor(s) of the @N@-element colour base return an element at another memory position", bad);
  NOT_REPRODUCED("every accessor returns the element at its memory position"); }
"""
RA = [('R3.at', r'return v(\d)_;', r'return &self->v[\1];', True)]
for n in range(1, 6):
    W = r'struct homogeneous_color_base<Element, Layout, %d>\s*\{' % n
    xs, body, calls = [], 'typedef struct { uint16_t v[5]; } cb_t;\n', ''
    for k in range(n):
        xs.append(X('at%d_%d' % (n, k), CB, r'auto at\(std::integral_constant<int, %d>\)\s*->[^{;]*' % k, count=1, within=W, rules=RA))
        xs.append(X('at%d_%dc' % (n, k), CB, r'auto at\(std::integral_constant<int, %d>\) const\s*->[^{;]*' % k, count=1, within=W, rules=RA))
        body += 'uint16_t* at_%d(cb_t* self)\n@@at%d_%d@@\nconst uint16_t* at_%dc(const cb_t* self)\n@@at%d_%dc@@\n' % (k, n, k, k, n, k)
        calls += '  __CPROVER_assert(at_%d(&s) == &s.v[%d], "at(integral_constant<int,%d>) is the element at memory position %d");\n' % (k, k, k, k)
        calls += '  __CPROVER_assert(at_%dc(&s) == &s.v[%d], "at(integral_constant<int,%d>) const is the element at memory position %d");\n' % (k, k, k, k)
    body += '#ifndef VERIF_NATIVE\nvoid h_at(void){ cb_t s;\n' + calls + '  __CPROVER_assert(0, "VACUITY"); }\n#endif\n'
    UNITS.append(Unit('at.%d' % n, 'C05', body, extracts=xs, checks=[Check('at', 'h_at', engine='D')], replay=REPLAY_AT.replace('@N@', str(n))))
# ---------------------------------------------------------------------------------------------------------------------------------------
# Planar pixels: the colour base of channel POINTERS built from a pixel (planar_pixel_iterator(P*)), and the colour base of channel
# REFERENCES built from such pointers plus a byte offset (planar_pixel_reference(ptr, diff), behind planar operator[] / operator*).
# Planar iterators / references always carry the identity layout, so position K must address the K-th COLOUR of the source pixel
# (memory position channel_mapping[K] of the source layout), shifted by diff bytes for the reference.
RP = [('R8.sem', r'&semantic_at_c<(\d)>\(\*p\)', r'(uintptr_t)&p->v[MAPS_\1]', False),
      ('R8.adv', r'\*memunit_advanced\(semantic_at_c<(\d)>\(ptr\), diff\)', r'(ptr->v[\1] + (uintptr_t)diff)', False),
      ('R3.fields', r'\bv(\d)_\b', r'v[\1]', False)]
CP = r"""
typedef struct { uint16_t v[5]; } cb_t;          /* the source pixel (any layout) */
typedef struct { uintptr_t v[5]; } pcb_t;        /* colour base of channel pointers / references (identity layout), addresses as integers */
#define PTR_OK(K) ((K) >= NCH || self->v[K] == (uintptr_t)&p->v[MAPS_##K])
#define REF_OK(K) ((K) >= NCH || self->v[K] == ptr->v[K] + (uintptr_t)diff)
void ctor_from_pixel(pcb_t* self, cb_t* p, _Bool unused)
__CPROVER_requires(__CPROVER_is_fresh(self, sizeof(*self)) && __CPROVER_is_fresh(p, sizeof(*p)))
__CPROVER_assigns(self->v)
__CPROVER_ensures(PTR_OK(0) && PTR_OK(1) && PTR_OK(2) && PTR_OK(3) && PTR_OK(4))   /* pointer K addresses the K-th colour of the pixel */
@@pix@@
void ctor_offset(pcb_t* self, const pcb_t* ptr, ptrdiff_t diff)
__CPROVER_requires(__CPROVER_is_fresh(self, sizeof(*self)) && __CPROVER_is_fresh(ptr, sizeof(*ptr)) && diff >= -4096 && diff <= 4096)
__CPROVER_assigns(self->v)
__CPROVER_ensures(REF_OK(0) && REF_OK(1) && REF_OK(2) && REF_OK(3) && REF_OK(4))   /* reference K is channel pointer K moved by diff bytes */
@@off@@
#ifndef VERIF_NATIVE
void h_pix(void){ pcb_t* d; cb_t* s; ctor_from_pixel(d, s, 1); __CPROVER_assert(0, "VACUITY"); }
void h_off(void){ pcb_t* d; pcb_t* s; ptrdiff_t diff; ctor_offset(d, s, diff); __CPROVER_assert(0, "VACUITY"); }
#endif
"""
REPLAY_P = r"""
#include <boost/gil.hpp>
#include "vreplay.hpp"
using namespace boost::gil;
#include "inst.hpp"
constexpr int N = num_channels<SRCP>::value;
using cs_t = typename devicen_t<N>::type;
using pit_t = planar_pixel_iterator<std::uint8_t*, cs_t>;
template <int K> struct chk { static int run(pit_t const& it, SRCP* px, std::ptrdiff_t diff) { int bad = chk<K - 1>::run(it, px, diff);
  if (semantic_at_c<K - 1>(it) != &semantic_at_c<K - 1>(px[0])) { std::printf("planar_pixel_iterator(P*): channel pointer %d does not address colour %d of the pixel\\n", K - 1, K - 1); bad++; }
  planar_pixel_reference<std::uint8_t&, cs_t> r(it, diff);
  if (&semantic_at_c<K - 1>(r) != &semantic_at_c<K - 1>(px[0]) + diff) { std::printf("planar_pixel_reference(ptr, %d): channel reference %d is not channel pointer %d moved by %d bytes\\n", (int)diff, K - 1, K - 1, (int)diff); bad++; }
  if (&semantic_at_c<K - 1>(it[1]) != &semantic_at_c<K - 1>(px[0]) + 1) { std::printf("planar iterator operator[](1): channel %d\\n", K - 1); bad++; }
  return bad; } };
template <> struct chk<0> { static int run(pit_t const&, SRCP*, std::ptrdiff_t) { return 0; } };
int main(int argc, char** argv){ vr::parse(argc, argv); SRCP px[4]; pit_t it(&px[1]); int bad = 0;
  for (std::ptrdiff_t diff = -(std::ptrdiff_t)sizeof(SRCP); diff <= (std::ptrdiff_t)sizeof(SRCP); diff++) bad += chk<N>::run(it, &px[1], diff);
  if (bad) REPRODUCED("%d planar channel pointer / reference(s) address another channel", bad);
  NOT_REPRODUCED("planar pointers / references address the pixel's colours in semantic order"); }
"""
for n, perms in PERMS.items():
    xs = [X('pix', CB, r'homogeneous_color_base\(P\s*\* p, bool\)\s*:', count=1, meminit=True, rules=RP, within=r'struct homogeneous_color_base<Element, Layout, %d>\s*\{' % n),
          X('off', CB, r'homogeneous_color_base\(Ptr const& ptr, std::ptrdiff_t diff\)\s*:', count=1, meminit=True, rules=RP, within=r'struct homogeneous_color_base<Element, Layout, %d>\s*\{' % n)]
    insts = [('n%d_%s' % (n, ''.join(map(str, a))), 'quick', {'T_SRCP': _lay(n, a), 'T_DSTP': _lay(n, a)}) for a in perms]
    UNITS.append(Unit('planar_ctor.%d' % n, 'C05', CP, extracts=xs, replay=REPLAY_P,
                      checks=[Check('from_pixel', 'h_pix', enforce='ctor_from_pixel'), Check('offset', 'h_off', enforce='ctor_offset')],
                      insts=insts, probe_includes=['boost/gil.hpp'], probe=PROBE_N, probe_pre=PROBE_N_PRE,
                      assumed=['semantic_at_c<K> of an identity-layout colour base is at_c<K> (probe: channel_mapping_t of layout<ColorSpace>)']))
# ---------------------------------------------------------------------------------------------------------------------------------------
# packed pixels (rgb565 / bgr565 and 4-4-4 variants): construction, assignment and equality across layouts pair channels by colour.
# Complete native enumeration of all 2^16 bit-field contents on the real code (reported as a bounded stand-in: it is an enumeration, not a proof
# over a contract; the packed pixel constructors are template plumbing over the homogeneous constructors proved above).
NATIVE_PACKED = r'''
#include <boost/gil.hpp>
#include "vreplay.hpp"
using namespace boost::gil;
template <typename S, typename D> static long pair_check(const char* what, long& cases, std::string& first) { long bad = 0;
  for (unsigned v = 0; v < 65536; v++) { cases++; S s; std::uint16_t bits = (std::uint16_t)v; std::memcpy(&s, &bits, 2);
    int r = get_color(s, red_t()), g = get_color(s, green_t()), b = get_color(s, blue_t());
    D c(s); D a; a = s;
    bool ok = get_color(c, red_t()) == r && get_color(c, green_t()) == g && get_color(c, blue_t()) == b && get_color(a, red_t()) == r && get_color(a, green_t()) == g && get_color(a, blue_t()) == b && (c == s) && (a == s);
    if (!ok) { if (!bad++) { char t[200]; std::snprintf(t, sizeof t, "%s: source bits 0x%04x (r,g,b)=(%d,%d,%d): Dst d(src) gives (%d,%d,%d), dst = src gives (%d,%d,%d)", what, v, r, g, b,
      (int)get_color(c, red_t()), (int)get_color(c, green_t()), (int)get_color(c, blue_t()), (int)get_color(a, red_t()), (int)get_color(a, green_t()), (int)get_color(a, blue_t())); if (first.empty()) first = t; } } }
  return bad; }
int main(int argc, char** argv){ vr::parse(argc, argv); long cases = 0, bad = 0; std::string first;
  using rgb565 = packed_pixel_type<std::uint16_t, boost::mp11::mp_list_c<unsigned, 5, 6, 5>, rgb_layout_t>::type; using bgr565 = packed_pixel_type<std::uint16_t, boost::mp11::mp_list_c<unsigned, 5, 6, 5>, bgr_layout_t>::type;
  using rgb556 = packed_pixel_type<std::uint16_t, boost::mp11::mp_list_c<unsigned, 5, 5, 6>, rgb_layout_t>::type; using bgr556 = packed_pixel_type<std::uint16_t, boost::mp11::mp_list_c<unsigned, 5, 5, 6>, bgr_layout_t>::type;
  bad += pair_check<rgb565, rgb565>("rgb565 -> rgb565", cases, first); bad += pair_check<bgr565, bgr565>("bgr565 -> bgr565", cases, first);
  bad += pair_check<rgb556, rgb556>("rgb556 -> rgb556", cases, first);
  // across layouts the channel widths differ per colour (5-6-5 in memory order), so only same-width colours are comparable: 5-5-5-style pairs
  using rgb555 = packed_pixel_type<std::uint16_t, boost::mp11::mp_list_c<unsigned, 5, 5, 5>, rgb_layout_t>::type; using bgr555 = packed_pixel_type<std::uint16_t, boost::mp11::mp_list_c<unsigned, 5, 5, 5>, bgr_layout_t>::type;
  bad += pair_check<rgb555, bgr555>("rgb555 -> bgr555", cases, first); bad += pair_check<bgr555, rgb555>("bgr555 -> rgb555", cases, first);
  (void)sizeof(bgr556);
  std::printf("CLAUSE packed_pairs %s %ld packed pixels: construction, assignment and == across layouts pair channels by colour\n", bad ? "FAIL" : "PASS", bad);
  if (bad) std::printf("FAILCASE %s\n", first.c_str());
  std::printf("NATIVE cases=%ld window=ALL 2^16 bit-field contents for rgb565, bgr565, rgb556 (same layout) and rgb555 <-> bgr555 (complete enumeration)\n", cases); return 0; }
'''

UNITS.append(Unit('packed_native', 'C05', '/* complete native enumeration, no extracted body */\n', checks=[Check('packed_pairs', 'none', engine='N', native=NATIVE_PACKED, timeout=900)]))

META = dict(not_covered=['recursive static_* colour-base algorithms (element_recursion<N>), proxy operator= / operator== plumbing, template recursion with no arithmetic',
                         'cmyk / devicen layouts have a single provided layout each (identity mapping)', 'packed pixel construction / assignment / == : complete native enumeration (stand-in), not a contract proof; bit-aligned first-bit positions are covered under C08'])
