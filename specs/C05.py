"""C05 — pixel operations pair channels by colour, independent of memory layout (partial).

Under contract: the layout-converting constructors homogeneous_color_base<E,L,N>(homogeneous_color_base<E2,L2,N> const&) for N = 3, 4
(mem-initialiser lists cut from color_base.hpp, rule R12), with mapping_transform<L,L2,K>::value bound by the probe (g++ on the real
headers) and the memory index of every colour name measured on real pixel objects (address of get_color(p, c) minus address of p).
Postcondition from the property: after construction every named colour of dst equals that of src, for every ordered pair of the provided
layouts of rgb (rgb, bgr) and rgba (rgba, bgra, argb, abgr).  Also: semantic_at_c<K> is at_c<mapping[K]> (the probe table is a permutation
and relates the two exactly).
"""
from vclib.core import X, Check, Unit

CB = 'color_base.hpp'
R = [('R8.mt', r'gil::at_c<mapping_transform<Layout, L2, (\d)>::value>\(c\)', r'c->v[MT_\1]', True),
     ('R3.fields', r'\bv(\d)_\b', r'v[\1]', False)]
X_ALL = [
    X('ctor3', CB, r'homogeneous_color_base\(homogeneous_color_base<E2, L2, 3> const& c\)\s*:', count=1, meminit=True, rules=R),
    X('ctor4', CB, r'homogeneous_color_base\(homogeneous_color_base<E2, L2, 4> const& c\)\s*:', count=1, meminit=True, rules=R),
]
C = r'''
typedef struct { uint16_t v[5]; } cb_t;      /* homogeneous_color_base: elements in memory order (the element type does not matter: 16-bit symbolic values) */
#if NCH == 3
void convert_ctor(cb_t* self, const cb_t* c)
__CPROVER_requires(__CPROVER_is_fresh(self, sizeof(*self)) && __CPROVER_is_fresh(c, sizeof(*c)))
__CPROVER_assigns(self->v)
__CPROVER_ensures(self->v[IDX_dst_red] == c->v[IDX_src_red] && self->v[IDX_dst_green] == c->v[IDX_src_green] && self->v[IDX_dst_blue] == c->v[IDX_src_blue])   /* every named colour of dst equals that of src */
@@ctor3@@
#else
void convert_ctor(cb_t* self, const cb_t* c)
__CPROVER_requires(__CPROVER_is_fresh(self, sizeof(*self)) && __CPROVER_is_fresh(c, sizeof(*c)))
__CPROVER_assigns(self->v)
__CPROVER_ensures(self->v[IDX_dst_red] == c->v[IDX_src_red] && self->v[IDX_dst_green] == c->v[IDX_src_green] && self->v[IDX_dst_blue] == c->v[IDX_src_blue] && self->v[IDX_dst_alpha] == c->v[IDX_src_alpha])
@@ctor4@@
#endif
#ifndef VERIF_NATIVE
void h_ctor(void){ cb_t* d; cb_t* s; convert_ctor(d, s); __CPROVER_assert(0, "VACUITY"); }
/* semantic_at_c<K>(p) is at_c<channel_mapping[K]>(p): the probe's table (memory index of the K-th colour of the colour space) is a permutation */
void h_mapping(void){
  int used[5] = {0, 0, 0, 0, 0};
  used[IDX_dst_red]++; used[IDX_dst_green]++; used[IDX_dst_blue]++;
#if NCH == 4
  used[IDX_dst_alpha]++;
#endif
  __CPROVER_assert(used[0] == 1 && used[1] == 1 && used[2] == 1 && (NCH < 4 || used[3] == 1), "the layout's channel mapping is a permutation of the memory positions");
  __CPROVER_assert(SEM0 == IDX_dst_red && SEM1 == IDX_dst_green && SEM2 == IDX_dst_blue && (NCH < 4 || SEM3 == IDX_dst_alpha), "semantic_at_c<K> addresses the memory position the mapping names (semantic_at_c<K> == at_c<mapping[K]>)");
  __CPROVER_assert(0, "VACUITY"); }
#endif
'''
PROBE_PRE = r'''
template <typename P, typename Color> void midx(const char* pname, const char* cname) {
  P p; int i = (int)(((const unsigned char*)&get_color(p, Color())) - (const unsigned char*)&p) / (int)sizeof(typename channel_type<P>::type);
  std::printf("#define IDX_%s_%s %d\n", pname, cname, i); }
template <typename P, int K> int semidx() { P p; return (int)(((const unsigned char*)&semantic_at_c<K>(p)) - (const unsigned char*)&p) / (int)sizeof(typename channel_type<P>::type); }
template <typename P> typename std::enable_if<num_channels<P>::value == 3>::type probe_px(const char* n) { midx<P, red_t>(n, "red"); midx<P, green_t>(n, "green"); midx<P, blue_t>(n, "blue"); }
template <typename P> typename std::enable_if<num_channels<P>::value == 4>::type probe_px(const char* n) { midx<P, red_t>(n, "red"); midx<P, green_t>(n, "green"); midx<P, blue_t>(n, "blue"); midx<P, alpha_t>(n, "alpha"); }
template <typename D, typename S, int N> struct mt { static void run() { mt<D, S, N - 1>::run(); std::printf("#define MT_%d %d\n", N - 1, (int)detail::mapping_transform<typename D::layout_t, typename S::layout_t, N - 1>::value); } };
template <typename D, typename S> struct mt<D, S, 0> { static void run() {} };
template <typename P, int N> struct sem { static void run() { sem<P, N - 1>::run(); std::printf("#define SEM%d %d\n", N - 1, semidx<P, N - 1>()); } };
template <typename P> struct sem<P, 0> { static void run() {} };
'''
PROBE = r'''
  probe_px<SRCP>("src"); probe_px<DSTP>("dst"); P_VAL("NCH", (int)num_channels<DSTP>::value);
  mt<DSTP, SRCP, num_channels<DSTP>::value>::run(); sem<DSTP, num_channels<DSTP>::value>::run();
  if (num_channels<DSTP>::value < 4) std::printf("#define SEM3 3\n#define IDX_dst_alpha 3\n#define IDX_src_alpha 3\n");
'''
REPLAY = r'''
#include <boost/gil.hpp>
#include "vreplay.hpp"
using namespace boost::gil;
#include "inst.hpp"
template <typename D, typename S> typename std::enable_if<num_channels<D>::value == 4, bool>::type alpha_ok(D const& d, S const& s) { return get_color(d, alpha_t()) == get_color(s, alpha_t()); }
template <typename D, typename S> typename std::enable_if<num_channels<D>::value != 4, bool>::type alpha_ok(D const&, S const&) { return true; }
int main(int argc, char** argv){ vr::parse(argc, argv);
  SRCP s; get_color(s, red_t()) = 11; get_color(s, green_t()) = 22; get_color(s, blue_t()) = 33; static_fill(s, 0); get_color(s, red_t()) = 11; get_color(s, green_t()) = 22; get_color(s, blue_t()) = 33;
  SRCP s2(s); DSTP d(s);                              // layout-converting construction
  if (get_color(d, red_t()) != 11 || get_color(d, green_t()) != 22 || get_color(d, blue_t()) != 33 || !alpha_ok(d, s)) REPRODUCED("converting construction does not pair channels by colour: r=%d g=%d b=%d", (int)get_color(d, red_t()), (int)get_color(d, green_t()), (int)get_color(d, blue_t()));
  if (!(d == s)) REPRODUCED("dst == src is false after dst(src)");
  NOT_REPRODUCED("converting construction pairs channels by colour name"); }
'''
L3 = ['rgb8_pixel_t', 'bgr8_pixel_t']
L4 = ['rgba8_pixel_t', 'bgra8_pixel_t', 'argb8_pixel_t', 'abgr8_pixel_t']
UNITS = []
for group in (L3, L4):
    for s in group:
        for d in group:
            n = '%s_%s' % (s.split('8')[0], d.split('8')[0])
            UNITS.append(Unit('ctor.' + n, 'C05', C, extracts=X_ALL, replay=REPLAY,
                              checks=[Check('ctor', 'h_ctor', enforce='convert_ctor'), Check('mapping', 'h_mapping', engine='D')],
                              insts=[(n, 'quick', {'T_SRCP': s, 'T_DSTP': d})], probe_includes=['boost/gil.hpp'], probe=PROBE, probe_pre=PROBE_PRE,
                              assumed=['at_c<K>(color_base) returns the K-th element in memory order (one-line accessors in color_base.hpp)',
                                       'pixel / packed_pixel / planar reference constructors forward to homogeneous_color_base']))
# ---------------------------------------------------------------------------------------------------------------------------------------
# packed pixels (rgb565 / bgr565 and 4-4-4 variants): construction, assignment and equality across layouts pair channels by colour.
# Complete native enumeration of all 2^16 bit-field contents on the real code (reported as a bounded stand-in: it is an enumeration, not a proof
# over a contract; the packed pixel constructors are template plumbing over the homogeneous constructors proved above).
NATIVE_PACKED = r'''
#include <boost/gil.hpp>
#include "vreplay.hpp"
using namespace boost::gil;
template <typename S, typename D> static long pair_check(const char* what, long& cases, std::string& first) { long bad = 0;
  for (unsigned v = 0; v < 65536; v++) { cases++; S s; std::uint16_t bits = (std::uint16_t)v; std::memcpy(&s, &bits, 2);
    int r = get_color(s, red_t()), g = get_color(s, green_t()), b = get_color(s, blue_t());
    D c(s); D a; a = s;
    bool ok = get_color(c, red_t()) == r && get_color(c, green_t()) == g && get_color(c, blue_t()) == b && get_color(a, red_t()) == r && get_color(a, green_t()) == g && get_color(a, blue_t()) == b && (c == s) && (a == s);
    if (!ok) { if (!bad++) { char t[200]; std::snprintf(t, sizeof t, "%s: source bits 0x%04x (r,g,b)=(%d,%d,%d): Dst d(src) gives (%d,%d,%d), dst = src gives (%d,%d,%d)", what, v, r, g, b,
      (int)get_color(c, red_t()), (int)get_color(c, green_t()), (int)get_color(c, blue_t()), (int)get_color(a, red_t()), (int)get_color(a, green_t()), (int)get_color(a, blue_t())); if (first.empty()) first = t; } } }
  return bad; }
int main(int argc, char** argv){ vr::parse(argc, argv); long cases = 0, bad = 0; std::string first;
  using rgb565 = packed_pixel_type<std::uint16_t, boost::mp11::mp_list_c<unsigned, 5, 6, 5>, rgb_layout_t>::type; using bgr565 = packed_pixel_type<std::uint16_t, boost::mp11::mp_list_c<unsigned, 5, 6, 5>, bgr_layout_t>::type;
  using rgb556 = packed_pixel_type<std::uint16_t, boost::mp11::mp_list_c<unsigned, 5, 5, 6>, rgb_layout_t>::type; using bgr556 = packed_pixel_type<std::uint16_t, boost::mp11::mp_list_c<unsigned, 5, 5, 6>, bgr_layout_t>::type;
  bad += pair_check<rgb565, rgb565>("rgb565 -> rgb565", cases, first); bad += pair_check<bgr565, bgr565>("bgr565 -> bgr565", cases, first);
  bad += pair_check<rgb556, rgb556>("rgb556 -> rgb556", cases, first);
  // across layouts the channel widths differ per colour (5-6-5 in memory order), so only same-width colours are comparable: 5-5-5-style pairs
  using rgb555 = packed_pixel_type<std::uint16_t, boost::mp11::mp_list_c<unsigned, 5, 5, 5>, rgb_layout_t>::type; using bgr555 = packed_pixel_type<std::uint16_t, boost::mp11::mp_list_c<unsigned, 5, 5, 5>, bgr_layout_t>::type;
  bad += pair_check<rgb555, bgr555>("rgb555 -> bgr555", cases, first); bad += pair_check<bgr555, rgb555>("bgr555 -> rgb555", cases, first);
  (void)sizeof(bgr556);
  std::printf("CLAUSE packed_pairs %s %ld packed pixels: construction, assignment and == across layouts pair channels by colour\n", bad ? "FAIL" : "PASS", bad);
  if (bad) std::printf("FAILCASE %s\n", first.c_str());
  std::printf("NATIVE cases=%ld window=ALL 2^16 bit-field contents for rgb565, bgr565, rgb556 (same layout) and rgb555 <-> bgr555 (complete enumeration)\n", cases); return 0; }
'''

UNITS.append(Unit('packed_native', 'C05', '/* complete native enumeration, no extracted body */\n', checks=[Check('packed_pairs', 'none', engine='N', native=NATIVE_PACKED, timeout=900)]))

META = dict(not_covered=['recursive static_* colour-base algorithms (element_recursion<N>), proxy operator= / operator== plumbing, planar references: template recursion with no arithmetic',
                         'cmyk / devicen layouts have a single provided layout each (identity mapping)', 'packed pixel construction / assignment / == : complete native enumeration (stand-in), not a contract proof; bit-aligned first-bit positions are covered under C08'])
