"""C11 (part) — TARGA RLE decoder reader::read_rle_data (targa/detail/read.hpp): the decoding loop.

Under contract: the statement block of read_rle_data from the size computation to the end of the chunk loop (everything before the rows are
handed to the colour-conversion policy), cut on every run.  `byte_vector_t image_data(n)` becomes a ghost buffer of n bytes; memcpy into it and
device reads into it become ghost writes carrying the obligation "inside the image buffer"; the device is the ghost of specs/bmp_rle.py.
Obligations: every run chunk and raw chunk stays inside the buffer for EVERY byte sequence; the declared size is computed without overflow
and is width * height * bytes_per_pixel; the loop terminates (variant: bytes of the image still to produce).
"""
from vclib.core import X, Check, Unit

TGA = 'boost/gil/extension/io/targa/detail/read.hpp'
def lower_pixel_read(body):
    """the run packet's pixel value: either one checked read_uint8() per channel (loop) or one read(pixel_data, n) call; both are lowered to
    ghost reads that record how many bytes of pixel_data came from the input"""
    import re
    body, a = re.subn(r'for\( size_t channel = 0; channel < bytes_per_pixel; \+\+channel \)\s*\{\s*pixel_data\[channel\] = this->_io_dev\.read_uint8\(\);\s*\}',
                      'for( size_t channel = 0; channel < bytes_per_pixel; ++channel )\nCHANNEL_LOOP_CONTRACT\n{ pixel_data[channel] = DEV_read_uint8(); PD_SET(channel); }', body)
    body, b = re.subn(r'this->_io_dev\.read\( pixel_data, bytes_per_pixel \)', 'DEV_read_buf(bytes_per_pixel)', body)
    return body, a + b


R_TGA = [
    ('R8.depth_t', r'targa_depth::type', 'DEPTH_T', True), ('R8.offset_t', r'targa_offset::type', 'OFFSET_T', True),
    ('R14.alloc', r'byte_vector_t image_data\( image_size \);', 'IMG_ALLOC(image_size);', True),
    ('R11.seek', r'this->_io_dev\.seek\( static_cast< long >\( this->_info\._offset \)\);', 'DEV_seek();', True),
    ('R14.memcpy', r'memcpy\( &image_data\[pixel\], pixel_data, bytes_per_pixel \);', 'IMG_WRITE(pixel, bytes_per_pixel);', True),
    ('R14.read_into', r'this->_io_dev\.read\( &image_data\[pixel\], pixels_written \);', 'DEV_read_into(pixel, pixels_written);', True),
    ('R11.io_error', r'io_error\( "[^"]*" \);', 'THROW();', False),
    ('L.outer', r'for\( size_t pixel = 0; pixel < image_size; \)', 'for( size_t pixel = 0; pixel < image_size; )\nOUTER_LOOP_CONTRACT', True),
    ('R14.pixel_read', lower_pixel_read, None, True),
    ('R11.read8', r'this->_io_dev\.read_uint8\(\)', 'DEV_read_uint8()', True),
    ('R14.pd_decl', r'uint8_t pixel_data\[4\];', 'uint8_t pixel_data[4]; g_pd_init = 0;', True),
    ('L.run', r'for\( uint8_t i = 0; i < chunk_length; \+\+i, pixel \+= bytes_per_pixel \)', 'for( uint8_t i = 0; i < chunk_length; ++i, pixel += bytes_per_pixel )\nRUN_LOOP_CONTRACT', True),
]
X_TGA = [X('size_expr', TGA, r'void read_rle_data\( const View_Dst& view \)\s*\{.*?size_t image_size = (.*?);', kind='expr', rules=[]),
         X('rle_decode', TGA, r'void read_rle_data\( const View_Dst& view \)\s*\{(.*?)View_Src v = flipped_up_down_view', kind='expr', rules=R_TGA)]
TGA_C = r'''
#ifndef BPP_CASE
#define BPP_CASE 24
#endif
#define THROW() __CPROVER_assume(0)            /* a C++ exception leaves the decoder: the path ends here */
typedef struct { WIDTH_T _width; HEIGHT_T _height; DEPTH_T _bits_per_pixel; OFFSET_T _offset; } info_t;
typedef struct { info_t _info; } rdr_t;
size_t g_remaining;                             /* ghost device: bytes left in the (finite, arbitrary) input */
static uint8_t DEV_read_uint8(void) { if (g_remaining == 0) THROW(); g_remaining = g_remaining - 1; uint8_t b; return b; }
static void DEV_seek(void) { size_t r; g_remaining = r <= ((size_t)1 << 40) ? r : 0; }
size_t g_img_n;                                 /* ghost std::vector<byte_t> image_data(n) */
#define IMG_ALLOC(n) { g_img_n = (n); }
size_t g_pd_init;                               /* ghost: how many leading bytes of pixel_data[4] hold bytes of the input */
#define PD_SET(c) { if ((c) == g_pd_init) g_pd_init = g_pd_init + 1; }
/* read(byte_t* data, count) into pixel_data: delivers at most count bytes, fewer at the end of the input, and returns their number */
static size_t DEV_read_buf(size_t n) { __CPROVER_assert(n <= 4, "the device read into pixel_data[4] stays inside the array"); size_t k; __CPROVER_assume(k <= n && k <= g_remaining); g_remaining = g_remaining - k; g_pd_init = k; return k; }
#define IMG_WRITE(off, n) { __CPROVER_assert((off) <= g_img_n && (size_t)(n) <= g_img_n - (off), "run chunk: memcpy into image_data stays inside the buffer"); \
  __CPROVER_assert(g_pd_init >= (size_t)(n), "run chunk: every byte copied from pixel_data came from the input (no uninitialised byte of a short read is used as data)"); }
/* read(byte_t* data, count): delivers at most count bytes, fewer at the end of the input (not an error for this overload) */
static void DEV_read_into(size_t off, size_t n) { __CPROVER_assert(off <= g_img_n && n <= g_img_n - off, "raw chunk: the device read into image_data stays inside the buffer");
  size_t k; __CPROVER_assume(k <= n && k <= g_remaining); g_remaining = g_remaining - k; }
#define OUTER_LOOP_CONTRACT \
  __CPROVER_assigns(pixel, g_remaining, g_pd_init) \
  __CPROVER_loop_invariant(pixel <= image_size && g_img_n == image_size && g_remaining <= ((size_t)1 << 40)) \
  __CPROVER_decreases(image_size - pixel)
#define CHANNEL_LOOP_CONTRACT \
  __CPROVER_assigns(channel, g_remaining, g_pd_init, __CPROVER_object_whole(pixel_data)) \
  __CPROVER_loop_invariant(channel <= bytes_per_pixel && g_pd_init == channel && g_remaining <= __CPROVER_loop_entry(g_remaining)) \
  __CPROVER_decreases(bytes_per_pixel - channel)
#define RUN_LOOP_CONTRACT \
  __CPROVER_assigns(i, pixel) \
  __CPROVER_loop_invariant(i <= chunk_length && pixel == __CPROVER_loop_entry(pixel) + (size_t)i * bytes_per_pixel) \
  __CPROVER_decreases(chunk_length - i)
void read_rle_data(rdr_t* self)
__CPROVER_requires(__CPROVER_is_fresh(self, sizeof(*self)))
__CPROVER_requires(self->_info._bits_per_pixel == BPP_CASE)      /* the depths reader::apply dispatches to the RLE decoder: 24 and 32, one proof each */
__CPROVER_assigns(g_remaining, g_img_n, g_pd_init)
__CPROVER_ensures(g_remaining <= ((size_t)1 << 40))      /* (the size of the buffer is the subject of the lemma hz_image_size: products are out of reach of the SAT back end) */
{
  @@rle_decode@@
}
size_t image_size_expr(const rdr_t* self, DEPTH_T bytes_per_pixel) { return @@size_expr@@; }
#ifndef VERIF_NATIVE
/* the size expression of read_rle_data, in integer theory: no overflow in its evaluation, and it is width * height * bytes_per_pixel */
void hz_image_size(void){ rdr_t s; __CPROVER_assume(s._info._bits_per_pixel == 24 || s._info._bits_per_pixel == 32);
  size_t image_size = image_size_expr(&s, s._info._bits_per_pixel / 8);
  __CPROVER_assert(image_size == (size_t)s._info._width * (size_t)s._info._height * (size_t)(s._info._bits_per_pixel / 8), "read_rle_data: image_data holds exactly width * height * bytes_per_pixel bytes");
  __CPROVER_assert(0, "VACUITY"); }
void h_read_rle_data(void){ rdr_t* s; size_t n; g_remaining = n; read_rle_data(s); __CPROVER_assert(0, "VACUITY"); }
#endif
'''
TGA_PROBE = r'''
  P_TYPE("WIDTH_T", decltype(image_read_info<targa_tag>()._width)); P_TYPE("HEIGHT_T", decltype(image_read_info<targa_tag>()._height)); P_TYPE("DEPTH_T", targa_depth::type); P_TYPE("OFFSET_T", targa_offset::type);
'''
TGA_WINDOW = r'''
#include <boost/gil.hpp>
#include <boost/gil/extension/io/targa.hpp>
#include <sstream>
#include <string>
#include <vector>
#include <csignal>
#include <unistd.h>
#include <sanitizer/common_interface_defs.h>
#include "vreplay.hpp"
using namespace boost::gil;
static std::string g_case; static long g_cases = 0, g_fail = 0; static std::string g_first;
static void on_death() { std::fprintf(stderr, "\nFAILING INPUT: %s\n", g_case.c_str()); }
static void on_alarm(int) { std::printf("\nFAILING INPUT: %s\nREPRODUCED: the decoder did not terminate within 120 s\nCLAUSE tga_window FAIL 1 the decoder terminates\nFAILCASE no termination on %s\nNATIVE cases=%ld window=stopped by the watchdog\n", g_case.c_str(), g_case.c_str(), g_cases); std::fflush(stdout); _exit(1); }
static void le16(std::string& s, unsigned v) { s.push_back((char)(v & 255)); s.push_back((char)((v >> 8) & 255)); }
static std::string hexs(std::string const& s) { static const char* d = "0123456789abcdef"; std::string o; for (unsigned char c : s) { o.push_back(d[c >> 4]); o.push_back(d[c & 15]); o.push_back(' '); } return o; }
static std::string tga(int w, int h, int bpp, int type, int descriptor, std::string const& data) { std::string s; s.push_back(0); s.push_back(0); s.push_back((char)type); le16(s, 0); le16(s, 0); s.push_back(0); le16(s, 0); le16(s, 0); le16(s, w); le16(s, h); s.push_back((char)bpp); s.push_back((char)descriptor); return s + data; }
// output must not depend on what the stack held before the call (uninitialised bytes of a short read used as pixel data)
static void __attribute__((noinline)) scribble(unsigned char v) { volatile unsigned char a[32768]; for (size_t i = 0; i < sizeof a; i++) a[i] = v; }
template <typename Img> static unsigned long __attribute__((noinline)) decode_hash(std::string const& bytes) { std::istringstream in(bytes, std::ios::binary); Img img; unsigned long h = 1469598103934665603ul;
  try { read_image(in, img, targa_tag()); } catch (std::exception const&) { return 1; }
  for (auto p : view(img)) for (int c = 0; c < (int)num_channels<Img>::value; c++) h = (h ^ (unsigned long)p[c]) * 1099511628211ul; return h; }
template <typename Img> static void feed_twice(std::string const& bytes, std::string const& desc) { g_cases++; g_case = desc; alarm(120);
  scribble(0xAA); unsigned long h1 = decode_hash<Img>(bytes); scribble(0x55); unsigned long h2 = decode_hash<Img>(bytes); alarm(0);
  if (h1 != h2) { g_fail++; if (g_first.empty()) g_first = "decoded pixels depend on indeterminate memory (two runs over the same bytes differ) on " + desc; } }
template <typename Img> static void feed(std::string const& bytes, std::string const& desc) { g_cases++; g_case = desc; std::istringstream in(bytes, std::ios::binary); Img img;
  alarm(120); try { read_image(in, img, targa_tag()); } catch (std::exception const&) {} alarm(0); }
static void window(bool thorough) {
  for (int bpp : {24, 32}) { int B = bpp / 8; std::vector<std::string> A;
    for (int n : {1, 2, 3, 5, 128}) { std::string r; r.push_back((char)(0x80 | (n - 1))); r += std::string(B, (char)0x55); A.push_back(r); }       // run chunks
    for (int n : {1, 2, 4, 128}) { std::string r; r.push_back((char)(n - 1)); r += std::string(n * B, (char)0x33); A.push_back(r); }                 // raw chunks
    { std::string r; r.push_back((char)3); r += std::string(B, (char)0x11); A.push_back(r); }                                                       // raw chunk cut short
    const int depth = thorough ? 4 : 3; std::vector<int> idx(depth, 0); bool done = false;
    while (!done) { std::string data; for (int d = 0; d < depth; d++) data += A[idx[d]];
      for (int w : {1, 2, 3, 5}) for (int h : {1, 2, 3}) for (int descr : {bpp == 32 ? 8 : 0, bpp == 32 ? 40 : 0x20}) {
        std::string desc = "TGA " + std::to_string(w) + "x" + std::to_string(h) + " bpp=" + std::to_string(bpp) + " type=10 descriptor=" + std::to_string(descr) + " data: " + (data.size() > 40 ? hexs(data.substr(0, 40)) + "... (" + std::to_string(data.size()) + " bytes)" : hexs(data));
        if (bpp == 24) feed<rgb8_image_t>(tga(w, h, bpp, 10, descr, data), desc); else feed<rgba8_image_t>(tga(w, h, bpp, 10, descr, data), desc); }
      int d = depth - 1; while (d >= 0 && ++idx[d] == (int)A.size()) { idx[d] = 0; d--; } if (d < 0) done = true; } }
  // every prefix of valid RLE streams (runs and raw packets): the result must not depend on indeterminate memory
  for (int bpp : {24, 32}) { int B = bpp / 8; std::string data; data.push_back((char)0x82); data += std::string(B, (char)0x41); data.push_back((char)0x01); data += std::string(2 * B, (char)0x42); data.push_back((char)0x83); data += std::string(B, (char)0x43);
    for (size_t cut = 0; cut <= data.size(); cut++) { std::string desc = "TGA 3x3 bpp=" + std::to_string(bpp) + " type=10, RLE data truncated to " + std::to_string(cut) + " bytes: " + hexs(data.substr(0, cut));
      if (bpp == 24) feed_twice<rgb8_image_t>(tga(3, 3, bpp, 10, 0, data.substr(0, cut)), desc); else feed_twice<rgba8_image_t>(tga(3, 3, bpp, 10, 8, data.substr(0, cut)), desc); } }
  // uncompressed, truncated at every length
  for (int bpp : {24, 32}) for (int w : {1, 3}) for (int h : {1, 2}) { std::string full = tga(w, h, bpp, 2, bpp == 32 ? 8 : 0, std::string(w * h * (bpp / 8), (char)0x22));
    for (size_t cut = 0; cut <= full.size(); cut++) { std::string desc = "TGA uncompressed " + std::to_string(w) + "x" + std::to_string(h) + " bpp=" + std::to_string(bpp) + " truncated to " + std::to_string(cut) + " bytes";
      if (bpp == 24) feed<rgb8_image_t>(full.substr(0, cut), desc); else feed<rgba8_image_t>(full.substr(0, cut), desc); } } }
'''
TGA_NATIVE = TGA_WINDOW + r'''
int main(int argc, char** argv){ vr::parse(argc, argv); __sanitizer_set_death_callback(on_death); signal(SIGALRM, on_alarm);
  window(vr::str("tier") == "thorough");
  std::printf("CLAUSE tga_window %s %ld every crafted TARGA file is decoded or rejected with no sanitizer report, no hang and no dependence on indeterminate memory\n", g_fail ? "FAIL" : "PASS", g_fail);
  if (g_fail) std::printf("FAILCASE %s\n", g_first.c_str());
  std::printf("NATIVE cases=%ld window=all RLE chunk sequences of length 3 (quick) or 4 (thorough) over 10 chunks (runs of 1,2,3,5,128, raw chunks of 1,2,4,128, one raw chunk cut short), 24 and 32 bpp, images 1,2,3,5 x 1,2,3, both origins; uncompressed files truncated at every length\n", g_cases); return 0; }
'''
TGA_REPLAY = TGA_WINDOW + r'''
int main(int argc, char** argv){ vr::parse(argc, argv); __sanitizer_set_death_callback(on_death); signal(SIGALRM, on_alarm);
  window(true);
  if (g_fail) REPRODUCED("%s", g_first.c_str());
  NOT_REPRODUCED("no crafted TARGA file of the search window (%ld files) misbehaves", g_cases); }
'''
UNITS = [
    Unit('targa_rle', 'C11', TGA_C, extracts=X_TGA, probe_includes=['boost/gil.hpp', 'boost/gil/extension/io/targa.hpp'], probe=TGA_PROBE, insts=[('rle', 'quick', {})], replay=TGA_REPLAY,
         checks=[Check('read_rle_data', 'h_read_rle_data', enforce='read_rle_data', loops=True, timeout=1200, partition=('BPP_CASE', [24, 32])),
                 Check('image_size', 'hz_image_size', engine='Z', timeout=300)],
         preconditions=['bit depths reader::apply dispatches to read_rle_data: 24, 32', 'input length <= 2^40 bytes'],
         assumed=['std::vector<byte_t>(n) is a buffer of n bytes (ghost); memcpy(dst, src, n) writes n bytes at dst',
                  'read(byte_t*, count) delivers at most count bytes; read_uint8 throws at the end of the input (unit device_read)',
                  'the rows are handed to the colour-conversion policy after the loop (not extracted)']),
    Unit('targa_native', 'C11', '/* bounded native stand-in, no extracted body */\n',
         checks=[Check('tga_window', 'none', engine='N', native=TGA_NATIVE, timeout=1800, flags=['sanitize'])]),
]
