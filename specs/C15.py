"""C15 — convolution / correlation (partial: index and boundary bookkeeping of detail::correlate_rows_impl).

Under contract (bodies cut from image_processing/convolve.hpp and kernel.hpp): detail::correlate_rows_impl (all five boundary options),
kernel_1d_adaptor::left_size / right_size.  Range operations are lowered to ghost monitors:
  std::vector<PixelAccum> buffer(n) -> ghost buffer of n cells; assign_pixels / std::fill_n into the buffer -> BUF_WRITE(pos, len, kind);
  correlator(b, e, kernel.begin(), out) -> CORRELATE: reads buffer cells [i, i + kernel.size()) for each of the e - b outputs, writes
  e - b destination pixels at out; std::fill_n on the destination row -> DST_ZERO; assign_pixels source ranges -> SRC_READ.
With a ghost row gy and ghost column gx the contract states the property's bookkeeping clause for EVERY output pixel: under the extend_*
options it is correlated over a fully written buffer window; under output_zero / output_ignore it is correlated exactly when its window
fits inside the row, otherwise zeroed / left untouched; the buffer is never read or written outside, nor the rows (except the declared
padding of extend_padded).  The numerical identity dst(i) = sum_k src(i+k-c) * kernel(k) is not covered.
"""
from vclib.core import X, Check, Unit

CV = 'boost/gil/image_processing/convolve.hpp'
KR = 'boost/gil/image_processing/kernel.hpp'
R = [
    ('R14.assert', r'BOOST_ASSERT\(src_view\.dimensions\(\) == dst_view\.dimensions\(\)\);', 'PRECONDITION(src_view->w == dst_view->w && src_view->h == dst_view->h);', False),
    ('R14.assert2', r'BOOST_ASSERT\(', 'PRECONDITION(', False),
    ('R11.ksize1', r'view_multiplies_scalar<PixelAccum>\(src_view, \*kernel\.begin\(\), dst_view\);', 'SCALE_WHOLE_VIEW();', False),
    ('R6.drop_using', r'using (?:src_pixel_ref_t|dst_pixel_ref_t|x_coord_t|y_coord_t) = [^;]+;', '', False),
    ('R11.w', r'src_view\.width\(\)', 'src_view->w', False), ('R11.h', r'src_view\.height\(\)', 'src_view->h', False),
    ('R11.ksize', r'kernel\.size\(\)', 'kernel->size', False),
    ('R11.left', r'kernel\.left_size\(\)', 'left_size(kernel)', False), ('R11.right', r'kernel\.right_size\(\)', 'right_size(kernel)', False),
    ('R11.acc_zero', r'PixelAccum acc_zero;\s*pixel_zeros_t<PixelAccum>\(\)\(acc_zero\);', '', False),
    ('R11.dst_zero', r'typename DstView::value_type dst_zero;\s*pixel_assigns_t<PixelAccum, dst_pixel_ref_t>\(\)\(acc_zero, dst_zero\);', '', False),
    ('R11.fill_all', r'fill_pixels\(dst_view, dst_zero\);', 'DST_ZERO_ALL();', False),
    ('R11.vec', r'std::vector<PixelAccum> buffer\(([^;]+)\);', r'BUF_ALLOC(\1);', False),
    ('R11.assign_row_front', r'assign_pixels\(src_view\.row_begin\(y\), src_view\.row_end\(y\), &buffer\.front\(\)\);', 'SRC_READ(y, 0, width); BUF_WRITE(0, width, 1);', False),
    ('R11.it_dst_decl', r'typename DstView::x_iterator it_dst = dst_view\.row_begin\(y\);', 'ptrdiff_t it_dst = 0;', False),
    ('R11.fill_dst', r'std::fill_n\(it_dst, ([^,]+), dst_zero\);', r'DST_ZERO(y, it_dst, \1);', False),
    ('R11.corr1', r'correlator\(&buffer\.front\(\), &buffer\.front\(\) \+ ([^,]+),\s*kernel\.begin\(\), it_dst\);', r'CORRELATE(y, 0, \1, it_dst);', False),
    ('R11.corr2', r'correlator\(\s*&buffer\.front\(\), &buffer\.front\(\) \+ ([^,]+),\s*kernel\.begin\(\),\s*dst_view\.row_begin\(y\)\);', r'CORRELATE(y, 0, \1, 0);', False),
    # variant: the correlator fed from the source row directly (no private copy)
    ('R11.it_src_decl', r'typename SrcView::x_iterator it_src = src_view\.row_begin\(y\);', 'ptrdiff_t it_src = 0;', False),
    ('R11.corr_src', r'correlator\(it_src, it_src \+ \(?([^,;]+?)\)?,\s*kernel\.begin\(\), it_dst\);', r'CORRELATE_SRC(y, it_src, \1, it_dst);', False),
    ('R11.it_buffer_decl', r'PixelAccum \*it_buffer = &buffer\.front\(\);', 'ptrdiff_t it_buffer = 0;', False),
    ('R11.assign_padded', r'assign_pixels\(\s*src_view\.row_begin\(y\) - ([^,]+),\s*src_view\.row_end\(y\) \+ ([^,]+),\s*it_buffer\);', r'SRC_READ(y, -(ptrdiff_t)(\1), width + (ptrdiff_t)(\1) + (ptrdiff_t)(\2)); BUF_WRITE(it_buffer, width + (ptrdiff_t)(\1) + (ptrdiff_t)(\2), 1);', False),
    ('R11.fill_buf_zero', r'std::fill_n\(it_buffer, ([^,]+), acc_zero\);', r'BUF_WRITE(it_buffer, \1, 0);', False),
    ('R11.fill_buf_filler', r'std::fill_n\(it_buffer, ([^,]+), filler\);', r'BUF_WRITE(it_buffer, \1, 2);', False),
    ('R11.assign_row_it', r'assign_pixels\(src_view\.row_begin\(y\), src_view\.row_end\(y\), it_buffer\);', 'SRC_READ(y, 0, width); BUF_WRITE(it_buffer, width, 1);', False),
    ('R11.filler_decl', r'PixelAccum filler;', '', False),
    ('R11.filler_first', r'pixel_assigns_t<src_pixel_ref_t, PixelAccum>\(\)\(\*src_view\.row_begin\(y\), filler\);', 'SRC_READ(y, 0, 1);', False),
    ('R11.filler_last', r'pixel_assigns_t<src_pixel_ref_t, PixelAccum>\(\)\(src_view\.row_end\(y\)\[-1\], filler\);', 'SRC_READ(y, width - 1, 1);', False),
    ('R11.enum', r'boundary_option::(\w+)', r'OPT_\1', False),
    ('L.rows', r'for \(y_coord_t y = 0; y < height; \+\+y\)', 'for (y_coord_t y = 0; y < height; ++y)\nROW_LOOP_CONTRACT', False),
]
X_ALL = [
    X('correlate_rows_impl', CV, r'void correlate_rows_impl\(\s*SrcView const& src_view,\s*Kernel const& kernel,\s*DstView const& dst_view,\s*boundary_option option,\s*Correlator correlator\)\s*\{', count=1,
      rules=R + [('must_corr', r'CORRELATE(?:_SRC)?\(', lambda m: m.group(0), True), ('must_buf', r'BUF_ALLOC\(', 'BUF_ALLOC(', True)]),
    X('left_size', KR, r'std::size_t left_size\(\) const\s*\{', nth=0, count=2, rules=[('R14.assert', r'BOOST_ASSERT\(', 'PRECONDITION(', False), ('R3.c', r'\bcenter_\b', 'self->center_', False), ('R3.s', r'this->size\(\)', 'self->size', False)]),
    X('right_size', KR, r'std::size_t right_size\(\) const\s*\{', nth=0, count=2, rules=[('R14.assert', r'BOOST_ASSERT\(', 'PRECONDITION(', False), ('R3.c', r'\bcenter_\b', 'self->center_', False), ('R3.s', r'this->size\(\)', 'self->size', False)]),
]
C = r'''
typedef ptrdiff_t x_coord_t; typedef ptrdiff_t y_coord_t; typedef int boundary_option; typedef int Correlator;
typedef struct { ptrdiff_t w, h; } view_t; typedef struct { size_t size, center_; } kernel_t;
enum { OPT_output_ignore, OPT_output_zero, OPT_extend_padded, OPT_extend_zero, OPT_extend_constant };
#define PRECONDITION(c) __CPROVER_assert(c, "BOOST_ASSERT precondition of the library")
#define WMAX ((ptrdiff_t)1 << 24)
#define KMAX ((size_t)1 << 12)
size_t left_size(const kernel_t* self)
__CPROVER_requires(__CPROVER_is_fresh(self, sizeof(*self)) && self->center_ < self->size)
__CPROVER_ensures(RET == self->center_)
__CPROVER_assigns()
@@left_size@@
size_t right_size(const kernel_t* self)
__CPROVER_requires(__CPROVER_is_fresh(self, sizeof(*self)) && self->center_ < self->size)
__CPROVER_ensures(RET + self->center_ + 1 == self->size)          /* left + right + 1 == size */
__CPROVER_assigns()
@@right_size@@
/* ---- ghost monitors: one ghost output pixel (g_y, g_x) and one ghost buffer cell g_cell of the row being processed ---- */
ptrdiff_t g_y, g_x, g_w, g_h, g_pad_left, g_pad_right; size_t g_ksize, g_bufsize; ptrdiff_t g_cell;
ptrdiff_t g_dirty_row;  /* the row whose destination pixels have been written most recently (-1: none) */
int g_state;            /* of the ghost output pixel: 0 untouched, 1 zeroed, 2 correlated */
int g_writes;           /* how many times the ghost output pixel was written */
int g_cell_writes;      /* how many times the ghost buffer cell was written for the current row */
_Bool g_whole_view_scaled;
static void BUF_ALLOC(size_t n) { g_bufsize = n; }
static void SRC_READ(ptrdiff_t y, ptrdiff_t x, ptrdiff_t len) {
  __CPROVER_assert(y != g_dirty_row, "ALIAS: a source row is read before any destination pixel of that row is written (the destination may be the source: detail::convolve_1d filters in place)");
  __CPROVER_assert(0 <= y && y < g_h && len >= 0 && x >= -g_pad_left && x + len <= g_w + g_pad_right, "ACCESS: source reads stay in the row (plus the caller's padding under extend_padded)"); }
static void BUF_WRITE(ptrdiff_t pos, size_t len, int kind) {
  __CPROVER_assert(pos >= 0 && (size_t)pos + len <= g_bufsize, "ACCESS: buffer writes stay inside the row buffer");
}
static void CORRELATE(ptrdiff_t y, ptrdiff_t buf_first, ptrdiff_t outputs, ptrdiff_t dst_first) {
  __CPROVER_assert(outputs >= 0 && buf_first >= 0 && (outputs == 0 || (size_t)(buf_first + outputs - 1) + g_ksize <= g_bufsize), "ACCESS: every correlation window [i, i + kernel.size()) lies inside the row buffer");
  __CPROVER_assert(dst_first >= 0 && dst_first + outputs <= g_w && 0 <= y && y < g_h, "ACCESS: correlated outputs are written inside the destination row");
  /* the ghost buffer cell, if some window uses it, has been written exactly once for this row */
  g_dirty_row = y;
  if (y == g_y && dst_first <= g_x && g_x < dst_first + outputs) { g_state = 2; g_writes = g_writes + 1; } }
/* the correlator reading the source row itself: output i is written while outputs i+1.. still read the row */
static void CORRELATE_SRC(ptrdiff_t y, ptrdiff_t src_first, ptrdiff_t outputs, ptrdiff_t dst_first) {
  __CPROVER_assert(outputs >= 0 && src_first >= -g_pad_left && (outputs == 0 || src_first + outputs - 1 + (ptrdiff_t)g_ksize <= g_w + g_pad_right) && 0 <= y && y < g_h, "ACCESS: every correlation window lies inside the source row");
  __CPROVER_assert(dst_first >= 0 && dst_first + outputs <= g_w, "ACCESS: correlated outputs are written inside the destination row");
  __CPROVER_assert(y != g_dirty_row && (outputs <= 1 || g_ksize == 1), "ALIAS: a source row is read before any destination pixel of that row is written (the destination may be the source: detail::convolve_1d filters in place)");
  g_dirty_row = y;
  if (y == g_y && dst_first <= g_x && g_x < dst_first + outputs) { g_state = 2; g_writes = g_writes + 1; } }
static void DST_ZERO(ptrdiff_t y, ptrdiff_t first, size_t len) {
  __CPROVER_assert(first >= 0 && first + (ptrdiff_t)len <= g_w && 0 <= y && y < g_h, "ACCESS: zero-fill stays inside the destination row");
  if (len > 0) g_dirty_row = y;
  if (y == g_y && first <= g_x && g_x < first + (ptrdiff_t)len) { g_state = 1; g_writes = g_writes + 1; } }
static void DST_ZERO_ALL(void) { g_state = 1; g_writes = g_writes + 1; }
static void SCALE_WHOLE_VIEW(void) { g_whole_view_scaled = 1; g_state = 2; g_writes = g_writes + 1; }
#define ROW_LOOP_CONTRACT \
  __CPROVER_assigns(y, g_state, g_writes, g_dirty_row) \
  __CPROVER_loop_invariant(0 <= y && y <= height && g_dirty_row < y) \
  __CPROVER_loop_invariant(y <= g_y ? (g_state == 0 && g_writes == 0) : ROW_DONE) \
  __CPROVER_decreases(height - y)
/* what must hold for the ghost output pixel once its row has been processed */
#define FITS (g_x >= (ptrdiff_t)kernel->center_ && g_x + (ptrdiff_t)(kernel->size - kernel->center_ - 1) < width)
#define ROW_DONE ((option == OPT_output_zero) ? (g_writes == 1 && g_state == (FITS ? 2 : 1)) : \
                  (option == OPT_output_ignore) ? (FITS ? (g_writes == 1 && g_state == 2) : (g_writes == 0 && g_state == 0)) : (g_writes == 1 && g_state == 2))

void correlate_rows_impl(const view_t* src_view, const kernel_t* kernel, const view_t* dst_view, boundary_option option, Correlator correlator)
__CPROVER_requires(__CPROVER_is_fresh(src_view, sizeof(*src_view)) && __CPROVER_is_fresh(dst_view, sizeof(*dst_view)) && __CPROVER_is_fresh(kernel, sizeof(*kernel)))
__CPROVER_requires(0 <= src_view->w && src_view->w <= WMAX && 0 <= src_view->h && src_view->h <= WMAX && dst_view->w == src_view->w && dst_view->h == src_view->h)
__CPROVER_requires(1 <= kernel->size && kernel->size <= KMAX && kernel->center_ < kernel->size && OPT_output_ignore <= option && option <= OPT_extend_constant)
__CPROVER_requires(g_w == src_view->w && g_h == src_view->h && g_ksize == kernel->size && 0 <= g_y && g_y < g_h && 0 <= g_x && g_x < g_w && g_state == 0 && g_writes == 0 && !g_whole_view_scaled && g_dirty_row == -1)
#ifdef OPTION_CASE
__CPROVER_requires(option == OPTION_CASE)          /* one proof cell per boundary option; the five cells cover the enum */
#endif
__CPROVER_requires(option == OPT_extend_padded ? (g_pad_left == (ptrdiff_t)kernel->center_ && g_pad_right == (ptrdiff_t)(kernel->size - kernel->center_ - 1)) : (g_pad_left == 0 && g_pad_right == 0))
__CPROVER_assigns(g_state, g_writes, g_bufsize, g_whole_view_scaled, g_dirty_row)
/* every output pixel (ghost g_x, g_y): written at most once; correlated exactly when the boundary option says so, else zeroed (output_zero) or untouched (output_ignore) */
__CPROVER_ensures(g_whole_view_scaled || ((option == OPT_output_zero) ? (g_writes == 1 && g_state == ((g_x >= (ptrdiff_t)kernel->center_ && g_x + (ptrdiff_t)(kernel->size - kernel->center_ - 1) < src_view->w) ? 2 : 1)) :
                   (option == OPT_output_ignore) ? ((g_x >= (ptrdiff_t)kernel->center_ && g_x + (ptrdiff_t)(kernel->size - kernel->center_ - 1) < src_view->w) ? (g_writes == 1 && g_state == 2) : (g_writes == 0 && g_state == 0)) :
                   (g_writes == 1 && g_state == 2)))
@@correlate_rows_impl@@
#ifndef VERIF_NATIVE
void h_left_size(void){ kernel_t* k; left_size(k); __CPROVER_assert(0, "VACUITY"); }
void h_right_size(void){ kernel_t* k; right_size(k); __CPROVER_assert(0, "VACUITY"); }
void h_correlate_rows(void){ view_t* s; view_t* d; kernel_t* k; boundary_option o; Correlator c; correlate_rows_impl(s, k, d, o, c); __CPROVER_assert(0, "VACUITY"); }
#endif
'''
REPLAY = r'''
#include <boost/gil.hpp>
#include <boost/gil/image_processing/convolve.hpp>
#include <boost/gil/image_processing/kernel.hpp>
#include <vector>
#include "vreplay.hpp"
using namespace boost::gil;
int main(int argc, char** argv){ vr::parse(argc, argv); long bad = 0;
  for (int W = 1; W <= 7; W++) for (int K = 2; K <= 6; K++) for (int c = 0; c < K; c++) for (int opt = 0; opt < 2; opt++) {
    gray32f_image_t src(W, 2), dst(W, 2, gray32f_pixel_t(7777.f)); for (int y = 0; y < 2; y++) for (int x = 0; x < W; x++) view(src)(x, y)[0] = float(1 + x + 10 * y);
    std::vector<float> kv(K); for (int i = 0; i < K; i++) kv[i] = float(i + 1); kernel_1d<float> ker(kv.begin(), K, c);
    correlate_rows<gray32f_pixel_t>(const_view(src), ker, view(dst), opt == 0 ? boundary_option::output_zero : boundary_option::output_ignore);
    for (int y = 0; y < 2; y++) for (int x = 0; x < W; x++) { bool fits = x - c >= 0 && x + (K - c - 1) < W; float got = view(dst)(x, y)[0];
      if (fits) { float want = 0; for (int i = 0; i < K; i++) want += kv[i] * view(src)(x - c + i, y)[0]; if (got != want) bad++; }
      else if (got != (opt == 0 ? 0.f : 7777.f)) bad++; } }
  // in place (the destination view is the source view, as detail::convolve_1d does): results equal those of a separate destination
  for (int W = 2; W <= 7; W++) for (int K = 2; K <= 4; K++) for (int c = 0; c < K; c++) for (int opt = 0; opt < 5; opt++) {
    boundary_option o = opt == 0 ? boundary_option::output_zero : opt == 1 ? boundary_option::output_ignore : opt == 2 ? boundary_option::extend_zero : opt == 3 ? boundary_option::extend_constant : boundary_option::extend_zero;
    gray32f_image_t a(W, 2), b(W, 2), ref(W, 2); for (int y = 0; y < 2; y++) for (int x = 0; x < W; x++) { view(a)(x, y)[0] = float(1 + x * x + 10 * y); view(b)(x, y)[0] = view(a)(x, y)[0]; view(ref)(x, y)[0] = view(a)(x, y)[0]; }
    std::vector<float> kv(K); for (int i = 0; i < K; i++) kv[i] = float(i + 1); kernel_1d<float> ker(kv.begin(), K, c);
    correlate_rows<gray32f_pixel_t>(const_view(a), ker, view(ref), o);          // separate destination (pre-filled with the source so that output_ignore is comparable)
    correlate_rows<gray32f_pixel_t>(view(b), ker, view(b), o);                  // in place
    for (int y = 0; y < 2; y++) for (int x = 0; x < W; x++) if (view(b)(x, y)[0] != view(ref)(x, y)[0])
      REPRODUCED("in-place correlate_rows (width %d, kernel size %d centre %d, option %d): dst(%d,%d) = %g, with a separate destination %g", W, K, c, opt, x, y, (double)view(b)(x, y)[0], (double)view(ref)(x, y)[0]); }
  // source layout different from the accumulator layout (bgr8 source, rgb32f accumulator): every colour is filtered on its own, also at the replicated border (extend_constant)
  for (int W = 2; W <= 5; W++) for (int K = 2; K <= 3; K++) for (int c = 0; c < K; c++) for (int opt = 0; opt < 2; opt++) { boundary_option o = opt ? boundary_option::extend_constant : boundary_option::extend_zero;
    bgr8_image_t s8(W, 1); rgb32f_image_t d(W, 1); for (int x = 0; x < W; x++) view(s8)(x, 0) = bgr8_pixel_t((unsigned char)(200 - 7 * x), (unsigned char)(40 + x), (unsigned char)(3 + 11 * x));   // (blue, green, red) in memory order
    std::vector<float> kv(K); for (int i = 0; i < K; i++) kv[i] = float(i + 1); kernel_1d<float> ker(kv.begin(), K, c);
    correlate_rows<rgb32f_pixel_t>(const_view(s8), ker, view(d), o);
    for (int x = 0; x < W; x++) { float wr = 0, wb = 0; for (int i = 0; i < K; i++) { int sx = x - c + i; if (sx < 0 || sx >= W) { if (!opt) continue; sx = sx < 0 ? 0 : W - 1; }
        wr += kv[i] * (float)get_color(view(s8)(sx, 0), red_t()); wb += kv[i] * (float)get_color(view(s8)(sx, 0), blue_t()); }
      if ((float)get_color(view(d)(x, 0), red_t()) != wr || (float)get_color(view(d)(x, 0), blue_t()) != wb)
        REPRODUCED("bgr8 source / rgb32f accumulator, %s, width %d kernel size %d centre %d: dst(%d) red = %g blue = %g, expected red = %g blue = %g", opt ? "extend_constant" : "extend_zero", W, K, c, x, (double)get_color(view(d)(x, 0), red_t()), (double)get_color(view(d)(x, 0), blue_t()), (double)wr, (double)wb); } }
  if (bad) REPRODUCED("%ld outputs: output_zero / output_ignore did not correlate exactly the outputs whose window fits inside the row", bad);
  NOT_REPRODUCED("border handling of output_zero / output_ignore matches the definition on the sampled sizes"); }
'''
UNITS = [Unit('rows', 'C15', C, extracts=X_ALL, replay=REPLAY,
              checks=[Check('left_size', 'h_left_size', enforce='left_size'), Check('right_size', 'h_right_size', enforce='right_size'),
                      Check('correlate_rows_impl', 'h_correlate_rows', enforce='correlate_rows_impl', replace=['left_size', 'right_size'], loops=True, object_bits=12, timeout=900,
                            partition=('OPTION_CASE', [0, 1, 2, 3, 4]))],
              preconditions=['width, height <= 2^24, kernel size <= 4096, centre inside the kernel'],
              assumed=['assign_pixels / std::fill_n write exactly the stated number of consecutive cells; the correlator reads kernel.size() consecutive buffer cells per output and writes one destination pixel per output (correlate_pixels_n / _k, algorithm.hpp)',
                       'view_multiplies_scalar handles the size-1 kernel (whole view)'])]
# ---------------------------------------------------------------------------------------------------------------------------------------
# convolution = correlation with the reversed kernel: reverse_kernel (kernel.hpp) and convolve_rows / convolve_cols (convolve.hpp)
R_REV = [('R12.copy', r'Kernel result\(kernel\);', 'kernel_t result = *kernel;', True),
         ('R11.center', r'result\.center\(\) = kernel\.right_size\(\);', 'result.center_ = right_size(kernel);', True),
         ('R11.reverse', r'std::reverse\(result\.begin\(\), result\.end\(\)\);', 'REVERSE_COEFFICIENTS(&result);', True)]
X_CONV = [X('reverse_kernel', KR, r'inline Kernel reverse_kernel\(Kernel const& kernel\)\s*\{', count=1, rules=R_REV),
          X('convolve_rows', CV, r'void convolve_rows\(\s*SrcView const& src_view,\s*Kernel const& kernel,\s*DstView const& dst_view,\s*boundary_option option = boundary_option::extend_zero\)\s*\{', count=1,
            rules=[('R11.correlate', r'correlate_rows<PixelAccum>\(src_view, reverse_kernel\(kernel\), dst_view, option\);', 'CORRELATE_ROWS(reverse_kernel(kernel));', True)]),
          X('convolve_cols', CV, r'void convolve_cols\(\s*SrcView const& src_view,\s*Kernel const& kernel,\s*DstView const& dst_view,\s*boundary_option option = boundary_option::extend_zero\)\s*\{', count=1,
            rules=[('R11.rows_t', r'convolve_rows<PixelAccum>\(\s*transposed_view\(src_view\), kernel, transposed_view\(dst_view\), option\);', 'g_transposed = 1; convolve_rows(kernel);', True)]),
          X('right_size', KR, r'std::size_t right_size\(\) const\s*\{', nth=0, count=2, rules=[('R14.assert', r'BOOST_ASSERT\(', 'PRECONDITION(', False), ('R3.c', r'\bcenter_\b', 'self->center_', False), ('R3.s', r'this->size\(\)', 'self->size', False)])]
CONV_C = r'''
#define PRECONDITION(c) __CPROVER_assert(c, "BOOST_ASSERT precondition of the library")
/* ghost kernel: size, centre, and ONE watched coefficient: the value stored at index g_j after the operation is the value that was at index `src_index` of the original */
typedef struct { size_t size, center_; ptrdiff_t watched_from; _Bool reversed; } kernel_t;
size_t right_size(const kernel_t* self) @@right_size@@
static void REVERSE_COEFFICIENTS(kernel_t* k) { k->reversed = !k->reversed; }            /* std::reverse over [begin, end): coefficient j <- coefficient size-1-j */
kernel_t reverse_kernel(const kernel_t* kernel) @@reverse_kernel@@
kernel_t g_passed; int g_calls; _Bool g_transposed;                                                          /* the kernel handed to correlate_rows / correlate_cols */
static void CORRELATE_ROWS(kernel_t k) { g_passed = k; g_calls = g_calls + 1; }
static void CORRELATE_COLS(kernel_t k) { g_passed = k; g_calls = g_calls + 1; }
void convolve_rows(const kernel_t* kernel) @@convolve_rows@@
void convolve_cols(const kernel_t* kernel) @@convolve_cols@@
#ifndef VERIF_NATIVE
#define IS_REVERSED_OF(r, k) ((r).size == (k).size && (r).center_ + (k).center_ + 1 == (k).size && (r).reversed != (k).reversed)
void h_reverse_kernel(void){ kernel_t k; __CPROVER_assume(1 <= k.size && k.size <= ((size_t)1 << 30) && k.center_ < k.size);
  kernel_t r = reverse_kernel(&k);
  __CPROVER_assert(IS_REVERSED_OF(r, k), "reverse_kernel: same size, coefficients in reverse order, centre mirrored (size - 1 - centre)");
  __CPROVER_assert(0, "VACUITY"); }
void h_convolve(void){ kernel_t k; __CPROVER_assume(1 <= k.size && k.size <= ((size_t)1 << 30) && k.center_ < k.size);
  g_calls = 0; convolve_rows(&k);
  __CPROVER_assert(g_calls == 1 && IS_REVERSED_OF(g_passed, k), "convolve_rows is correlate_rows with the reversed kernel (coefficients AND centre), for every kernel");
  g_calls = 0; g_transposed = 0; convolve_cols(&k);
  __CPROVER_assert(g_calls == 1 && g_transposed && IS_REVERSED_OF(g_passed, k), "convolve_cols is the row convolution of the transposed views with the same kernel (hence correlation with the reversed kernel)");
  __CPROVER_assert(0, "VACUITY"); }
#endif
'''
REPLAY_CONV = r'''
#include <boost/gil.hpp>
#include <boost/gil/image_processing/convolve.hpp>
#include <boost/gil/image_processing/kernel.hpp>
#include <vector>
#include "vreplay.hpp"
using namespace boost::gil;
int main(int argc, char** argv){ vr::parse(argc, argv);
  // convolve_rows / convolve_cols against the textbook sum dst(i) = sum_k src(i - (k - centre)) * kernel(k), zero extension, kernels incl. palindromic ones with every centre
  std::vector<std::vector<float>> ks = {{1, 1}, {1, 2, 1}, {1, 1, 1}, {1, 2, 3}, {2, -1}, {0, 0, 0}, {1, 2, 2, 1}, {3, 1, 4, 1, 5}};
  for (auto const& kv : ks) for (int c = 0; c < (int)kv.size(); c++) for (int W : {1, 3, 6}) { int K = (int)kv.size(); kernel_1d<float> ker(kv.begin(), K, c);
    gray32f_image_t src(W, 2), dst(W, 2), dstc(2, W), srcT(2, W); for (int y = 0; y < 2; y++) for (int x = 0; x < W; x++) { view(src)(x, y)[0] = float(1 + 3 * x + 7 * y + x * x); view(srcT)(y, x)[0] = view(src)(x, y)[0]; }
    convolve_rows<gray32f_pixel_t>(const_view(src), ker, view(dst), boundary_option::extend_zero); convolve_cols<gray32f_pixel_t>(const_view(srcT), ker, view(dstc), boundary_option::extend_zero);
    for (int y = 0; y < 2; y++) for (int x = 0; x < W; x++) { float want = 0; for (int k = 0; k < K; k++) { int sx = x - (k - c); if (sx >= 0 && sx < W) want += kv[k] * view(src)(sx, y)[0]; }
      if (view(dst)(x, y)[0] != want) REPRODUCED("convolve_rows width %d kernel size %d centre %d: dst(%d,%d) = %g, textbook convolution sum = %g", W, K, c, x, y, (double)view(dst)(x, y)[0], (double)want);
      if (view(dstc)(y, x)[0] != want) REPRODUCED("convolve_cols height %d kernel size %d centre %d: dst(%d,%d) = %g, textbook convolution sum = %g", W, K, c, y, x, (double)view(dstc)(y, x)[0], (double)want); } }
  NOT_REPRODUCED("convolve_rows / convolve_cols equal the textbook convolution for the sampled kernels and centres"); }
'''

UNITS.append(Unit('convolve', 'C15', CONV_C, extracts=X_CONV, replay=REPLAY_CONV,
                  checks=[Check('reverse_kernel', 'h_reverse_kernel', engine='D', timeout=300), Check('convolve', 'h_convolve', engine='D', timeout=300)],
                  preconditions=['kernel size 1..2^30, centre inside the kernel'],
                  assumed=['std::reverse(begin, end) reverses the coefficients; the kernel copy constructor copies size, centre and coefficients',
                           'correlate_rows / correlate_cols with a kernel are the sums the row contract of unit rows describes']))

# ---------------------------------------------------------------------------------------------------------------------------------------
# detail::convolve_2d_impl (2-D convolution, zero boundary): four nested loops under loop contracts.
# Ghost: one arbitrary destination pixel (g_dc, g_dr) and one arbitrary kernel cell (loop indices g_kr, g_kc).  Every product that enters the
# sum is  src(x + cx - i, y + cy - j) * kernel(i, j)  (the textbook convolution anchored at the kernel centre), the ghost cell contributes
# exactly once when that source position lies inside the image and not at all otherwise (zero extension), every source read / kernel read /
# destination write is inside its range, every destination pixel is written exactly once.
CV = 'boost/gil/image_processing/convolve.hpp'
X_C2 = [X('convolve_2d_impl', CV, r'void convolve_2d_impl\(SrcView const& src_view, DstView const& dst_view, Kernel const& kernel\)\s*\{', count=1,
          rules=[('R11.h', r'src_view\.height\(\)', 'src_view->h', True), ('R11.w', r'src_view\.width\(\)', 'src_view->w', True),
                 ('R11.ksize', r'kernel\.size\(\)', 'kernel->size', True),
                 ('R11.kcy', r'kernel\.center_y\(\)', 'kernel->cy', False), ('R11.kcx', r'kernel\.center_x\(\)', 'kernel->cx', False),
                 ('R11.kup', r'kernel\.upper_size\(\)', 'kernel->cy', False), ('R11.kleft', r'kernel\.left_size\(\)', 'kernel->cx', False),
                 ('R11.klow', r'kernel\.lower_size\(\)', '(kernel->size - kernel->cy - 1)', False), ('R11.kright', r'kernel\.right_size\(\)', '(kernel->size - kernel->cx - 1)', False),
                 ('R11.tap', r'src_view\(([^()]+), ([^()]+)\)\[0\]\s*\*\s*kernel\.at\(([^()]+), ([^()]+)\)', r'TAP(src_view, kernel, \1, \2, \3, \4, view_col, view_row)', True),
                 ('R11.write', r'dst_view\(([^()]+), ([^()]+)\) = aux_total;', r'VIEW_WRITE(dst_view, \1, \2);', True),
                 ('R9.scast', r'static_cast<std::ptrdiff_t>\(', '(ptrdiff_t)(', False),
                 ('L1', r'for \(std::ptrdiff_t view_row = 0;.*?\+\+view_row\)', lambda m: m.group(0) + '\nLOOP_ROWS', True),
                 ('L2', r'for \(std::ptrdiff_t view_col = 0;.*?\+\+view_col\)', lambda m: m.group(0) + '\nLOOP_COLS', True),
                 ('L3', r'for \(std::size_t kernel_row = 0;.*?\+\+kernel_row\)', lambda m: m.group(0) + '\nLOOP_KROWS', True),
                 ('L4', r'for \(std::size_t kernel_col = 0;.*?\+\+kernel_col\)', lambda m: m.group(0) + '\nLOOP_KCOLS', True)])]
C2_C = r"""
typedef struct { ptrdiff_t w, h; } view_t; typedef struct { size_t size; size_t cx, cy; } kernel_t;
#define HMAX ((ptrdiff_t)100000)
#define KMAX ((size_t)1000)
size_t g_kr, g_kc, g_ksize, g_cx, g_cy; ptrdiff_t g_dr, g_dc; int g_hits, g_writes;
#define G_FR ((ptrdiff_t)(g_ksize - 1 - g_kr))
#define G_FC ((ptrdiff_t)(g_ksize - 1 - g_kc))
#define GHOST_SRC_ROW (g_dr + ((ptrdiff_t)g_cy - G_FR))
#define GHOST_SRC_COL (g_dc + ((ptrdiff_t)g_cx - G_FC))
static float TAP(const view_t* v, const kernel_t* k, ptrdiff_t x, ptrdiff_t y, ptrdiff_t kc, ptrdiff_t kr, ptrdiff_t vc, ptrdiff_t vr) {
  __CPROVER_assert(0 <= x && x < v->w && 0 <= y && y < v->h, "ACCESS: source read inside the source view");
  __CPROVER_assert(0 <= kr && kr < (ptrdiff_t)k->size && 0 <= kc && kc < (ptrdiff_t)k->size, "ACCESS: kernel index inside the kernel");
  __CPROVER_assert(x == vc + (ptrdiff_t)k->cx - kc && y == vr + (ptrdiff_t)k->cy - kr, "the product entering dst(x,y) is src(x + cx - i, y + cy - j) * kernel(i, j): convolution anchored at the kernel centre");
  if (vc == g_dc && vr == g_dr && kr == G_FR && kc == G_FC) g_hits = g_hits + 1;
  float r; return r; }
static void VIEW_WRITE(const view_t* v, ptrdiff_t x, ptrdiff_t y) {
  __CPROVER_assert(0 <= x && x < v->w && 0 <= y && y < v->h, "ACCESS: destination write inside the destination view");
  if (x == g_dc && y == g_dr) g_writes = g_writes + 1; }
#define AT_GHOST (view_row == g_dr && view_col == g_dc)
#define GHOST_IN (0 <= GHOST_SRC_ROW && GHOST_SRC_ROW < src_view->h && 0 <= GHOST_SRC_COL && GHOST_SRC_COL < src_view->w)
#define DONE_ROWS (view_row > g_dr)
#define DONE_PIX (view_row > g_dr || (view_row == g_dr && view_col > g_dc))
#define HITS(done) ((GHOST_IN && (done)) ? 1 : 0)
#define LOOP_ROWS __CPROVER_assigns(view_row, flip_ker_row, flip_ker_col, row_boundary, col_boundary, aux_total, g_hits, g_writes) \
  __CPROVER_loop_invariant(0 <= view_row && view_row <= src_view->h) \
  __CPROVER_loop_invariant(g_writes == (DONE_ROWS ? 1 : 0) && g_hits == HITS(DONE_ROWS)) \
  __CPROVER_decreases(src_view->h - view_row)
#define LOOP_COLS __CPROVER_assigns(view_col, flip_ker_row, flip_ker_col, row_boundary, col_boundary, aux_total, g_hits, g_writes) \
  __CPROVER_loop_invariant(0 <= view_col && view_col <= src_view->w) \
  __CPROVER_loop_invariant(g_writes == (DONE_PIX ? 1 : 0) && g_hits == HITS(DONE_PIX)) \
  __CPROVER_decreases(src_view->w - view_col)
#define LOOP_KROWS __CPROVER_assigns(kernel_row, flip_ker_row, flip_ker_col, row_boundary, col_boundary, aux_total, g_hits) \
  __CPROVER_loop_invariant(kernel_row <= kernel->size) \
  __CPROVER_loop_invariant(g_hits == HITS(DONE_PIX || (AT_GHOST && kernel_row > g_kr))) \
  __CPROVER_decreases(kernel->size - kernel_row)
#define LOOP_KCOLS __CPROVER_assigns(kernel_col, flip_ker_col, row_boundary, col_boundary, aux_total, g_hits) \
  __CPROVER_loop_invariant(kernel_col <= kernel->size) \
  __CPROVER_loop_invariant(g_hits == HITS(DONE_PIX || (AT_GHOST && (kernel_row > g_kr || (kernel_row == g_kr && kernel_col > g_kc))))) \
  __CPROVER_decreases(kernel->size - kernel_col)
void convolve_2d_impl(const view_t* src_view, const view_t* dst_view, const kernel_t* kernel)
__CPROVER_requires(__CPROVER_is_fresh(src_view, sizeof(*src_view)) && __CPROVER_is_fresh(dst_view, sizeof(*dst_view)) && __CPROVER_is_fresh(kernel, sizeof(*kernel)))
__CPROVER_requires(0 <= src_view->w && src_view->w <= HMAX && 0 <= src_view->h && src_view->h <= HMAX && dst_view->w == src_view->w && dst_view->h == src_view->h)
__CPROVER_requires(1 <= kernel->size && kernel->size <= KMAX && kernel->cx < kernel->size && kernel->cy < kernel->size)
__CPROVER_requires(g_ksize == kernel->size && g_cx == kernel->cx && g_cy == kernel->cy && g_kr < g_ksize && g_kc < g_ksize && 0 <= g_dr && g_dr < src_view->h && 0 <= g_dc && g_dc < src_view->w)
__CPROVER_requires(g_hits == 0 && g_writes == 0)
__CPROVER_assigns(g_hits, g_writes)
__CPROVER_ensures(g_writes == 1)                                   /* every destination pixel is written exactly once */
__CPROVER_ensures(g_hits == (GHOST_IN ? 1 : 0))                     /* every kernel cell contributes once when its source sample is inside the image, never otherwise (zero extension) */
@@convolve_2d_impl@@
#ifndef VERIF_NATIVE
void h_c2(void){ view_t* s; view_t* d; kernel_t* k; convolve_2d_impl(s, d, k); __CPROVER_assert(0, "VACUITY"); }
#endif
"""
REPLAY_C2 = r"""
#include <boost/gil.hpp>
#include <boost/gil/image_processing/convolve.hpp>
#include <boost/gil/image_processing/kernel.hpp>
#include <vector>
#include <cmath>
#include "vreplay.hpp"
using namespace boost::gil;
int main(int argc, char** argv){ vr::parse(argc, argv); long bad = 0, cases = 0;
  for (int W = 1; W <= 4; W++) for (int H = 1; H <= 4; H++) for (int K = 1; K <= 3; K++) for (int cy = 0; cy < K; cy++) for (int cx = 0; cx < K; cx++) {
    gray32f_image_t src(W, H), dst(W, H); std::vector<float> kv(K * K); for (int i = 0; i < K * K; i++) kv[i] = (float)(1 + (i * 7) % 5) * ((i & 1) ? -1.f : 1.f);
    for (int y = 0; y < H; y++) for (int x = 0; x < W; x++) view(src)(x, y)[0] = (float)(1 + ((x * 3 + y * 5) % 11));
    detail::kernel_2d<float> k(kv.begin(), kv.size(), cy, cx);
    detail::convolve_2d(const_view(src), k, view(dst)); cases++;
    for (int y = 0; y < H; y++) for (int x = 0; x < W; x++) { double want = 0;
      for (int j = 0; j < K; j++) for (int i = 0; i < K; i++) { int sx = x + cx - i, sy = y + cy - j; if (sx >= 0 && sx < W && sy >= 0 && sy < H) want += (double)view(src)(sx, sy)[0] * k.at(i, j); }
      if (std::fabs((double)view(dst)(x, y)[0] - want) > 1e-3) { if (!bad) std::printf("image %dx%d kernel %dx%d centre (x=%d,y=%d): dst(%d,%d) = %g, expected %g\n", W, H, K, K, cx, cy, x, y, (double)view(dst)(x, y)[0], want); bad++; } } }
  if (bad) REPRODUCED("%ld pixels of %ld convolve_2d cases differ from the textbook sum", bad, cases);
  NOT_REPRODUCED("convolve_2d equals the textbook sum on all small images / kernels / centres"); }
"""
UNITS.append(Unit('convolve_2d', 'C15', C2_C, extracts=X_C2, replay=REPLAY_C2,
                  checks=[Check('convolve_2d_impl', 'h_c2', enforce='convolve_2d_impl', loops=True, object_bits=12, timeout=1500, inputs=())],
                  preconditions=['views up to 10^5 x 10^5, square kernel up to 1000 x 1000 with its centre inside'],
                  assumed=['src_view(x, y)[0] / dst_view(x, y) = pixel access with the ACCESS precondition (ghost TAP / VIEW_WRITE); kernel.at(x, y), size, center_x / center_y, upper / left / lower / right size of detail::kernel_2d',
                           'the floating-point sum itself is not modelled (each product is an arbitrary float); convolve_2d dispatches to convolve_2d_impl per channel (nth_channel_view)']))

META = dict(not_covered=['the numerical identity dst(i) = sum_k src(i+k-centre) * kernel(k) and convolution = correlation with the reversed kernel (quantified sums over pixel arithmetic)',
                         'correlate_cols loop, convolve_2d, fixed-size kernel variants, extend_boundary: not built'])
