"""Shared pieces for the channel specs (C06, C07): channel instantiations, probe text, extraction
requests for the signed<->unsigned shift functors."""
from vclib.core import X

CA = 'channel_algorithm.hpp'

# name -> C++ channel value type
CHANNELS = {
    'u8': 'std::uint8_t', 'u16': 'std::uint16_t', 'u32': 'std::uint32_t',
    'i8': 'std::int8_t', 'i16': 'std::int16_t', 'i32': 'std::int32_t',
    'f32': 'float32_t',
}
for n in range(1, 33):
    CHANNELS['p%d' % n] = 'packed_channel_value<%d>' % n

PROBE_INCLUDES = ['boost/gil/channel_algorithm.hpp', 'boost/gil/typedefs.hpp']

# prints, for a channel type alias `C` and macro prefix, everything templates need
PROBE_CHANNEL = r'''
template <typename C> void probe_channel(const char* pfx) {
  using base_t = typename base_channel_type<C>::type;
  char n[64];
  std::snprintf(n, sizeof n, "%s_T", pfx);    P_TYPE(n, base_t);
  std::snprintf(n, sizeof n, "%s_MAXV", pfx); P_VAL(n, (base_t)channel_traits<C>::max_value());
  std::snprintf(n, sizeof n, "%s_MINV", pfx); P_VAL(n, (base_t)channel_traits<C>::min_value());
  std::snprintf(n, sizeof n, "%s_IS_FLOAT", pfx); P_VAL(n, (int)std::is_floating_point<base_t>::value);
  std::snprintf(n, sizeof n, "%s_IS_SIGNED", pfx); P_VAL(n, (int)(std::is_signed<base_t>::value && !std::is_floating_point<base_t>::value));
  std::snprintf(n, sizeof n, "%s_BITS", pfx); P_VAL(n, (int)(sizeof(base_t)*8));
}
'''


def shift_extracts():
    """bodies of channel_convert_to_unsigned<intN_t> / channel_convert_from_unsigned<intN_t> and identity"""
    out = []
    for n in (8, 16, 32):
        out.append(X('to_unsigned_i%d' % n, CA, r'type operator\(\)\(int%d_t\s+val\) const\s*\{' % n,
                     within=r'template <> struct channel_convert_to_unsigned<int%d_t>\s*\{' % n, count=1))
        out.append(X('from_unsigned_i%d' % n, CA, r'type operator\(\)\(uint%d_t\s+val\) const\s*\{' % n,
                     within=r'template <> struct channel_convert_from_unsigned<int%d_t>\s*\{' % n, count=1))
    return out


SHIFT_C = r'''
/* ---- signed <-> unsigned shift functors: detail::channel_convert_to_unsigned<intN_t>::operator(),
        detail::channel_convert_from_unsigned<intN_t>::operator()   (real bodies) ---- */
uint8_t to_unsigned_i8(int8_t val)
__CPROVER_ensures(I64(RET) == I64(val) + 128)
__CPROVER_assigns()
@@to_unsigned_i8@@
uint16_t to_unsigned_i16(int16_t val)
__CPROVER_ensures(I64(RET) == I64(val) + 32768)
__CPROVER_assigns()
@@to_unsigned_i16@@
uint32_t to_unsigned_i32(int32_t val)
__CPROVER_ensures(I64(RET) == I64(val) + 2147483648LL)
__CPROVER_assigns()
@@to_unsigned_i32@@
int8_t from_unsigned_i8(uint8_t val)
__CPROVER_ensures(I64(RET) == I64(val) - 128)
__CPROVER_assigns()
@@from_unsigned_i8@@
int16_t from_unsigned_i16(uint16_t val)
__CPROVER_ensures(I64(RET) == I64(val) - 32768)
__CPROVER_assigns()
@@from_unsigned_i16@@
int32_t from_unsigned_i32(uint32_t val)
__CPROVER_ensures(I64(RET) == I64(val) - 2147483648LL)
__CPROVER_assigns()
@@from_unsigned_i32@@
#ifndef VERIF_NATIVE
void h_to_unsigned_i8(void){ int8_t v; to_unsigned_i8(v); __CPROVER_assert(0, "VACUITY"); }
void h_to_unsigned_i16(void){ int16_t v; to_unsigned_i16(v); __CPROVER_assert(0, "VACUITY"); }
void h_to_unsigned_i32(void){ int32_t v; to_unsigned_i32(v); __CPROVER_assert(0, "VACUITY"); }
void h_from_unsigned_i8(void){ uint8_t v; from_unsigned_i8(v); __CPROVER_assert(0, "VACUITY"); }
void h_from_unsigned_i16(void){ uint16_t v; from_unsigned_i16(v); __CPROVER_assert(0, "VACUITY"); }
void h_from_unsigned_i32(void){ uint32_t v; from_unsigned_i32(v); __CPROVER_assert(0, "VACUITY"); }
#endif
'''

SHIFT_FUNCS = ['to_unsigned_i8', 'to_unsigned_i16', 'to_unsigned_i32',
               'from_unsigned_i8', 'from_unsigned_i16', 'from_unsigned_i32']
