"""C11 (part) — BMP RLE4 / RLE8 state machine, palette reader and the device's short-read contract.

Under contract (bodies cut from bmp/detail/read.hpp, bmp/detail/reader_backend.hpp and io/device.hpp on every run):
  reader::read_palette_image_rle   the run-length state machine: one outer loop over commands, four inner pixel loops (loop contracts);
  reader::copy_row_if_needed       the row copy into the destination view;
  reader_backend::read_palette     the palette reader;
  file_stream_device / istream_device ::read(T(&)[N])   "returns normally only when all N bytes were delivered".
std::vector iterators are lowered to indices from begin() (rule R14): `*dst_it++ = _palette[e]` becomes BUF_WRITE(dst_it, PAL_READ(e)); dst_it++.
The ghost operations carry the memory-safety obligations of the property: every row-buffer write, palette read, row copy source and
destination lies inside its container for EVERY byte sequence the device can deliver, and the command loop terminates (decreases clause:
bytes remaining in the input).
"""
from vclib.core import X, Check, Unit

BMP = 'boost/gil/extension/io/bmp/detail/read.hpp'
BMB = 'boost/gil/extension/io/bmp/detail/reader_backend.hpp'
DEV = 'boost/gil/io/device.hpp'
R_RLE = [
    ('R3.assert', r'BOOST_ASSERT\(', 'PRECONDITION(', True),
    ('R11.read_palette', r'this->read_palette\(\);', 'read_palette(self);', True),
    ('R11.seek_cur', r'this->_io_dev\.seek\( 1, SEEK_CUR \);', 'DEV_seek_cur1();', True),
    ('R11.seek', r'this->_io_dev\.seek\( this->_info\._offset \);', 'DEV_seek(self->_info._offset);', True),
    ('R11.read8', r'this->_io_dev\.read_uint8\(\)', 'DEV_read_uint8()', True),
    ('R14.buf_type', r'using Buf_type = std::vector<rgba8_pixel_t>;', '', True),
    ('R14.buf_alloc', r'Buf_type buf\( (.*?) \);', r'BUF_ALLOC(\1);', True),
    ('R14.iter', r'Buf_type::iterator', 'ptrdiff_t', True),
    ('R14.begin_plus', r'\bbuf\.begin\(\) \+ x;', 'ITER_AT(x);', True),
    ('R14.begin', r'\bbuf\.begin\(\)', '(ptrdiff_t)0', True),
    ('R14.end', r'\bbuf\.end\(\)', 'g_buf_n', True),
    ('R14.write', r'\*dst_it\+\+ = this->_palette\[ (.*?) \];', r'{ BUF_WRITE(dst_it, PAL_READ(\1)); dst_it++; }', True),
    ('R11.copy_row', r'copy_row_if_needed\( buf, view, y \);', 'copy_row_if_needed(self, y);', True),
    ('R11.io_error', r'io_error\( "Mangled BMP file\." \);', 'THROW();', True),
    ('R8.rle4', r'bmp_compression::_rle4', 'BMP_RLE4', True), ('R8.rle8', r'bmp_compression::_rle8', 'BMP_RLE8', True),
    ('R11.get_offset', r'get_offset\( 0 \)', 'get_offset0(self)', True),
    ('R4.bool', r'\bbool finished = false;', '_Bool finished = 0;', True), ('R4.true', r'finished = true;', 'finished = 1;', True),
    ('L.outer', r'while \( !finished \)', 'while ( !finished )\nOUTER_LOOP_CONTRACT', True),
    ('L.inner', r'for\( int i = 0; i < count; \+\+i \)', 'for( int i = 0; i < count; ++i )\nINNER_LOOP_CONTRACT', True),
]
R_COPY = [
    ('R14.iter', r'Buffer::const_iterator', 'ptrdiff_t', True),
    ('R14.begin_plus', r'\bbuf\.begin\(\) \+ this->_settings\._top_left\.x;', 'ITER_AT(self->_settings._top_left.x);', True),
    ('R14.adv', r'\bbeg \+ this->_settings\._dim\.x;', 'ITER_AT(beg + self->_settings._dim.x);', True),
    ('R14.copy', r'std::copy\(\s*beg\s*,\s*end\s*,\s*view\.row_begin\( y \)\s*\);', 'COPY_TO_VIEW_ROW(beg, end, y);', True),
]
R_PAL = [
    ('R14.resize', r'_palette\.resize\(\s*(.*?)\s*,\s*rgba8_pixel_t\(0, 0, 0, 0\)\s*\);', r'PAL_RESIZE(\1);', True),
    ('R14.pal_write', r'get_color\( _palette\[i\], \w+_t\(\)\s*\) = _io_dev\.read_uint8\(\);', 'PAL_WRITE(i, DEV_read_uint8());', True),
    ('R11.read8', r'(?<![\w>])_io_dev\.read_uint8\(\)', 'DEV_read_uint8()', True),
    ('R8.win32', r'bmp_header_size::_win32_info_size', 'BMP_WIN32_INFO_SIZE', True),
    ('R3.info', r'(?<![\w>.])_info\.', 'self->_info.', True),
    ('L.pal', r'for\( int i = 0; i < entries; \+\+i \)', 'for( int i = 0; i < entries; ++i )\nPAL_LOOP_CONTRACT', True),
]
BMS = 'boost/gil/extension/io/bmp/detail/scanline_read.hpp'
R_SLPAL = [
    ('R14.resize', r'this->_palette\.resize\(\s*(.*?)\s*,\s*rgba8_pixel_t\(0,0,0,0\)\s*\);', r'PAL_RESIZE(\1);', True),
    ('R14.pal_write', r'get_color\( this->_palette\[i\], \w+_t\(\)\s*\) = this->_io_dev\.read_uint8\(\);', 'PAL_WRITE(i, DEV_read_uint8());', True),
    ('R11.read8', r'this->_io_dev\.read_uint8\(\)', 'DEV_read_uint8()', True),
    ('R14.size', r'this->_palette\.size\(\)', 'g_pal_n', True),
    ('R8.win32', r'bmp_header_size::_win32_info_size', 'BMP_WIN32_INFO_SIZE', True),
    ('L.pal', r'for\( int i = 0; i < entries; \+\+i \)', 'for( int i = 0; i < entries; ++i )\nPAL_LOOP_CONTRACT', True),
]
X_RLE = [X('sl_read_palette', BMS, r'void read_palette\(\)', count=1, rules=R_SLPAL),
         X('rle', BMP, r'void read_palette_image_rle\( const View_Dst& view \)', count=1, rules=R_RLE),
         X('copy_row', BMP, r'void copy_row_if_needed\( const Buffer&  buf\s*, const View&    view\s*, std::ptrdiff_t y\s*\)', count=1, rules=R_COPY),
         X('read_palette', BMB, r'void read_palette\(\)', count=1, rules=R_PAL)]
RLE_C = r'''
#define THROW() __CPROVER_assume(0)            /* a C++ exception leaves the decoder: the path ends here */
#define PRECONDITION(c) __CPROVER_assert(c, "BOOST_ASSERT in the real body holds")
typedef struct { point_t _top_left; point_t _dim; } settings_t;
typedef struct { WIDTH_T _width; HEIGHT_T _height; COMPRESSION_T _compression; OFFSET_T _offset; BPP_T _bits_per_pixel; NUMCOL_T _num_colors; HDRSIZE_T _header_size; } info_t;
typedef struct { settings_t _settings; info_t _info; } rdr_t;
/* ---- ghost device: an arbitrary finite byte sequence; a read past its end throws (contract of read(T(&)[N]), unit device_read) ---- */
size_t g_remaining;
static uint8_t DEV_read_uint8(void) { if (g_remaining == 0) THROW(); g_remaining = g_remaining - 1; uint8_t b; return b; }
static void DEV_seek(OFFSET_T pos) { size_t r; g_remaining = r <= ((size_t)1 << 40) ? r : 0; }           /* any position of a finite input */
static void DEV_seek_cur1(void) { if (g_remaining > 0) g_remaining = g_remaining - 1; }
/* ---- ghost row buffer std::vector<rgba8_pixel_t> buf(n): iterators are indices from begin() ---- */
ptrdiff_t g_buf_n;
#define BUF_ALLOC(n) { if ((int64_t)(n) < 0) THROW(); /* size_t(negative) exceeds max_size(): std::length_error */ g_buf_n = (ptrdiff_t)(n); }
static ptrdiff_t ITER_AT(ptrdiff_t i) { __CPROVER_assert(0 <= i && i <= g_buf_n, "iterator arithmetic on the row buffer stays inside [begin(), end()]"); return i; }
#define BUF_WRITE(it, v) { __CPROVER_assert(0 <= (it) && (it) < g_buf_n, "RLE decoder writes the row buffer only inside [begin, end)"); (void)(v); }
/* ---- ghost palette std::vector<rgba8_pixel_t> _palette ---- */
ptrdiff_t g_pal_n;
#define PAL_RESIZE(n) { if ((int64_t)(n) < 0) THROW(); g_pal_n = (ptrdiff_t)(n); }
#define PAL_WRITE(i, v) { __CPROVER_assert(0 <= (i) && (i) < g_pal_n, "read_palette writes palette entries only inside the palette"); (void)(v); }
static int PAL_READ(ptrdiff_t i) { __CPROVER_assert(0 <= i && i < g_pal_n, "palette index taken from the file is inside the palette"); return 0; }
/* ---- ghost destination view ---- */
ptrdiff_t g_view_w, g_view_h;
#define COPY_TO_VIEW_ROW(beg, end, y) { \
  __CPROVER_assert(0 <= (beg) && (beg) <= (end) && (end) <= g_buf_n, "copy_row_if_needed reads the row buffer only inside [begin, end)"); \
  __CPROVER_assert(0 <= (y) && (y) < g_view_h && (end) - (beg) <= g_view_w, "copy_row_if_needed writes only rows and columns of the destination view"); }
static long get_offset0(rdr_t* self) { long r; return r; }      /* only its parity is used (word padding of absolute runs) */

/* preconditions established by reader_backend's constructor, reader::apply's dispatch, reader_base::init_image / check_image_size and the
   (unchecked, see the commented-out reader_base::check_coordinates) caller obligation that the requested window lies inside the image */
#define WINDOW_OK(s) (0 <= (s)->_settings._top_left.x && 0 <= (s)->_settings._dim.x && (s)->_settings._dim.x <= ((ptrdiff_t)1 << 31) && (s)->_settings._top_left.x <= (s)->_info._width - (s)->_settings._dim.x && \
                      0 <= (s)->_settings._top_left.y && 0 <= (s)->_settings._dim.y && (s)->_settings._dim.y <= ((ptrdiff_t)1 << 31) && \
                      g_view_w >= (s)->_settings._dim.x && g_view_h >= (s)->_settings._dim.y)
#define DISPATCH_OK(s) (((s)->_info._compression == BMP_RLE4 && (s)->_info._bits_per_pixel == 4) || ((s)->_info._compression == BMP_RLE8 && (s)->_info._bits_per_pixel == 8))

#define PAL_LOOP_CONTRACT __CPROVER_assigns(i, g_remaining) __CPROVER_loop_invariant(0 <= i && i <= entries && g_remaining <= __CPROVER_loop_entry(g_remaining)) __CPROVER_decreases(entries - i)
void read_palette(rdr_t* self)
__CPROVER_requires(__CPROVER_is_fresh(self, sizeof(*self)))
__CPROVER_requires(self->_info._bits_per_pixel == 1 || self->_info._bits_per_pixel == 4 || self->_info._bits_per_pixel == 8)   /* the depths whose decoders call it */
__CPROVER_requires(g_remaining <= ((size_t)1 << 40))
__CPROVER_assigns(g_remaining, g_pal_n)
__CPROVER_ensures(g_pal_n >= ((ptrdiff_t)1 << self->_info._bits_per_pixel))     /* every index the pixel data can encode addresses a palette entry */
__CPROVER_ensures(g_remaining <= __CPROVER_old(g_remaining))
@@read_palette@@

/* scanline_reader<Device, bmp_tag>::read_palette: its own copy of the palette reader (returns at once when the palette has been read) */
void sl_read_palette(rdr_t* self)
__CPROVER_requires(__CPROVER_is_fresh(self, sizeof(*self)))
__CPROVER_requires(self->_info._bits_per_pixel == 1 || self->_info._bits_per_pixel == 4 || self->_info._bits_per_pixel == 8)
__CPROVER_requires(g_remaining <= ((size_t)1 << 40) && g_pal_n == 0)                        /* first call: the palette is still empty */
__CPROVER_assigns(g_remaining, g_pal_n)
__CPROVER_ensures(g_pal_n >= ((ptrdiff_t)1 << self->_info._bits_per_pixel))     /* every index the pixel data can encode addresses a palette entry */
@@sl_read_palette@@

void copy_row_if_needed(rdr_t* self, ptrdiff_t y)
__CPROVER_requires(__CPROVER_is_fresh(self, sizeof(*self)))
__CPROVER_requires(WINDOW_OK(self))
__CPROVER_requires(g_buf_n >= self->_settings._top_left.x + self->_settings._dim.x)      /* what the copy needs from its caller: the window's columns exist in the row buffer */
__CPROVER_assigns()
__CPROVER_ensures(g_buf_n == __CPROVER_old(g_buf_n))
@@copy_row@@

#define Y_BOUND(y) (-(int64_t)2 - (int64_t)(__CPROVER_loop_entry(g_remaining) - g_remaining) <= (y) && (y) <= self->_settings._dim.y + (int64_t)1 + (int64_t)(__CPROVER_loop_entry(g_remaining) - g_remaining))
#define OUTER_LOOP_CONTRACT \
  __CPROVER_assigns(finished, dst_it, dst_end, y, stream_pos, g_remaining) \
  __CPROVER_loop_invariant(0 <= dst_it && dst_it <= g_buf_n && dst_end == g_buf_n) \
  __CPROVER_loop_invariant(g_remaining <= __CPROVER_loop_entry(g_remaining) && Y_BOUND(y)) \
  __CPROVER_decreases(finished ? 0 : g_remaining + 1)
#define INNER_LOOP_CONTRACT \
  __CPROVER_assigns(i, dst_it, stream_pos, g_remaining) \
  __CPROVER_loop_invariant(0 <= i && i <= count && dst_it == __CPROVER_loop_entry(dst_it) + i && g_remaining <= __CPROVER_loop_entry(g_remaining)) \
  __CPROVER_decreases(count - i)
void read_palette_image_rle(rdr_t* self)
__CPROVER_requires(__CPROVER_is_fresh(self, sizeof(*self)))
__CPROVER_requires(DISPATCH_OK(self) && WINDOW_OK(self))
__CPROVER_requires(g_remaining <= ((size_t)1 << 40))
__CPROVER_assigns(g_remaining, g_pal_n, g_buf_n)
__CPROVER_ensures(g_buf_n >= 0 && g_pal_n >= ((ptrdiff_t)1 << self->_info._bits_per_pixel))
@@rle@@
#ifndef VERIF_NATIVE
void h_read_palette(void){ rdr_t* s; size_t n; g_remaining = n; read_palette(s); __CPROVER_assert(0, "VACUITY"); }
void h_sl_read_palette(void){ rdr_t* s; size_t n; g_remaining = n; g_pal_n = 0; sl_read_palette(s); __CPROVER_assert(0, "VACUITY"); }
void h_copy_row(void){ rdr_t* s; ptrdiff_t y, vw, vh, bn; g_view_w = vw; g_view_h = vh; g_buf_n = bn; copy_row_if_needed(s, y); __CPROVER_assert(0, "VACUITY"); }
void h_rle(void){ rdr_t* s; size_t n; ptrdiff_t vw, vh; g_remaining = n; g_view_w = vw; g_view_h = vh; read_palette_image_rle(s); __CPROVER_assert(0, "VACUITY"); }
#endif
'''
RLE_PROBE = r'''
  P_TYPE("WIDTH_T", bmp_image_width::type); P_TYPE("HEIGHT_T", bmp_image_height::type); P_TYPE("COMPRESSION_T", bmp_compression::type); P_TYPE("OFFSET_T", bmp_offset::type);
  P_TYPE("BPP_T", bmp_bits_per_pixel::type); P_TYPE("NUMCOL_T", bmp_num_colors::type); P_TYPE("HDRSIZE_T", bmp_header_size::type);
  P_VAL("BMP_RLE4", (long)bmp_compression::_rle4); P_VAL("BMP_RLE8", (long)bmp_compression::_rle8); P_VAL("BMP_WIN32_INFO_SIZE", (long)bmp_header_size::_win32_info_size);
'''

# device: read(T(&buf)[N]) of both devices: returns normally only if all N elements were delivered
R_DEV = [('R11.io_error_if', r'io_error_if\(', 'IO_ERROR_IF(', False),
         ('R11.read_n', r'\bread\(\s*buf\s*,\s*N\s*\)', 'DEV_read_n(N)', True)]
X_DEV = [X('file_read', DEV, r'template< typename T, int N>\s*void read\( T \(&buf\)\[N\] \)', count=1, rules=R_DEV),
         X('istream_read', DEV, r'template<typename T, int N>\s*void read\(T \(&buf\)\[N\]\)', count=1, rules=R_DEV)]
DEV_C = r'''
#define THROW() __CPROVER_assume(0)
#define IO_ERROR_IF(c, msg) { if (c) THROW(); }
int g_delivered;                                 /* elements of buf the underlying read(data, count) initialised */
_Bool g_called;
/* read(data, count) of both devices returns how many elements it delivered, never more than asked (fread / istream::readsome) */
static int DEV_read_n(int n) { int k; __CPROVER_assume(0 <= k && k <= n); g_delivered = k; g_called = 1; return k; }
void file_stream_device_read(int N)
__CPROVER_requires(1 <= N && N <= 4096 && !g_called)
__CPROVER_assigns(g_delivered, g_called)
__CPROVER_ensures(g_called && g_delivered == N)      /* normal return: every element of buf is data from the input, none is left uninitialised */
@@file_read@@
void istream_device_read(int N)
__CPROVER_requires(1 <= N && N <= 4096 && !g_called)
__CPROVER_assigns(g_delivered, g_called)
__CPROVER_ensures(g_called && g_delivered == N)      /* normal return: every element of buf is data from the input, none is left uninitialised */
@@istream_read@@
#ifndef VERIF_NATIVE
void h_file_read(void){ int n; g_called = 0; file_stream_device_read(n); __CPROVER_assert(0, "VACUITY"); }
void h_istream_read(void){ int n; g_called = 0; istream_device_read(n); __CPROVER_assert(0, "VACUITY"); }
#endif
'''

UNITS = [
    Unit('bmp_rle', 'C11', RLE_C, extracts=X_RLE, probe_includes=['boost/gil.hpp', 'boost/gil/extension/io/bmp.hpp'], probe=RLE_PROBE, insts=[('rle', 'quick', {})],
         checks=[Check('read_palette', 'h_read_palette', enforce='read_palette', loops=True, timeout=900),
                 Check('scanline_read_palette', 'h_sl_read_palette', enforce='sl_read_palette', loops=True, timeout=900),
                 Check('copy_row', 'h_copy_row', enforce='copy_row_if_needed', timeout=600),
                 Check('rle', 'h_rle', enforce='read_palette_image_rle', replace=['read_palette', 'copy_row_if_needed'], loops=True, timeout=1800)],
         preconditions=['the requested window lies inside the image (0 <= top_left, top_left + dim <= file dimensions) and the destination view is at least dim: '
                        'reader_base::check_coordinates is commented out, so this is the caller obligation of image_read_settings',
                        'bit depth / compression pairs reader::apply dispatches to the RLE decoder: (4, rle4), (8, rle8)', 'input length <= 2^40 bytes'],
         assumed=['std::vector iterators are begin() + index (lowered to indices, rule R14); vector(n) / resize(n) with a negative n throws std::length_error',
                  'the device delivers arbitrary bytes and throws at the end of the input (proved for read(T(&)[N]) in unit device_read; read_uint8 is `byte_t m[1]; read(m); return m[0];`)',
                  'seek positions the device anywhere in a finite input; seek(1, SEEK_CUR) skips at most one byte',
                  'get_offset(0) is an arbitrary long (only its parity is used)']),
    Unit('device_read', 'C11', DEV_C, extracts=X_DEV, insts=[('dev', 'quick', {})],
         checks=[Check('file_read', 'h_file_read', enforce='file_stream_device_read', timeout=300),
                 Check('istream_read', 'h_istream_read', enforce='istream_device_read', timeout=300)],
         assumed=['read(data, count) (fread / istream::peek + readsome loop) returns the number of elements delivered, at most count',
                  'io_error_if(c, msg) throws std::ios_base::failure when c holds']),
]

# ---------------------------------------------------------------------------------------------------------------------------------------
# native window over the REAL decoder (ASan + UBSan, canary frame around the destination view, watchdog): used as the replay driver of the
# contract units (search for a failing byte sequence when an obligation fails) and as a bounded stand-in check.
RLE_WINDOW = r'''
#include <boost/gil.hpp>
#include <boost/gil/extension/io/bmp.hpp>
#include <sstream>
#include <string>
#include <vector>
#include <csignal>
#include <unistd.h>
#include <sanitizer/common_interface_defs.h>
#include "vreplay.hpp"
using namespace boost::gil;
static std::string g_case;
static void on_death() { std::fprintf(stderr, "\nFAILING INPUT: %s\n", g_case.c_str()); }
static long g_cases = 0, g_fail = 0; static std::string g_first, g_desc;
static void on_alarm(int) { std::printf("\nFAILING INPUT: %s\nREPRODUCED: the decoder did not terminate within 120 s on this input\n", g_case.c_str());
  std::printf("CLAUSE rle_window FAIL 1 the decoder terminates on every crafted file\nFAILCASE no termination within 120 s on %s\nNATIVE cases=%ld window=stopped by the watchdog\n", g_case.c_str(), g_cases); std::fflush(stdout); _exit(1); }
static void on_abort(int) { std::printf("\nFAILING INPUT: %s\nREPRODUCED: an assertion of the real code failed (abort) on this input\n", g_case.c_str());
  std::printf("CLAUSE rle_window FAIL 1 no assertion of the real code fails on a crafted file\nFAILCASE assertion failure (abort) on %s\nNATIVE cases=%ld window=stopped by abort()\n", g_case.c_str(), g_cases); std::fflush(stdout); _exit(1); }
static void le16(std::string& s, unsigned v) { s.push_back((char)(v & 255)); s.push_back((char)((v >> 8) & 255)); }
static void le32(std::string& s, unsigned v) { le16(s, v & 65535); le16(s, v >> 16); }
static std::string hexs(std::string const& s) { static const char* d = "0123456789abcdef"; std::string o; for (unsigned char c : s) { o.push_back(d[c >> 4]); o.push_back(d[c & 15]); o.push_back(' '); } return o; }
// BMP header (win32 info header), palette with `pal` entries, then `data`
static std::string bmpfile(int w, int h, int bpp, unsigned comp, unsigned ncol, unsigned pal, std::string const& data) { std::string s = "BM"; unsigned off = 14 + 40 + pal * 4;
  le32(s, off + (unsigned)data.size()); le32(s, 0); le32(s, off); le32(s, 40); le32(s, (unsigned)w); le32(s, (unsigned)h); le16(s, 1); le16(s, bpp); le32(s, comp); le32(s, (unsigned)data.size());
  le32(s, 2835); le32(s, 2835); le32(s, ncol); le32(s, 0); for (unsigned i = 0; i < pal * 4; i++) s.push_back((char)(40 + i * 7));
  g_desc = "BMP " + std::to_string(w) + "x" + std::to_string(h) + " bpp=" + std::to_string(bpp) + " compression=" + std::to_string(comp) + " num_colors=" + std::to_string(ncol) + " palette entries in file=" + std::to_string(pal) + " pixel data: " + (data.size() > 48 ? hexs(data.substr(0, 48)) + "... (" + std::to_string(data.size()) + " bytes)" : hexs(data));
  return s + data; }
static void fail(const char* what) { g_fail++; if (g_first.empty()) g_first = std::string(what) + " on " + g_case; }
// read the window (tx, ty, dw, dh) of the file into a view framed by canary pixels inside a larger image
static void feed(std::string const& bytes, int w, int h, int tx, int ty, int dw, int dh, bool use_file_dims, const char* tag) {
  g_cases++; g_case = std::string(tag) + " w=" + std::to_string(w) + " h=" + std::to_string(h) + " window=(" + std::to_string(tx) + "," + std::to_string(ty) + "," + std::to_string(dw) + "," + std::to_string(dh) + ") " + g_desc;
  const int F = 3; rgb8_image_t frame(dw + 2 * F, dh + 2 * F); rgb8_pixel_t canary(0xA5, 0x5A, 0xC3); fill_pixels(view(frame), canary);
  rgb8_view_t dst = subimage_view(view(frame), F, F, dw, dh);
  std::istringstream in(bytes, std::ios::binary);
  alarm(120);
  try { if (use_file_dims) read_view(in, dst, bmp_tag()); else read_view(in, dst, image_read_settings<bmp_tag>(point_t(tx, ty), point_t(dw, dh))); } catch (std::exception const&) {}
  alarm(0);
  for (int y = 0; y < frame.height(); y++) for (int x = 0; x < frame.width(); x++) { bool inside = x >= F && x < F + dw && y >= F && y < F + dh;
    if (!inside && view(frame)(x, y) != canary) { fail("the reader wrote a pixel outside the destination view"); return; } } }
// the same bytes through the scanline reader (it has its own palette reader and row decoders)
static void feed_scanline(std::string const& bytes, const char* tag) { g_cases++; g_case = std::string(tag) + " (scanline reader) " + g_desc; std::istringstream in(bytes, std::ios::binary);
  alarm(120); try { using D = detail::istream_device<bmp_tag>; D dev(in); scanline_reader<D, bmp_tag> r(dev, image_read_settings<bmp_tag>());
    if (r._info._width > 0 && r._info._width < 64 && r._info._compression == 0) { std::vector<byte_t> row(r._scanline_length + 4096); for (int y = 0; y < r._info._height && y < 4; y++) r.read(row.data(), y); } } catch (std::exception const&) {}
  alarm(0); }
static void window(bool thorough) {
  // command alphabets
  std::vector<std::string> cmd8, cmd4;
  auto S = [](std::initializer_list<int> b) { std::string s; for (int v : b) s.push_back((char)v); return s; };
  for (int count : {1, 2, 3, 255}) for (int idx : {0, 1, 200}) cmd8.push_back(S({count, idx}));
  cmd8.push_back(S({0, 0})); cmd8.push_back(S({0, 1}));
  for (int dx : {0, 1, 3, 255}) for (int dy : {0, 1, 2, 255}) cmd8.push_back(S({0, 2, dx, dy}));
  cmd8.push_back(S({0, 3, 1, 2, 3, 0})); cmd8.push_back(S({0, 4, 1, 2, 3, 4})); cmd8.push_back(S({0, 5, 9, 200, 3, 4, 5, 0})); cmd8.push_back(S({0, 255}) + std::string(256, (char)7));
  for (int count : {1, 2, 3, 255}) for (int idx : {0x00, 0x1F}) cmd4.push_back(S({count, idx}));
  cmd4.push_back(S({0, 0})); cmd4.push_back(S({0, 1}));
  for (int dx : {0, 1, 3, 255}) for (int dy : {0, 1, 2, 255}) cmd4.push_back(S({0, 2, dx, dy}));
  cmd4.push_back(S({0, 3, 0x12, 0x30})); cmd4.push_back(S({0, 4, 0x12, 0x34})); cmd4.push_back(S({0, 5, 0x12, 0x34, 0x50, 0})); cmd4.push_back(S({0, 7, 0x12, 0x34, 0x56, 0x70})); cmd4.push_back(S({0, 255}) + std::string(128, (char)0x7F));
  const int depth = thorough ? 3 : 2;
  for (int bpp : {8, 4}) { std::vector<std::string> const& A = bpp == 8 ? cmd8 : cmd4; unsigned comp = bpp == 8 ? 1 : 2;
    std::vector<int> idx(depth, 0); bool done = false;
    while (!done) {
      std::string data; for (int d = 0; d < depth; d++) data += A[idx[d]];
      for (int w : {1, 2, 3, 5}) for (int h : {1, 2, 3}) for (unsigned ncol : {0u, 2u}) {
        unsigned pal = ncol ? ncol : (1u << bpp);
        std::string full = bmpfile(w, h, bpp, comp, ncol, pal, data + std::string("\0\1", 2));
        feed(full, w, h, 0, 0, w, h, true, "rle");                                             // whole image, end-of-bitmap marker
        feed(bmpfile(w, h, bpp, comp, ncol, pal, data), w, h, 0, 0, w, h, true, "rle-truncated");     // the stream just stops
        if (w >= 3) feed(full, w, h, 1, 0, w - 1, h, false, "rle-window");                       // sub-image window with top_left.x > 0
        if (h >= 2) feed(full, w, h, 0, 1, w, h - 1, false, "rle-window");                       // top_left.y > 0
      }
      int d = depth - 1; while (d >= 0 && ++idx[d] == (int)A.size()) { idx[d] = 0; d--; } if (d < 0) done = true; } }
  // uncompressed palette images: every index value with a short palette; truncated palettes
  for (int bpp : {1, 4, 8}) for (unsigned ncol : {0u, 1u, 2u, 16u}) for (int v : {0, 1, 0x1F, 0x80, 0xC8, 0xFF}) for (int w : {1, 4, 9}) {
    unsigned pitch = ((((unsigned)w * bpp + 7) / 8) + 3) & ~3u; unsigned pal = ncol ? ncol : (1u << bpp);
    feed(bmpfile(w, 2, bpp, 0, ncol, pal, std::string(pitch * 2, (char)v)), w, 2, 0, 0, w, 2, true, "palette");
    feed_scanline(bmpfile(w, 2, bpp, 0, ncol, pal, std::string(pitch * 2, (char)v)), "palette");
    feed(bmpfile(w, 2, bpp, 0, ncol, pal / 2, std::string(pitch, (char)v)), w, 2, 0, 0, w, 2, true, "palette-truncated"); } }
'''
RLE_NATIVE = RLE_WINDOW + r'''
int main(int argc, char** argv){ vr::parse(argc, argv); __sanitizer_set_death_callback(on_death); signal(SIGALRM, on_alarm); signal(SIGABRT, on_abort);
  window(vr::str("tier") == "thorough");
  std::printf("CLAUSE rle_window %s %ld every crafted RLE4 / RLE8 / palette BMP is decoded or rejected with no sanitizer report, no write outside the destination view and no hang\n", g_fail ? "FAIL" : "PASS", g_fail);
  if (g_fail) std::printf("FAILCASE %s\n", g_first.c_str());
  std::printf("NATIVE cases=%ld window=all RLE8 / RLE4 command sequences of length 2 (quick) or 3 (thorough) over an alphabet of 33 / 31 commands (runs, end-of-line, end-of-bitmap, offsets, absolute runs), images 1,2,3,5 x 1,2,3, declared palettes of 0 / 2 colours, with and without end marker, sub-image windows; uncompressed 1/4/8-bit images with short palettes\n", g_cases); return 0; }
'''
RLE_REPLAY = RLE_WINDOW + r'''
int main(int argc, char** argv){ vr::parse(argc, argv); __sanitizer_set_death_callback(on_death); signal(SIGALRM, on_alarm); signal(SIGABRT, on_abort);
  window(false);
  if (g_fail) REPRODUCED("%s", g_first.c_str());
  NOT_REPRODUCED("no crafted RLE / palette BMP of the search window (%ld files) misbehaves", g_cases); }
'''
for _u in UNITS:
    _u.replay = RLE_REPLAY
UNITS.append(Unit('bmp_rle_native', 'C11', '/* bounded native stand-in, no extracted body */\n',
                  checks=[Check('rle_window', 'none', engine='N', native=RLE_NATIVE, timeout=1800, flags=['sanitize'])]))
