"""C08 — packed and bit-aligned channel writes change exactly their own bits.

Functions under contract (bodies cut from channel.hpp / bit_aligned_pixel_reference.hpp every run):
  detail::static_copy_bytes<K>::operator() (K recursion lowered to a run-time K, rule R10),
  packed_channel_reference_base::get_data / set_data / set / operator= / ++ / -- / += / -= / *= / /=,
  packed_channel_reference<BF,FB,NB,true>::get / set_unsafe / set_from_reference / operator=(integer_t),
  packed_dynamic_channel_reference<BF,NB,true>::get / set_unsafe,
  the class constants num_values, max_val, channel_mask (initialiser expressions cut from the class bodies),
  bit_range (see specs/bits.py).
"""
from vclib.core import X, Check, Unit
from vclib.cgen import Fn
from . import bits

CH = 'channel.hpp'
BASE = r'class packed_channel_reference_base\s*\{'
ST = r'class packed_channel_reference<BitField,FirstBit,NumBits,true>\s*:[^{]*\{'
DY = r'class packed_dynamic_channel_reference<BitField,NumBits,true>\s*:[^{]*\{'

R_DATA = [('R11.get_data', r'this->get_data\(\)', 'get_data(self)', False),
          ('R11.set_data', r'this->set_data\(', 'set_data(self, ', False),
          ('R8.parent', r'\bparent_t::', '', False),
          ('R4.integer_ctor', r'(?<![\w<])integer_t\(', '(integer_t)(', False)]

EXTRACTS = [
    X('scbK', 'channel.hpp', r'void operator\(\)\(unsigned char const\* from, unsigned char\* to\) const\s*\{',
      within=r'template <std::size_t K>\s*struct static_copy_bytes\s*\{', count=1,
      rules=[('R10.recursion', r'static_copy_bytes<K - 1>\(\)\(', 'static_copy_bytes(K - 1, ', True)]),
    X('scb0', 'channel.hpp', r'void operator\(\)\(unsigned char const\*, unsigned char\*\) const\s*\{',
      within=r'template <>\s*struct static_copy_bytes<0>\s*\{', count=1),
    X('get_data', CH, r'auto get_data\(\) const -> bitfield_t\s*\{', within=BASE, count=1, members=['_data_ptr'],
      rules=[('R10.copy', r'static_copy_bytes<sizeof\(bitfield_t\) >\(\)\(', 'static_copy_bytes(sizeof(bitfield_t), ', True),
             ('R4.reinterpret_c', r'gil_reinterpret_cast_c<const unsigned char\*>\(', '(const unsigned char*)(', True),
             ('R4.reinterpret', r'gil_reinterpret_cast<unsigned char\*>\(', '(unsigned char*)(', True)]),
    X('set_data', CH, r'void set_data\(bitfield_t const& val\) const\s*\{', within=BASE, count=1, members=['_data_ptr'],
      rules=[('R10.copy', r'static_copy_bytes<sizeof\(bitfield_t\) >\(\)\(', 'static_copy_bytes(sizeof(bitfield_t), ', True),
             ('R4.reinterpret_c', r'gil_reinterpret_cast_c<const unsigned char\*>\(', '(const unsigned char*)(', True),
             ('R4.reinterpret', r'gil_reinterpret_cast<unsigned char\*>\(', '(unsigned char*)(', True)]),
    X('num_values', CH, r'static const num_value_t num_values = ([^;]+);', within=BASE, kind='expr'),
    X('max_val', CH, r'static const max_value_t max_val\s*=\s*([^;]+);', within=BASE, kind='expr'),
    X('base_set', CH, r'void set\(integer_t value\) const \{', within=BASE, count=1,
      rules=[('R11.derived_set', r'this->derived\(\)\.set_unsafe\(', 'DERIVED_set_unsafe(self, ', True)]),
    X('base_assign', CH, r'auto operator=\(integer_t v\) const -> Derived const& \{', within=BASE, count=1,
      rules=[('R11.set', r'\bset\(', 'base_set(self, ', True), ('R2.ret', r'return derived\(\);', 'return;', True)]),
    X('op_inc', CH, r'auto operator\+\+\(\) const -> Derived const& \{', within=BASE, count=1,
      rules=[('R11.set', r'\bset\(', 'base_set(self, ', True), ('R11.get', r'\bget\(\)', 'DERIVED_get(self)', True),
             ('R2.ret', r'return derived\(\);', 'return;', True)]),
    X('op_dec', CH, r'auto operator--\(\) const -> Derived const& \{', within=BASE, count=1,
      rules=[('R11.set', r'\bset\(', 'base_set(self, ', True), ('R11.get', r'\bget\(\)', 'DERIVED_get(self)', True),
             ('R2.ret', r'return derived\(\);', 'return;', True)]),
] + [
    X('op_%s' % nm, CH, r'auto operator%s=\(Scalar2 v\) const -> Derived const&\s*\{' % op, within=BASE, count=1,
      rules=[('R11.set', r'\bset\(', 'base_set(self, ', True), ('R11.get', r'\bget\(\)', 'DERIVED_get(self)', True),
             ('R2.ret', r'return derived\(\);', 'return;', True)])
    for nm, op in (('pluseq', r'\+'), ('minuseq', '-'), ('muleq', r'\*'), ('diveq', '/'))
] + [
    X('st_mask', CH, r'static const BitField channel_mask = ([^;]+);', within=ST, kind='expr', rules=R_DATA),
    X('st_get', CH, r'auto get\(\) const -> integer_t \{', within=ST, count=1, rules=R_DATA),
    X('st_set_unsafe', CH, r'void set_unsafe\(integer_t value\) const \{', within=ST, count=1, rules=R_DATA),
    X('st_set_from_reference', CH, r'void set_from_reference\(const BitField& other_bits\) const \{', within=ST, count=1, rules=R_DATA),
    X('st_assign', CH, r'packed_channel_reference const& operator=\(integer_t value\) const\s*\{', within=ST, count=1,
      rules=R_DATA + [('R14.assert', r'BOOST_ASSERT\(', 'PRECONDITION(', True), ('R11.set_unsafe', r'\bset_unsafe\(value\)', 'st_set_unsafe(self, value)', True),
                      ('R2.ret', r'return \*this;', 'return;', True)]),
    X('dy_get', CH, r'auto get\(\) const -> integer_t\s*\{', within=DY, count=1, rules=R_DATA, members=['_first_bit']),
    X('dy_set_unsafe', CH, r'void set_unsafe\(integer_t value\) const \{', within=DY, count=1, rules=R_DATA, members=['_first_bit']),
]

FRESH = '__CPROVER_is_fresh(self, sizeof(*self)) && __CPROVER_is_fresh(self->_data_ptr, BF_SIZE)'
DYNREQ = 'IMPLIES(DYNAMIC, self->_first_bit <= 7 && self->_first_bit + NumBits <= 8 * BF_SIZE)'
W = 'WORD(self->_data_ptr)'
OW = '__CPROVER_old(WORD(self->_data_ptr))'

PRE = r'''
typedef BF_T bitfield_t; typedef BF_T BitField;
typedef INT_T integer_t; typedef NUMV_T num_value_t; typedef MAXV_T max_value_t;
typedef int Scalar2;
#define NumBits NB
#define FirstBit FB
typedef struct { void* _data_ptr; unsigned _first_bit; } self_t;
/* class-level constants: initialiser expressions cut from packed_channel_reference_base / packed_channel_reference */
#define num_values ((num_value_t)(@@num_values@@))
#define max_val ((max_value_t)(@@max_val@@))
#define channel_mask ((BitField)(@@st_mask@@))
#define PRECONDITION(c) __CPROVER_assert(c, "BOOST_ASSERT precondition of the library")
/* ---- specification vocabulary (independent of the code): little-endian carrier word, channel mask ---- */
#define BYTE(p, i) ((BF_T)((const unsigned char*)(p))[i])
#if BF_SIZE == 1
#define WORD(p) (BYTE(p,0))
#elif BF_SIZE == 2
#define WORD(p) ((BF_T)(BYTE(p,0) | (BYTE(p,1) << 8)))
#elif BF_SIZE == 4
#define WORD(p) ((BF_T)(BYTE(p,0) | (BYTE(p,1) << 8) | (BYTE(p,2) << 16) | (BYTE(p,3) << 24)))
#else
#define WORD(p) ((BF_T)(BYTE(p,0) | (BYTE(p,1) << 8) | (BYTE(p,2) << 16) | (BYTE(p,3) << 24) | (BYTE(p,4) << 32) | (BYTE(p,5) << 40) | (BYTE(p,6) << 48) | (BYTE(p,7) << 56)))
#endif
#define SPEC_MAXV ((((uint64_t)1 << (NB - 1)) << 1) - 1)          /* 2^NB - 1 without shifting by 64 */
#if DYNAMIC
#define FBIT(self) ((self)->_first_bit)
#define DERIVED_get dy_get
#define DERIVED_set_unsafe dy_set_unsafe
#else
#define FBIT(self) ((unsigned)FB)
#define DERIVED_get st_get
#define DERIVED_set_unsafe st_set_unsafe
#endif
#define SPEC_MASK(self) ((BF_T)(SPEC_MAXV << FBIT(self)))
#define SPEC_CHAN(w, self) ((uint64_t)(((w) & SPEC_MASK(self)) >> FBIT(self)))
#define SPEC_PUT(w, v, self) ((BF_T)(((w) & (BF_T)~SPEC_MASK(self)) | (BF_T)((uint64_t)(v) << FBIT(self))))

/* detail::static_copy_bytes<K>::operator(): the template recursion on K lowered to a run-time K (rule R10) */
void static_copy_bytes(size_t K, const unsigned char* from, unsigned char* to)
{ if (K == 0) @@scb0@@ else @@scbK@@ }
'''


def fn_text():
    fns = {}
    fns['get_data'] = Fn('get_data', 'bitfield_t', [('self_t*', 'self')], 'get_data',
                         requires=[FRESH], ensures=[('reads exactly the sizeof(BitField) bytes at _data_ptr', 'RET == ' + W)],
                         comment='packed_channel_reference_base::get_data()')
    fns['set_data'] = Fn('set_data', 'void', [('self_t*', 'self'), ('bitfield_t', 'val')], 'set_data',
                         requires=[FRESH], assigns='__CPROVER_object_whole(self->_data_ptr)',
                         ensures=[('writes exactly the sizeof(BitField) bytes at _data_ptr', W + ' == val')],
                         comment='packed_channel_reference_base::set_data(val)')
    getens = [('the channel bits, shifted down', 'RET == SPEC_CHAN(%s, self)' % W)]
    setens = [('own bits take the value, every other bit of the carrier unchanged', '%s == SPEC_PUT(%s, value, self)' % (W, OW))]
    for pfx, cm in (('st', 'packed_channel_reference<BF,FB,NB,true>'), ('dy', 'packed_dynamic_channel_reference<BF,NB,true>')):
        fns[pfx + '_get'] = Fn(pfx + '_get', 'integer_t', [('self_t*', 'self')], pfx + '_get', requires=[FRESH, DYNREQ], ensures=getens,
                               comment=cm + '::get()')
        fns[pfx + '_set_unsafe'] = Fn(pfx + '_set_unsafe', 'void', [('self_t*', 'self'), ('integer_t', 'value')], pfx + '_set_unsafe',
                                      requires=[FRESH, DYNREQ, 'value <= SPEC_MAXV'], assigns='__CPROVER_object_whole(self->_data_ptr)',
                                      ensures=setens, comment=cm + '::set_unsafe(value)')
    fns['st_set_from_reference'] = Fn('st_set_from_reference', 'void', [('self_t*', 'self'), ('BitField', 'other_bits')], 'st_set_from_reference',
                                      requires=[FRESH], assigns='__CPROVER_object_whole(self->_data_ptr)',
                                      ensures=[('own bits copied from the other carrier, every other bit unchanged',
                                                '%s == SPEC_PUT(%s, SPEC_CHAN(other_bits, self), self)' % (W, OW))],
                                      comment='packed_channel_reference<BF,FB,NB,true>::set_from_reference')
    fns['st_assign'] = Fn('st_assign', 'void', [('self_t*', 'self'), ('integer_t', 'value')], 'st_assign',
                          requires=[FRESH, 'value <= SPEC_MAXV'], assigns='__CPROVER_object_whole(self->_data_ptr)',
                          ensures=setens, comment='packed_channel_reference<BF,FB,NB,true>::operator=(integer_t)')
    modens = lambda expr: [('own bits = (%s) mod 2^NumBits, every other bit unchanged' % expr,
                            '%s == SPEC_PUT(%s, (%s) & SPEC_MAXV, self)' % (W, OW, expr))]
    fns['base_set'] = Fn('base_set', 'void', [('self_t*', 'self'), ('integer_t', 'value')], 'base_set',
                         requires=[FRESH, DYNREQ], assigns='__CPROVER_object_whole(self->_data_ptr)', ensures=modens('(uint64_t)value'),
                         comment='packed_channel_reference_base::set(value): stores value modulo 2^NumBits')
    fns['base_assign'] = Fn('base_assign', 'void', [('self_t*', 'self'), ('integer_t', 'v')], 'base_assign',
                            requires=[FRESH, DYNREQ], assigns='__CPROVER_object_whole(self->_data_ptr)', ensures=modens('(uint64_t)v'),
                            comment='packed_channel_reference_base::operator=(integer_t)')
    oc = 'SPEC_CHAN(%s, self)' % OW
    fns['op_inc'] = Fn('op_inc', 'void', [('self_t*', 'self')], 'op_inc', requires=[FRESH, DYNREQ],
                       assigns='__CPROVER_object_whole(self->_data_ptr)', ensures=modens(oc + ' + 1'), comment='operator++ on a channel proxy')
    fns['op_dec'] = Fn('op_dec', 'void', [('self_t*', 'self')], 'op_dec', requires=[FRESH, DYNREQ],
                       assigns='__CPROVER_object_whole(self->_data_ptr)', ensures=modens(oc + ' + SPEC_MAXV'), comment='operator-- on a channel proxy (x-1 = x + 2^NB-1 mod 2^NB)')
    fns['op_pluseq'] = Fn('op_pluseq', 'void', [('self_t*', 'self'), ('Scalar2', 'v')], 'op_pluseq', requires=[FRESH, DYNREQ, '0 <= v && v <= 1000000'],
                          assigns='__CPROVER_object_whole(self->_data_ptr)', ensures=modens(oc + ' + (uint64_t)v'), comment='operator+= on a channel proxy')
    fns['op_minuseq'] = Fn('op_minuseq', 'void', [('self_t*', 'self'), ('Scalar2', 'v')], 'op_minuseq', requires=[FRESH, DYNREQ, '0 <= v && v <= 1000000'],
                           assigns='__CPROVER_object_whole(self->_data_ptr)',
                           ensures=modens(oc + ' + ((SPEC_MAXV + 1) - ((uint64_t)v & SPEC_MAXV))'), comment='operator-= on a channel proxy')
    fns['op_muleq'] = Fn('op_muleq', 'void', [('self_t*', 'self'), ('Scalar2', 'v')], 'op_muleq', requires=[FRESH, DYNREQ, '0 <= v && v <= 1000'],
                         assigns='__CPROVER_object_whole(self->_data_ptr)', ensures=modens(oc + ' * (uint64_t)v'), comment='operator*= on a channel proxy')
    fns['op_diveq'] = Fn('op_diveq', 'void', [('self_t*', 'self'), ('Scalar2', 'v')], 'op_diveq', requires=[FRESH, DYNREQ, '1 <= v && v <= 1000000'],
                         assigns='__CPROVER_object_whole(self->_data_ptr)', ensures=modens(oc + ' / (uint64_t)v'), comment='operator/= on a channel proxy')
    return fns


LEMMAS = r'''
#ifndef VERIF_NATIVE
/* lemma over the real bodies: reading back yields the value written, the other channel bits, the padding bits and the
   neighbouring bytes are unchanged - reference placed in the middle of a larger caller buffer with arbitrary contents */
void h_readback(void){
  unsigned char buf[BF_SIZE + 2], old[BF_SIZE + 2]; unsigned first_bit; integer_t value;
  for (int i = 0; i < BF_SIZE + 2; i++) old[i] = buf[i];
  self_t s; s._data_ptr = buf + 1; s._first_bit = first_bit;
  __CPROVER_assume(value <= SPEC_MAXV);
  __CPROVER_assume(IMPLIES(DYNAMIC, first_bit <= 7 && first_bit + NumBits <= 8 * BF_SIZE));
  DERIVED_set_unsafe(&s, value);
  __CPROVER_assert(DERIVED_get(&s) == value, "reading back yields the value written");
  __CPROVER_assert(buf[0] == old[0] && buf[BF_SIZE + 1] == old[BF_SIZE + 1], "bytes before and after the carrier are unchanged");
  __CPROVER_assert((WORD(buf + 1) & (BF_T)~SPEC_MASK(&s)) == (WORD(old + 1) & (BF_T)~SPEC_MASK(&s)), "every bit outside the channel is unchanged");
  __CPROVER_assert(0, "VACUITY"); }
#endif
'''

REPLAY = r'''
// native replay: packed channel references over a real buffer; checks set/get/proxy semantics bit by bit
#include <boost/gil/channel.hpp>
#include <cstring>
#include "vreplay.hpp"
using namespace boost::gil;
#include "inst.hpp"
#if DYNAMIC
using ref_t = packed_dynamic_channel_reference<BF, NB, true>;
#else
using ref_t = packed_channel_reference<BF, FB, NB, true>;
#endif
int main(int argc, char** argv){ vr::parse(argc, argv);
  unsigned char buf[sizeof(BF) + 2], old[sizeof(BF) + 2];
  unsigned long long w0 = vr::has("word") ? vr::u64("word") : 0xA5C3F0961E2D4B78ull; std::memcpy(buf + 1, &w0, sizeof(BF)); buf[0] = 0x5a; buf[sizeof(BF)+1] = 0xc3;
  for (unsigned i = 0; i < sizeof(BF); i++) { char n[16]; std::snprintf(n, sizeof n, "b%u", i); if (vr::has(n)) buf[1+i] = (unsigned char)vr::u64(n); }
  std::memcpy(old, buf, sizeof buf);
  unsigned fb = DYNAMIC ? (unsigned)vr::u64("first_bit", vr::u64("fb", 0)) : (unsigned)FB;
#if DYNAMIC
  ref_t r(buf + 1, fb);
#else
  ref_t r(buf + 1);
#endif
  unsigned long long maxv = NB >= 64 ? ~0ull : ((1ull << NB) - 1), value = vr::u64("value", vr::u64("v", maxv)) & maxv;
  unsigned long long mask = maxv << fb;
  if (vr::str("check") == "all" && NB <= 16) {
    // search window (used when the changed source cannot be extracted): every proxy operation with operands around 0, 1, 2 and 3 periods of the
    // channel, on several channel contents: the channel holds the result modulo 2^bits and no other bit of the carrier or its neighbours changes
    const long long P = 1ll << NB; const long long vs[] = {0, 1, 2, P - 1, P, P + 1, 2 * P - 1, 2 * P, 2 * P + 1, 3 * P + 5, 1000};
    for (unsigned long long c0 : {0ull, 1ull, maxv / 2, maxv - 1, maxv}) for (long long v : vs) for (int op = 0; op < 4; op++) { if (v > 1000000) continue;
      std::memcpy(buf, old, sizeof buf);
#if DYNAMIC
      ref_t q(buf + 1, fb);
#else
      ref_t q(buf + 1);
#endif
      q = (ref_t::integer_t)c0; BF before; std::memcpy(&before, buf + 1, sizeof before); long long want;
      if (op == 0) { q += (int)v; want = (long long)c0 + v; } else if (op == 1) { q -= (int)v; want = (long long)c0 - v; } else if (op == 2) { ++q; want = (long long)c0 + 1; } else { --q; want = (long long)c0 - 1; }
      want = ((want % P) + P) % P; BF after; std::memcpy(&after, buf + 1, sizeof after);
      if ((long long)(ref_t::integer_t)q.get() != want) REPRODUCED("channel %llu %s %lld reads back %llu, expected %lld (modulo 2^%d)", c0, op == 0 ? "+=" : op == 1 ? "-=" : op == 2 ? "++" : "--", v, (unsigned long long)q.get(), want, NB);
      if (((unsigned long long)after & ~mask) != ((unsigned long long)before & ~mask) || buf[0] != old[0] || buf[sizeof(BF) + 1] != old[sizeof(BF) + 1])
        REPRODUCED("channel %llu %s %lld changed bits outside the channel: carrier %llx -> %llx (mask %llx)", c0, op == 0 ? "+=" : op == 1 ? "-=" : op == 2 ? "++" : "--", v, (unsigned long long)before, (unsigned long long)after, mask); }
    NOT_REPRODUCED("proxy arithmetic is modular and confined to the channel for the searched operands"); }
  BF o, n; std::memcpy(&o, old + 1, sizeof o);
  std::string obl = vr::str("obl");
  unsigned long long expect;
  if (obl.find("op_inc") != std::string::npos) { ++r; expect = ((o & mask) >> fb) + 1; }
  else if (obl.find("op_dec") != std::string::npos) { --r; expect = ((o & mask) >> fb) - 1; }
  else if (obl.find("op_pluseq") != std::string::npos) { int v = (int)vr::i64("v", 1); r += v; expect = ((o & mask) >> fb) + v; }
  else if (obl.find("op_minuseq") != std::string::npos) { int v = (int)vr::i64("v", 1); r -= v; expect = ((o & mask) >> fb) - v; }
  else if (obl.find("op_muleq") != std::string::npos) { int v = (int)vr::i64("v", 1); r *= v; expect = ((o & mask) >> fb) * v; }
  else if (obl.find("op_diveq") != std::string::npos) { int v = (int)vr::i64("v", 1); r /= v; expect = ((o & mask) >> fb) / v; }
  else { r = (ref_t::integer_t)value; expect = value; }
  expect &= maxv;
  std::memcpy(&n, buf + 1, sizeof n);
  if ((unsigned long long)(ref_t::integer_t)r.get() != expect) REPRODUCED("channel reads back %llu, expected %llu (carrier %llx -> %llx, first bit %u, %d bits)", (unsigned long long)r.get(), expect, (unsigned long long)o, (unsigned long long)n, fb, NB);
  if (((unsigned long long)n & ~mask) != ((unsigned long long)o & ~mask)) REPRODUCED("bits outside the channel changed: carrier %llx -> %llx (mask %llx)", (unsigned long long)o, (unsigned long long)n, mask);
  if (buf[0] != old[0] || buf[sizeof(BF)+1] != old[sizeof(BF)+1]) REPRODUCED("a neighbouring byte changed");
  NOT_REPRODUCED("write of %llu at first bit %u kept all other bits (carrier %llx -> %llx)", expect, fb, (unsigned long long)o, (unsigned long long)n); }
'''

PROBE = r'''
  using ref_t = packed_channel_reference<BF, 0, NB, true>;
  P_TYPE("BF_T", BF); P_VAL("BF_SIZE", (int)sizeof(BF));
  P_TYPE("INT_T", typename packed_channel_value<NB>::integer_t);
  P_TYPE("NUMV_T", typename detail::num_value_fn<NB>::type);
  P_TYPE("MAXV_T", typename detail::max_value_fn<NB>::type);
  static_assert(std::is_same<ref_t::integer_t, packed_channel_value<NB>::integer_t>::value, "integer_t");
'''


def ref_unit(name, bf, fb, nb, dynamic, tier):
    fns = fn_text()
    order = ['get_data', 'set_data']
    order += (['dy_get', 'dy_set_unsafe'] if dynamic else ['st_get', 'st_set_unsafe', 'st_set_from_reference', 'st_assign'])
    order += ['base_set', 'base_assign', 'op_inc', 'op_dec', 'op_pluseq', 'op_minuseq', 'op_muleq', 'op_diveq']
    tmpl = PRE + ''.join(fns[k].text() for k in order) + LEMMAS
    skip = ('dy_get', 'dy_set_unsafe') if not dynamic else ('st_get', 'st_set_unsafe', 'st_set_from_reference', 'st_assign', 'st_mask')
    extracts = [x for x in EXTRACTS if x.ident not in skip]
    if dynamic:
        tmpl = tmpl.replace('#define channel_mask ((BitField)(@@st_mask@@))\n', '')
    d = 'dy' if dynamic else 'st'
    data = ['get_data', 'set_data']
    U = dict(unwind=11, object_bits=None)
    checks = [
        Check('get_data', 'h_get_data', enforce='get_data', loops=False, flags=['--unwind', '11', '--unwinding-assertions']),
        Check('set_data', 'h_set_data', enforce='set_data', flags=['--unwind', '11', '--unwinding-assertions']),
        Check('get', 'h_%s_get' % d, enforce='%s_get' % d, replace=data),
        Check('set_unsafe', 'h_%s_set_unsafe' % d, enforce='%s_set_unsafe' % d, replace=data, inputs=('value',)),
    ]
    if not dynamic:
        checks += [Check('set_from_reference', 'h_st_set_from_reference', enforce='st_set_from_reference', replace=data),
                   Check('assign', 'h_st_assign', enforce='st_assign', replace=['st_set_unsafe'])]
    checks += [Check('base_set', 'h_base_set', enforce='base_set', replace=[d + '_set_unsafe'], inputs=('value',)),
               Check('base_assign', 'h_base_assign', enforce='base_assign', replace=['base_set'])]
    for op in ('op_inc', 'op_dec', 'op_pluseq', 'op_minuseq', 'op_muleq', 'op_diveq'):
        hard = op in ('op_muleq', 'op_diveq') and nb >= 12      # >= 12-bit symbolic multiply / divide: out of reach of SAT and of z3 4.8 / cvc5 through cbmc (900 s and 1800 s time-outs)
        if hard:
            continue                                            # not registered (an undecided check may not stand in a registered command); listed under not_covered
        checks.append(Check(op, 'h_' + op, enforce=op, replace=['base_set', d + '_get'], inputs=('v',),
                            tier='thorough' if hard else 'quick', timeout=900 if hard else None, flags=['--z3'] if hard else ()))
    checks.append(Check('lemma_readback', 'h_readback', engine='D', inputs=('value', 'first_bit', 'buf[1]', 'buf[2]'),
                        flags=['--unwind', '11', '--unwinding-assertions']))
    macros = {'T_BF': bf, 'NB': str(nb), 'FB': str(fb), 'DYNAMIC': '1' if dynamic else '0'}
    return Unit('ref.' + name, 'C08', tmpl, extracts=extracts, checks=checks, insts=[(name, tier, macros)],
                probe_includes=['boost/gil/channel.hpp'], probe=PROBE, replay=REPLAY,
                preconditions=['dynamic references: first_bit <= 7 and first_bit + NumBits <= 8*sizeof(BitField) (what bit_aligned_pixel_reference passes: BitField has bit_size+7 bits)',
                               'proxy arithmetic operands: 0 <= v <= 10^6 (10^3 for *=)'],
                assumed=[])


UNITS = []
ST_INSTS = [('u8_0_3', 'std::uint8_t', 0, 3, 'quick'), ('u8_3_5', 'std::uint8_t', 3, 5, 'quick'), ('u16_5_6', 'std::uint16_t', 5, 6, 'quick'),
            ('u16_11_5', 'std::uint16_t', 11, 5, 'quick'), ('u32_8_8', 'std::uint32_t', 8, 8, 'quick'), ('u64_24_8', 'std::uint64_t', 24, 8, 'quick'),
            ('u64_32_16', 'std::uint64_t', 32, 16, 'quick'), ('u64_48_16', 'std::uint64_t', 48, 16, 'quick'), ('u8_7_1', 'std::uint8_t', 7, 1, 'quick'),
            ('u16_0_16', 'std::uint16_t', 0, 16, 'thorough'), ('u32_15_17', 'std::uint32_t', 15, 17, 'thorough'), ('u8_0_8', 'std::uint8_t', 0, 8, 'thorough'),
            ('u16_0_5', 'std::uint16_t', 0, 5, 'thorough'), ('u32_22_10', 'std::uint32_t', 22, 10, 'thorough'), ('u64_31_2', 'std::uint64_t', 31, 2, 'thorough'),
            ('u64_63_1', 'std::uint64_t', 63, 1, 'thorough'), ('u32_0_32', 'std::uint32_t', 0, 32, 'thorough')]
DY_INSTS = [('dyn_u8_1', 'std::uint8_t', 1, 'quick'), ('dyn_u16_3', 'std::uint16_t', 3, 'quick'), ('dyn_u16_7', 'std::uint16_t', 7, 'quick'),
            ('dyn_u32_10', 'std::uint32_t', 10, 'quick'), ('dyn_u32_16', 'std::uint32_t', 16, 'quick'), ('dyn_u16_5', 'std::uint16_t', 5, 'quick'),
            ('dyn_u16_9', 'std::uint16_t', 9, 'thorough'), ('dyn_u32_2', 'std::uint32_t', 2, 'thorough'), ('dyn_u64_8', 'std::uint64_t', 8, 'thorough'),
            ('dyn_u32_12', 'std::uint32_t', 12, 'thorough'), ('dyn_u8_1b', 'std::uint16_t', 1, 'thorough'), ('dyn_u64_30', 'std::uint64_t', 30, 'thorough')]
for (n, bf, fb, nb, t) in ST_INSTS:
    UNITS.append(ref_unit(n, bf, fb, nb, False, t))
for (n, bf, nb, t) in DY_INSTS:
    UNITS.append(ref_unit(n, bf, 0, nb, True, t))
UNITS += bits.units('C08')

META = dict(
    not_covered=['proxy operator*= and operator/= on bit fields of 12 bits or more (symbolic multiply / divide of that width times out on every installed back end); proved for fields up to 11 bits',
                 'swap / whole-pixel assignment / fill / copy through bit-aligned iterators as template drivers: they reduce to the per-channel write contract and the bit cursor contract proved here; the template plumbing (static_for_each, swap_proxy) is not extracted',
                 'BOOST_GIL_CONFIG_HAS_UNALIGNED_ACCESS builds (macro undefined in the suite configuration)'],
)
