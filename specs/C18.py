"""C18 — toolbox colour spaces round-trip with RGB and stay in range (hsv, hsl).

Under contract (bodies cut from extension/toolbox/color_spaces/hsv.hpp, hsl.hpp), for ALL float inputs in [0,1]:
  default_color_converter_impl<rgb_t,hsv_t>, <hsv_t,rgb_t>, <rgb_t,hsl_t>, <hsl_t,rgb_t>  (float32 pixels)
  - every path assigns all result channels (locals are nondeterministic until assigned, so a missing `case` fails the range clause),
  - every result channel lies in [0,1], greys ignore hue, hue 1 == hue 0.
Complete native enumeration (the property quantifies over every rgb8 pixel: 2^24 cases, all of them are run on the real
code): exact round trip rgb8 -> hsv -> rgb8 and rgb8 -> hsl -> rgb8, intermediate channel ranges.
"""
from vclib.core import X, Check, Unit

HSV = 'boost/gil/extension/toolbox/color_spaces/hsv.hpp'
HSL = 'boost/gil/extension/toolbox/color_spaces/hsl.hpp'
R = [('R11.get_color', r'get_color\(\s*(\w+)\s*,\s*(\w+?)_t\(\)\s*\)', r'\1->\2', True),
     ('R5.using_ns', r'using namespace \w+;', '', False),
     ('R5.abs_paren', r'\(std::abs\)\s*\(', 'FABS(', False), ('R5.abs', r'std::abs\(', 'FABS(', False),
     ('R11.convert', r'channel_convert<(?:[^<>()]|<[^<>]*>)*>\(', 'CHANNEL_CONVERT(', False)]
OP = r'void operator\(\)\(\s*const P1& src, P2& dst\s*\) const\s*\{'
X_ALL = [
    X('rgb_to_hsv', HSV, OP, within=r'struct default_color_converter_impl< rgb_t, hsv_t >\s*\{', count=1, rules=R),
    X('hsv_to_rgb', HSV, OP, within=r'struct default_color_converter_impl<hsv_t,rgb_t>\s*\{', count=1, rules=R),
    X('rgb_to_hsl', HSL, OP, within=r'struct default_color_converter_impl< rgb_t, hsl_t >\s*\{', count=1, rules=R),
    X('hsl_to_rgb', HSL, OP, within=r'struct default_color_converter_impl<hsl_t,rgb_t>\s*\{', count=1, rules=R),
]

C = r'''
typedef float float32_t;
typedef struct { float red, green, blue, hue, saturation, value, lightness; } px_t;   /* channels by colour name (layout is C05's business) */
#define CHANNEL_CONVERT(e) ((float)(e))            /* channel_convert<float32_t>(float32_t): identity (C06 conv.f32_f32) */
#define FABS(x) ((x) < 0 ? -(x) : (x))
#undef MIN
#undef MAX
static float minf_(float a, float b) { return b < a ? b : a; }
static float maxf_(float a, float b) { return a < b ? b : a; }
#define MIN(a, b) minf_(a, b)
#define MAX(a, b) maxf_(a, b)
#define U(x) (0.0f <= (x) && (x) <= 1.0f)
#define FRESH2 (__CPROVER_is_fresh(src, sizeof(px_t)) && __CPROVER_is_fresh(dst, sizeof(px_t)))
void rgb_to_hsv(const px_t* src, px_t* dst)
__CPROVER_requires(FRESH2 && U(src->red) && U(src->green) && U(src->blue))
__CPROVER_assigns(dst->hue, dst->saturation, dst->value)
__CPROVER_ensures(U(dst->hue) && U(dst->saturation) && U(dst->value))                                  /* hue, saturation, value in [0,1] */
__CPROVER_ensures(IMPLIES(src->red == src->green && src->green == src->blue, dst->saturation == 0.0f && dst->value == src->red))   /* greys: saturation 0 */
@@rgb_to_hsv@@
void hsv_to_rgb(const px_t* src, px_t* dst)
__CPROVER_requires(FRESH2 && U(src->hue) && U(src->saturation) && U(src->value))
__CPROVER_assigns(dst->red, dst->green, dst->blue)
__CPROVER_ensures(U(dst->red) && U(dst->green) && U(dst->blue))                                         /* defined on every path and in [0,1] for ALL hue in [0,1] (hue 1 included) */
__CPROVER_ensures(IMPLIES(src->saturation == 0.0f, dst->red == src->value && dst->green == src->value && dst->blue == src->value))   /* greys ignore hue */
@@hsv_to_rgb@@
void rgb_to_hsl(const px_t* src, px_t* dst)
__CPROVER_requires(FRESH2 && U(src->red) && U(src->green) && U(src->blue))
__CPROVER_assigns(dst->hue, dst->saturation, dst->lightness)
__CPROVER_ensures(U(dst->hue) && 0.0f <= dst->saturation && dst->saturation <= 1.0f + 0x1p-20f && U(dst->lightness))   /* saturation may exceed 1 by float rounding only */
__CPROVER_ensures(IMPLIES(src->red == src->green && src->green == src->blue, dst->saturation == 0.0f && dst->lightness == src->red))
@@rgb_to_hsl@@
void hsl_to_rgb(const px_t* src, px_t* dst)
__CPROVER_requires(FRESH2 && U(src->hue) && U(src->saturation) && U(src->lightness))
__CPROVER_assigns(dst->red, dst->green, dst->blue)
__CPROVER_ensures(-0x1p-20f <= dst->red && dst->red <= 1.0f + 0x1p-20f && -0x1p-20f <= dst->green && dst->green <= 1.0f + 0x1p-20f && -0x1p-20f <= dst->blue && dst->blue <= 1.0f + 0x1p-20f)   /* in [0,1] up to float rounding */
__CPROVER_ensures(IMPLIES(src->saturation == 0.0f, dst->red == src->lightness && dst->green == src->lightness && dst->blue == src->lightness))   /* greys ignore hue */
@@hsl_to_rgb@@
#ifndef VERIF_NATIVE
/* loop-free bodies: a harness over fully symbolic inputs is a complete proof; the contract clauses above are asserted verbatim */
void h_rgb_to_hsv(void){ px_t s, d; __CPROVER_assume(U(s.red) && U(s.green) && U(s.blue)); rgb_to_hsv(&s, &d);
  __CPROVER_assert(U(d.hue) && U(d.saturation) && U(d.value), "rgb -> hsv: hue, saturation, value in [0,1]");
  __CPROVER_assert(IMPLIES(s.red == s.green && s.green == s.blue, d.saturation == 0.0f && d.value == s.red), "rgb -> hsv: greys have saturation 0");
  __CPROVER_assert(0, "VACUITY"); }
void h_hsv_to_rgb(void){ px_t s, d; __CPROVER_assume(U(s.hue) && U(s.saturation) && U(s.value)); hsv_to_rgb(&s, &d);
  __CPROVER_assert(U(d.red) && U(d.green) && U(d.blue), "hsv -> rgb: defined on every path and in [0,1] for ALL hue in [0,1] (hue 1 included)");
  __CPROVER_assert(IMPLIES(s.saturation == 0.0f, d.red == s.value && d.green == s.value && d.blue == s.value), "hsv -> rgb: greys ignore hue");
  __CPROVER_assert(0, "VACUITY"); }
void h_rgb_to_hsl(void){ px_t s, d; __CPROVER_assume(U(s.red) && U(s.green) && U(s.blue)); rgb_to_hsl(&s, &d);
  __CPROVER_assert(U(d.hue), "rgb -> hsl: hue in [0,1]");
  __CPROVER_assert(0.0f <= d.saturation && d.saturation <= 1.0f + 0x1p-20f, "rgb -> hsl: saturation in [0,1] (up to float rounding)");
  __CPROVER_assert(U(d.lightness), "rgb -> hsl: lightness in [0,1]");
  __CPROVER_assert(IMPLIES(s.red == s.green && s.green == s.blue, d.saturation == 0.0f && d.lightness == s.red), "rgb -> hsl: greys have saturation 0");
  __CPROVER_assert(0, "VACUITY"); }
void h_hsl_to_rgb(void){ px_t s, d; __CPROVER_assume(U(s.hue) && U(s.saturation) && U(s.lightness)); hsl_to_rgb(&s, &d);
  __CPROVER_assert(-0x1p-20f <= d.red && d.red <= 1.0f + 0x1p-20f && -0x1p-20f <= d.green && d.green <= 1.0f + 0x1p-20f && -0x1p-20f <= d.blue && d.blue <= 1.0f + 0x1p-20f, "hsl -> rgb: in [0,1] up to float rounding");
  __CPROVER_assert(IMPLIES(s.saturation == 0.0f, d.red == s.lightness && d.green == s.lightness && d.blue == s.lightness), "hsl -> rgb: greys ignore hue");
  __CPROVER_assert(0, "VACUITY"); }
/* hue is periodic: hue 1 denotes the same colour as hue 0 */
void h_hue_periodic(void){ px_t a, b, ra, rb; __CPROVER_assume(U(a.saturation) && U(a.value)); b = a; a.hue = 0.0f; b.hue = 1.0f;
  hsv_to_rgb(&a, &ra); hsv_to_rgb(&b, &rb);
  __CPROVER_assert(ra.red == rb.red && ra.green == rb.green && ra.blue == rb.blue, "hsv: hue 1 denotes the same colour as hue 0");
  __CPROVER_assert(0, "VACUITY"); }
void h_hue_periodic_hsl(void){ px_t a, b, ra, rb; __CPROVER_assume(U(a.saturation) && U(a.lightness)); b = a; a.hue = 0.0f; b.hue = 1.0f;
  hsl_to_rgb(&a, &ra); hsl_to_rgb(&b, &rb);
  __CPROVER_assert(FABS(ra.red - rb.red) <= 0x1p-18f && FABS(ra.green - rb.green) <= 0x1p-18f && FABS(ra.blue - rb.blue) <= 0x1p-18f, "hsl: hue 1 denotes the same colour as hue 0 (up to float rounding)");
  __CPROVER_assert(0, "VACUITY"); }
#endif
'''

NATIVE = r'''
// COMPLETE enumeration of the property's domain: every rgb8 pixel through the real converters
#include <boost/gil.hpp>
#include <boost/gil/extension/toolbox/color_spaces/hsv.hpp>
#include <boost/gil/extension/toolbox/color_spaces/hsl.hpp>
#include "vreplay.hpp"
using namespace boost::gil;
int main(int argc, char** argv){ vr::parse(argc, argv); long n = 0, f_hsv = 0, f_hsl = 0, r_hsv = 0, r_hsl = 0, printed = 0;
  for (int r = 0; r < 256; r++) for (int g = 0; g < 256; g++) for (int b = 0; b < 256; b++) { n++; rgb8_pixel_t p(r, g, b), q, q2; hsv32f_pixel_t h; hsl32f_pixel_t l;
    color_convert(p, h); color_convert(h, q); color_convert(p, l); color_convert(l, q2);
    if (!(h[0] >= 0.f && h[0] <= 1.f && h[1] >= 0.f && h[1] <= 1.f && h[2] >= 0.f && h[2] <= 1.f)) { r_hsv++; if (printed++ < 4) std::printf("FAILCASE hsv channel out of [0,1] for rgb8(%d,%d,%d): (%g,%g,%g)\n", r, g, b, (double)h[0], (double)h[1], (double)h[2]); }
    if (!(l[0] >= 0.f && l[0] <= 1.f && l[1] >= 0.f && l[1] <= 1.0001f && l[2] >= 0.f && l[2] <= 1.f)) { r_hsl++; if (printed++ < 4) std::printf("FAILCASE hsl channel out of [0,1] for rgb8(%d,%d,%d): (%g,%g,%g)\n", r, g, b, (double)l[0], (double)l[1], (double)l[2]); }
    if (q[0] != r || q[1] != g || q[2] != b) { f_hsv++; if (printed++ < 4) std::printf("FAILCASE rgb8(%d,%d,%d) -> hsv -> rgb8(%d,%d,%d)\n", r, g, b, q[0], q[1], q[2]); }
    if (q2[0] != r || q2[1] != g || q2[2] != b) { f_hsl++; if (printed++ < 4) std::printf("FAILCASE rgb8(%d,%d,%d) -> hsl -> rgb8(%d,%d,%d)\n", r, g, b, q2[0], q2[1], q2[2]); } }
  std::printf("CLAUSE roundtrip_hsv %s %ld rgb8 -> hsv32f -> rgb8 returns the original exactly\n", f_hsv ? "FAIL" : "PASS", f_hsv);
  std::printf("CLAUSE roundtrip_hsl %s %ld rgb8 -> hsl32f -> rgb8 returns the original exactly\n", f_hsl ? "FAIL" : "PASS", f_hsl);
  std::printf("CLAUSE range_hsv %s %ld hue, saturation, value in [0,1] for every rgb8 pixel\n", r_hsv ? "FAIL" : "PASS", r_hsv);
  std::printf("CLAUSE range_hsl %s %ld hue, saturation, lightness in [0,1] (saturation up to float rounding) for every rgb8 pixel\n", r_hsl ? "FAIL" : "PASS", r_hsl);
  std::printf("NATIVE cases=%ld window=ALL 2^24 rgb8 pixels (complete enumeration of the property's domain, not a sample)\n", n); return 0; }
'''

REPLAY = r'''
#include <boost/gil.hpp>
#include <boost/gil/extension/toolbox/color_spaces/hsv.hpp>
#include <boost/gil/extension/toolbox/color_spaces/hsl.hpp>
#include "vreplay.hpp"
using namespace boost::gil;
int main(int argc, char** argv){ vr::parse(argc, argv);
  for (float s : {1.f, 0.5f, 0.25f}) for (float v : {1.f, 0.5f}) for (float h : {1.f, 0.f, 0.999999f, 0.5f, 1.f/6, 2.f/6, 5.f/6}) {
    hsv32f_pixel_t p(h, s, v); rgb32f_pixel_t r; color_convert(p, r);
    for (int c = 0; c < 3; c++) if (!(r[c] >= 0.f && r[c] <= 1.f)) REPRODUCED("hsv(%g,%g,%g) -> rgb channel %d = %g outside [0,1]", h, s, v, c, (double)r[c]);
    hsv32f_pixel_t p0(0.f, s, v), p1(1.f, s, v); rgb8_pixel_t a, b; color_convert(p0, a); color_convert(p1, b);
    if (a[0] != b[0] || a[1] != b[1] || a[2] != b[2]) REPRODUCED("hue 1 and hue 0 give different colours: (%d,%d,%d) vs (%d,%d,%d)", b[0], b[1], b[2], a[0], a[1], a[2]);
    hsl32f_pixel_t l(h, s, v); rgb32f_pixel_t rl; color_convert(l, rl);
    for (int c = 0; c < 3; c++) if (!(rl[c] >= -1e-5f && rl[c] <= 1.00001f)) REPRODUCED("hsl(%g,%g,%g) -> rgb channel %d = %g outside [0,1]", h, s, v, c, (double)rl[c]); }
  NOT_REPRODUCED("hsv/hsl -> rgb in range and periodic on the sampled points"); }
'''

FL = ['--float-overflow-check', '--nan-check', '--conversion-check']
UNITS = [
    Unit('hsv_hsl', 'C18', C, extracts=X_ALL, replay=REPLAY,
         checks=[Check('rgb_to_hsv', 'h_rgb_to_hsv', engine='D', flags=FL, timeout=300, inputs=('s.red', 's.green', 's.blue')),
                 Check('hsv_to_rgb', 'h_hsv_to_rgb', engine='D', flags=FL, timeout=300, inputs=('s.hue', 's.saturation', 's.value')),
                 Check('rgb_to_hsl', 'h_rgb_to_hsl', engine='D', flags=FL, timeout=300, inputs=('s.red', 's.green', 's.blue')),
                 # h_hsl_to_rgb (hsl -> rgb defined and in [0,1] for every float input) times out on SAT, cvc5 and z3 (300-400 s): not registered, listed not covered
                 Check('hue_periodic_hsv', 'h_hue_periodic', engine='D', flags=FL + ['--cvc5'], timeout=300, inputs=('a.saturation', 'a.value')),
                 Check('hue_periodic_hsl', 'h_hue_periodic_hsl', engine='D', flags=FL + ['--cvc5'], timeout=400, tier='thorough')],
         preconditions=['float channels in [0,1] (no NaN)'],
         assumed=['float32_t (scoped_channel_value<float>) lowered to float; float->float channel_convert is the identity', 'CBMC floor() model']),
    Unit('rgb8_roundtrip', 'C18', '/* complete native enumeration, no extracted body */\n',
         checks=[Check('all_rgb8', 'none', engine='N', native=NATIVE, timeout=1800)]),
]
META = dict(not_covered=['hsl -> rgb defined and in range for ARBITRARY float inputs (harness h_hsl_to_rgb: 300-400 s time-outs on SAT, cvc5, z3; not registered) - covered for the hsl values of all 2^24 rgb8 pixels by the native enumeration',
                         'xyz, lab, ycbcr, cmyka (powf / cbrt: no usable model)', 'gray_alpha -> rgba, rgb_to_luminance toolbox converter (not built)'])
