"""C16 — threshold, morphology and median filters satisfy their per-pixel definitions (partial).

Under contract (bodies cut from image_processing/threshold.hpp and morphology.hpp):
  the eight per-channel lambdas of threshold_binary / threshold_truncate (hoisted, rule R13),
  detail::morph_impl (four nested loops, loop contracts, ghost neighbour).
Bounded stand-in (native, real code, UBSan): threshold_optimal (Otsu) on all small images over a value set.
"""
from vclib.core import X, Check, Unit

TH = 'boost/gil/image_processing/threshold.hpp'
MO = 'boost/gil/image_processing/morphology.hpp'
LAM = r'\]\(source_channel_t px\) -> result_channel_t \{'
NAMES = ['binary_regular', 'binary_inverse', 'trunc_threshold_regular', 'trunc_threshold_inverse', 'trunc_zero_regular', 'trunc_zero_inverse']
R_TH = [('R5.min_t', r'\(?std::min<(\w+)>\)?\(', r'MIN_T(\1, ', False), ('R5.max_t', r'\(?std::max<(\w+)>\)?\(', r'MAX_T(\1, ', False),
        ('R5.min', r'\(?std::min\)?\(', r'MIN_U(', False), ('R5.max', r'\(?std::max\)?\(', r'MAX_U(', False)]
X_TH = [X(n, TH, LAM, nth=i, count=6, rules=R_TH) for i, n in enumerate(NAMES)]

SPEC = {
    'binary_regular': 'px > threshold_value ? max_value : 0',
    'binary_inverse': 'px > threshold_value ? 0 : max_value',
    'trunc_threshold_regular': 'px > threshold_value ? threshold_value : px',
    'trunc_threshold_inverse': 'px > threshold_value ? px : threshold_value',
    'trunc_zero_regular': 'px > threshold_value ? px : 0',
    'trunc_zero_inverse': 'px > threshold_value ? 0 : px',
}
DOC = {
    'binary_regular': 'threshold_binary, regular: channels above the threshold become max_value, the others 0',
    'binary_inverse': 'threshold_binary, inverse: channels above the threshold become 0, the others max_value',
    'trunc_threshold_regular': 'threshold_truncate, mode threshold, regular: channels above the threshold are clamped to it',
    'trunc_threshold_inverse': 'threshold_truncate, mode threshold, inverse: channels not above the threshold are raised to it',
    'trunc_zero_regular': 'threshold_truncate, mode zero, regular: channels not above the threshold become 0',
    'trunc_zero_inverse': 'threshold_truncate, mode zero, inverse: channels above the threshold become 0',
}


def th_template():
    t = ['typedef SRC_T source_channel_t; typedef DST_T result_channel_t;',
         '/* std::min<T>(a, b) / std::max<T>(a, b): both arguments are converted to T first */',
         '#define MIN_T(T, a, b) (((T)(b) < (T)(a)) ? (T)(b) : (T)(a))', '#define MAX_T(T, a, b) (((T)(a) < (T)(b)) ? (T)(b) : (T)(a))',
         '#define MIN_U(a, b) (((b) < (a)) ? (b) : (a))', '#define MAX_U(a, b) (((a) < (b)) ? (b) : (a))',
         '/* captured variables of the lambdas */ result_channel_t threshold_value, max_value;']
    for n in NAMES:
        t.append('/* %s */' % DOC[n])
        t.append('result_channel_t %s(source_channel_t px)' % n)
        t.append('__CPROVER_ensures(RET == (result_channel_t)(%s))   /* %s */' % (SPEC[n], DOC[n]))
        t.append('__CPROVER_assigns()')
        t.append('@@%s@@' % n)
    t.append('#ifndef VERIF_NATIVE')
    for n in NAMES:
        t.append('void h_%s(void){ source_channel_t px; result_channel_t t, m; threshold_value = t; max_value = m; %s(px); __CPROVER_assert(0, "VACUITY"); }' % (n, n))
    t.append('#endif')
    return '\n'.join(t)


REPLAY_TH = r'''
#include <boost/gil.hpp>
#include <boost/gil/image_processing/threshold.hpp>
#include "vreplay.hpp"
using namespace boost::gil;
#include "inst.hpp"
int main(int argc, char** argv){ vr::parse(argc, argv);
  using sp = pixel<SRC, gray_layout_t>; using dp = pixel<DST, gray_layout_t>;
  long bad = 0; long vals[] = {std::numeric_limits<SRC>::min(), -1, 0, 1, 2, 100, 127, 128, 200, 254, 255, 256, 1000, std::numeric_limits<SRC>::max(), vr::i64("px", 5), vr::i64("t", 7)};
  for (long t : vals) for (long m : {1L, 200L, (long)std::numeric_limits<DST>::max()}) for (long px : vals) {
    if (t < std::numeric_limits<DST>::min() || t > std::numeric_limits<DST>::max() || px < std::numeric_limits<SRC>::min() || px > std::numeric_limits<SRC>::max()) continue;
    image<sp> s(1, 1, sp((SRC)px)); image<dp> d(1, 1); DST T = (DST)t, M = (DST)m; SRC P = (SRC)px;
    threshold_binary(const_view(s), view(d), T, M, threshold_direction::regular); if (view(d)(0,0)[0] != (DST)(P > T ? M : 0)) bad++;
    threshold_binary(const_view(s), view(d), T, M, threshold_direction::inverse); if (view(d)(0,0)[0] != (DST)(P > T ? 0 : M)) bad++;
    threshold_truncate(const_view(s), view(d), T, threshold_truncate_mode::threshold, threshold_direction::regular); if (view(d)(0,0)[0] != (DST)(P > T ? T : P)) bad++;
    threshold_truncate(const_view(s), view(d), T, threshold_truncate_mode::threshold, threshold_direction::inverse); if (view(d)(0,0)[0] != (DST)(P > T ? P : T)) bad++;
    threshold_truncate(const_view(s), view(d), T, threshold_truncate_mode::zero, threshold_direction::regular); if (view(d)(0,0)[0] != (DST)(P > T ? P : 0)) bad++;
    threshold_truncate(const_view(s), view(d), T, threshold_truncate_mode::zero, threshold_direction::inverse); if (view(d)(0,0)[0] != (DST)(P > T ? 0 : P)) bad++;
  }
  if (bad) REPRODUCED("%ld (value, threshold, mode, direction) combinations disagree with the documented comparison", bad);
  NOT_REPRODUCED("threshold modes agree with the documented comparisons on the sampled values"); }
'''

# ------------------------------------------------------------------------------------------------ morphology
X_MO = [X('morph_impl', MO, r'void morph_impl\(SrcView const& src_view, DstView const& dst_view, Kernel const& kernel,\s*morphological_operation identifier\)\s*\{', count=1,
          rules=[('R8.chan_decl', r'typename channel_type<typename SrcView::value_type>::type target_element;', 'channel_t target_element;', False),
                 ('R8.chan_alias', r'using channel_t = typename channel_type<typename SrcView::value_type>::type;', '', False),
                 ('R8.numlim', r'\(std::numeric_limits<channel_t>::(max|min)\)\(\)', r'NUMLIM_\1', False),
                 ('R11.h', r'src_view\.height\(\)', 'src_view->h', True), ('R11.w', r'src_view\.width\(\)', 'src_view->w', True),
                 ('R11.ksize', r'kernel\.size\(\)', 'kernel->size', True),
                 ('R11.kat', r'kernel\.at\(', 'KERNEL_AT(kernel, ', True),
                 ('R11.kcy', r'kernel\.center_y\(\)', 'kernel->cy', True), ('R11.kcx', r'kernel\.center_x\(\)', 'kernel->cx', True),
                 ('R11.read0', r'src_view\(([^()]+), ([^()]+)\)\[0\]', r'VIEW_READ(src_view, \1, \2)', True),
                 ('R11.read', r'= src_view\(([^()]+), ([^()]+)\);', r'= VIEW_READ(src_view, \1, \2);', True),
                 ('R11.write', r'dst_view\(([^()]+), ([^()]+)\) = target_element;', r'VIEW_WRITE(dst_view, \1, \2, target_element);', True),
                 ('R11.enum_d', r'morphological_operation::dilation', 'OP_DILATION', True), ('R11.enum_e', r'morphological_operation::erosion', 'OP_EROSION', True),
                 ('L1', r'for \(std::ptrdiff_t view_row = 0;.*?\+\+view_row\)', lambda m: m.group(0) + '\nLOOP_ROWS', True),
                 ('L2', r'for \(std::ptrdiff_t view_col = 0;.*?\+\+view_col\)', lambda m: m.group(0) + '\nLOOP_COLS', True),
                 ('L3', r'for \(std::size_t kernel_row = 0;.*?\+\+kernel_row\)', lambda m: m.group(0) + '\nLOOP_KROWS', True),
                 ('L4', r'for \(std::size_t kernel_col = 0;.*?\+\+kernel_col\)', lambda m: m.group(0) + '\nLOOP_KCOLS', True)])]

MO_C = r'''
typedef CHAN_T channel_t;
typedef struct { ptrdiff_t w, h; } view_t; typedef struct { size_t size; ptrdiff_t cx, cy; } kernel_t;
typedef int morphological_operation;
#define OP_DILATION 0
#define OP_EROSION 1
#define HMAX ((ptrdiff_t)100000)
#define KMAX ((size_t)1000)
/* ghost neighbour: one arbitrary kernel cell (g_kr, g_kc) of the structuring element, its (fixed, arbitrary) entry g_kval, and the
   (fixed, arbitrary) source pixel value g_pix at the source position that cell maps to for the destination pixel (g_dc, g_dr).
   A universally quantified statement about the neighbourhood is proved for this arbitrary representative. */
size_t g_kr, g_kc; int g_kval; ptrdiff_t g_dr, g_dc; channel_t g_pix, g_centre; size_t g_ksize; ptrdiff_t g_cx, g_cy;
_Bool g_written; channel_t g_result;
#define GHOST_SRC_ROW (g_dr + (g_cy - (ptrdiff_t)(g_ksize - 1 - g_kr)))
#define GHOST_SRC_COL (g_dc + (g_cx - (ptrdiff_t)(g_ksize - 1 - g_kc)))
/* std::max / std::min evaluate each argument once (the prelude macros would evaluate VIEW_READ twice) */
#undef MAX
#undef MIN
static channel_t maxc(channel_t a, channel_t b) { return a < b ? b : a; }
static channel_t minc(channel_t a, channel_t b) { return b < a ? b : a; }
#define MAX(a, b) maxc(a, b)
#define MIN(a, b) minc(a, b)
static channel_t VIEW_READ(const view_t* v, ptrdiff_t x, ptrdiff_t y) {
  __CPROVER_assert(0 <= x && x < v->w && 0 <= y && y < v->h, "ACCESS: source read inside the source view");
  channel_t r; __CPROVER_assume(NOT_NAN(r));
  if (x == g_dc && y == g_dr) return g_centre;                      /* the pixel under the structuring element's origin */
  if (x == GHOST_SRC_COL && y == GHOST_SRC_ROW) return g_pix;       /* the ghost neighbour */
  return r; }
static int KERNEL_AT(const kernel_t* k, size_t r, size_t c) {
  __CPROVER_assert(r < k->size && c < k->size, "ACCESS: kernel index inside the kernel");
  int v; if (r == g_ksize - 1 - g_kr && c == g_ksize - 1 - g_kc) return g_kval; return v; }
static void VIEW_WRITE(const view_t* v, ptrdiff_t x, ptrdiff_t y, channel_t val) {
  __CPROVER_assert(0 <= x && x < v->w && 0 <= y && y < v->h, "ACCESS: destination write inside the destination view");
  if (x == g_dc && y == g_dr) { g_written = 1; g_result = val; } }
#define AT_GHOST (view_row == g_dr && view_col == g_dc)
#define GHOST_IN_IMAGE (0 <= GHOST_SRC_ROW && GHOST_SRC_ROW < src_view->h && 0 <= GHOST_SRC_COL && GHOST_SRC_COL < src_view->w)
#define GHOST_COUNTS (g_kval != 0 && GHOST_IN_IMAGE)
/* the running extremum already accounts for the ghost neighbour once its kernel cell has been passed */
#define EXT_OK(val) (identifier == OP_DILATION ? (val) >= g_pix : (identifier == OP_EROSION ? (val) <= g_pix : 1))
#define CENTRE_OK(val) (identifier == OP_DILATION ? (val) >= g_centre : (identifier == OP_EROSION ? (val) <= g_centre : (val) == g_centre))
#define LOOP_ROWS __CPROVER_assigns(view_row, flip_ker_row, flip_ker_col, row_boundary, col_boundary, target_element, g_written, g_result) \
  __CPROVER_loop_invariant(0 <= view_row && view_row <= src_view->h) \
  __CPROVER_loop_invariant(g_written == (view_row > g_dr)) \
  __CPROVER_loop_invariant(!g_written || (CENTRE_OK(g_result) && (!GHOST_COUNTS || EXT_OK(g_result)))) \
  __CPROVER_decreases(src_view->h - view_row)
#define LOOP_COLS __CPROVER_assigns(view_col, flip_ker_row, flip_ker_col, row_boundary, col_boundary, target_element, g_written, g_result) \
  __CPROVER_loop_invariant(0 <= view_col && view_col <= src_view->w) \
  __CPROVER_loop_invariant(g_written == (view_row > g_dr || (view_row == g_dr && view_col > g_dc))) \
  __CPROVER_loop_invariant(!g_written || (CENTRE_OK(g_result) && (!GHOST_COUNTS || EXT_OK(g_result)))) \
  __CPROVER_decreases(src_view->w - view_col)
#define LOOP_KROWS __CPROVER_assigns(kernel_row, flip_ker_row, flip_ker_col, row_boundary, col_boundary, target_element) \
  __CPROVER_loop_invariant(kernel_row <= kernel->size) \
  __CPROVER_loop_invariant(!AT_GHOST || CENTRE_OK(target_element)) \
  __CPROVER_loop_invariant(!(AT_GHOST && GHOST_COUNTS && kernel_row > g_kr) || EXT_OK(target_element)) \
  __CPROVER_decreases(kernel->size - kernel_row)
#define LOOP_KCOLS __CPROVER_assigns(kernel_col, flip_ker_col, row_boundary, col_boundary, target_element) \
  __CPROVER_loop_invariant(kernel_col <= kernel->size) \
  __CPROVER_loop_invariant(!AT_GHOST || CENTRE_OK(target_element)) \
  __CPROVER_loop_invariant(!(AT_GHOST && GHOST_COUNTS && (kernel_row > g_kr || (kernel_row == g_kr && kernel_col > g_kc))) || EXT_OK(target_element)) \
  __CPROVER_decreases(kernel->size - kernel_col)

void morph_impl(const view_t* src_view, const view_t* dst_view, const kernel_t* kernel, morphological_operation identifier)
__CPROVER_requires(__CPROVER_is_fresh(src_view, sizeof(*src_view)) && __CPROVER_is_fresh(dst_view, sizeof(*dst_view)) && __CPROVER_is_fresh(kernel, sizeof(*kernel)))
__CPROVER_requires(0 <= src_view->w && src_view->w <= HMAX && 0 <= src_view->h && src_view->h <= HMAX && dst_view->w == src_view->w && dst_view->h == src_view->h)
__CPROVER_requires(1 <= kernel->size && kernel->size <= KMAX && 0 <= kernel->cx && kernel->cx < (ptrdiff_t)kernel->size && 0 <= kernel->cy && kernel->cy < (ptrdiff_t)kernel->size)
__CPROVER_requires(g_ksize == kernel->size && g_cx == kernel->cx && g_cy == kernel->cy && g_kr < g_ksize && g_kc < g_ksize && 0 <= g_dr && g_dr < src_view->h && 0 <= g_dc && g_dc < src_view->w)
__CPROVER_requires(!g_written && (identifier == OP_DILATION || identifier == OP_EROSION) && NOT_NAN(g_pix) && NOT_NAN(g_centre))
__CPROVER_requires(!(GHOST_SRC_COL == g_dc && GHOST_SRC_ROW == g_dr) || g_pix == g_centre)     /* the ghost neighbour may be the centre pixel itself */
__CPROVER_assigns(g_written, g_result)
__CPROVER_ensures(g_written)                                                /* every destination pixel is written */
__CPROVER_ensures(CENTRE_OK(g_result))                                     /* erode <= src <= dilate */
__CPROVER_ensures(!(g_kval != 0 && GHOST_IN_IMAGE) || EXT_OK(g_result))    /* dilate >= (erode <=) EVERY in-image neighbour under a non-zero structuring element entry */
@@morph_impl@@
#ifndef VERIF_NATIVE
void h_morph(void){ view_t* s; view_t* d; kernel_t* k; morphological_operation op; morph_impl(s, d, k, op); __CPROVER_assert(0, "VACUITY"); }
#endif
'''

REPLAY_MO = r'''
#include <boost/gil.hpp>
#include <boost/gil/image_processing/morphology.hpp>
#include <vector>
#include <random>
#include "vreplay.hpp"
using namespace boost::gil;
#include "inst.hpp"
int main(int argc, char** argv){ vr::parse(argc, argv); std::mt19937 g(7);
  using px_t = pixel<CHAN, gray_layout_t>; using img_t = image<px_t>; long bad = 0;
  std::vector<double> vals = {0.0, 0.0, 1.0, 0.5, 0.25, (double)vr::f64("g_pix", 0.75), (double)vr::f64("g_centre", 0.0)};
  for (int it = 0; it < 400; it++) { int w = 1 + g() % 4, h = 1 + g() % 4; img_t src(w, h), dil(w, h), ero(w, h);
    for (int y = 0; y < h; y++) for (int x = 0; x < w; x++) view(src)(x, y)[0] = (CHAN)(std::is_floating_point<base_channel_type<CHAN>::type>::value ? vals[g() % vals.size()] : (double)(g() % 7 == 0 ? 0 : g() % 256));
    detail::kernel_2d<float> ker(3, 1, 1); for (int i = 0; i < 9; i++) ker[i] = (g() % 3 == 0) ? 0.f : 1.f; ker[4] = 1.f;
    detail::morph_impl(const_view(src), view(dil), ker, detail::morphological_operation::dilation);
    detail::morph_impl(const_view(src), view(ero), ker, detail::morphological_operation::erosion);
    for (int y = 0; y < h; y++) for (int x = 0; x < w; x++) { double mx = view(src)(x, y)[0], mn = mx;
      for (int ky = 0; ky < 3; ky++) for (int kx = 0; kx < 3; kx++) { if (ker.at(2 - ky, 2 - kx) == 0) continue; int sy = y + (1 - (2 - ky)), sx = x + (1 - (2 - kx)); if (sy < 0 || sy >= h || sx < 0 || sx >= w) continue; double v = view(src)(sx, sy)[0]; if (v > mx) mx = v; if (v < mn) mn = v; }
      if ((double)view(dil)(x, y)[0] != mx || (double)view(ero)(x, y)[0] != mn) bad++; } }
  if (bad) REPRODUCED("%ld pixels: dilate/erode differ from the max/min over the in-image neighbourhood", bad);
  NOT_REPRODUCED("dilate / erode equal the neighbourhood extremum on the sampled images"); }
'''

NATIVE_OTSU = r'''
// bounded stand-in: threshold_optimal (Otsu) on every 2x2 / 3x1 / 1x1 / constant image over a value set, real code under UBSan/ASan
#include <boost/gil.hpp>
#include <boost/gil/image_processing/threshold.hpp>
#include <vector>
#include <fcntl.h>
#include "vreplay.hpp"
using namespace boost::gil;
template <typename Img, typename T> static long run(std::vector<T> const& vals, const char* name, long& cases) { long bad = 0; size_t n = vals.size();
  for (int shape = 0; shape < 3; shape++) { int w = shape == 0 ? 2 : shape == 1 ? 3 : 1, h = shape == 0 ? 2 : 1; int cells = w * h; long total = 1; for (int i = 0; i < cells; i++) total *= (long)n;
    for (long code = 0; code < total; code++) { Img src(w, h), dst(w, h); long c = code; for (int i = 0; i < cells; i++) { view(src)(i % w, i / w)[0] = vals[c % n]; c /= n; }
      cases++; threshold_optimal(const_view(src), view(dst), threshold_optimal_value::otsu);
      // the output equals threshold_binary for some single threshold: two pixels with equal input get equal output, and the output is monotone in the input
      for (int i = 0; i < cells; i++) for (int j = 0; j < cells; j++) { auto a = view(src)(i % w, i / w)[0], b = view(src)(j % w, j / w)[0]; auto oa = view(dst)(i % w, i / w)[0], ob = view(dst)(j % w, j / w)[0];
        if ((a == b && oa != ob) || (a < b && oa > ob)) { bad++; if (bad < 4) std::printf("FAILCASE %s: Otsu output is not a single-threshold binarisation (%d x %d image, code %ld)\n", name, w, h, code); i = j = cells; } } } }
  return bad; }
#include <unistd.h>
#include <sys/wait.h>
// the empty image, in a child process (a failing BOOST_ASSERT aborts)
static bool empty_image_ok() { std::fflush(stdout); pid_t p = fork(); if (p == 0) { int fd = ::open("/dev/null", 1); if (fd >= 0) { dup2(fd, 2); } gray8_image_t s(0, 0), d(0, 0); threshold_optimal(const_view(s), view(d), threshold_optimal_value::otsu); _exit(0); }
  int st = 0; waitpid(p, &st, 0); return WIFEXITED(st) && WEXITSTATUS(st) == 0; }
int main(int argc, char** argv){ vr::parse(argc, argv); long cases = 0, bad = 0;
  bad += run<gray8_image_t, std::uint8_t>({0, 1, 7, 128, 254, 255}, "gray8", cases);
  bad += run<gray16_image_t, std::uint16_t>({0, 1, 255, 256, 32768, 65535}, "gray16", cases);
  bad += run<gray16s_image_t, std::int16_t>({-32768, -1, 0, 1, 255, 32767}, "gray16s", cases);
  bad += run<gray8s_image_t, std::int8_t>({-128, -1, 0, 1, 127}, "gray8s", cases);
  long bad_empty = 0; cases++;
  if (!empty_image_ok()) {
#ifdef KF_C16_OTSU_EMPTY
    std::printf("KNOWNCASE C16-otsu-empty threshold_optimal on a 0x0 gray8 image aborts / is flagged by the sanitizer\n");
#else
    bad_empty = 1; std::printf("FAILCASE threshold_optimal on the empty (0x0) image does not terminate normally\n");
#endif
  }
  std::printf("CLAUSE otsu_empty %s %ld threshold_optimal on the empty image terminates normally\n", bad_empty ? "FAIL" : "PASS", bad_empty);
  std::printf("CLAUSE otsu %s %ld threshold_optimal terminates without undefined behaviour (UBSan/ASan clean) and is a single-threshold binarisation\n", bad ? "FAIL" : "PASS", bad);
  std::printf("NATIVE cases=%ld window=all 2x2, 3x1, 1x1 images over 5-6 boundary values per channel type (gray8/16/16s/8s) + the empty image\n", cases); return 0; }
'''

# ---------------------------------------------------------------------------------------------------------------------------------------
# detail::threshold_impl: the per-pixel double loop shared by threshold_binary / threshold_truncate / threshold_optimal
R_TI = [('R6.requires', r'gil_function_requires<[^;]*>\(\);', '', True),
        ('R6.static_assert', r'static_assert\(color_spaces_are_compatible.*?\);', '', True),
        ('R11.src_row', r'typename SrcView::x_iterator src_it = src_view\.row_begin\(y\);', 'rowit_t src_it = ROW_BEGIN(src_view, y);', True),
        ('R11.dst_row', r'typename DstView::x_iterator dst_it = dst_view\.row_begin\(y\);', 'rowit_t dst_it = ROW_BEGIN(dst_view, y);', True),
        ('R11.op', r'static_transform\(src_it\[x\], dst_it\[x\], threshold_op\);', 'PIXEL_OP(&src_it, x, &dst_it, x);', True),
        ('R11.h', r'\b(src_view|dst_view)\.height\(\)', r'\1->h', True), ('R11.w', r'\b(src_view|dst_view)\.width\(\)', r'\1->w', True),
        ('R11.is1d', r'\b(src_view|dst_view)\.is_1d_traversable\(\)', r'\1->is1d', False),
        ('L.rows', r'for \(std::ptrdiff_t y = 0; y < ([^;]+); y\+\+\)', r'for (ptrdiff_t y = 0; y < \1; y++)\nTI_ROWS_CONTRACT(\1)', True),
        ('L.cols', r'for \(std::ptrdiff_t x = 0; x < ([^;]+); x\+\+\)', r'for (ptrdiff_t x = 0; x < \1; x++)\nTI_COLS_CONTRACT(\1)', True)]
X_TI = [X('threshold_impl', TH, r'void threshold_impl\(SrcView const& src_view, DstView const& dst_view, Operator const& threshold_op\)\s*\{', count=1, rules=R_TI)]
TI_C = r'''
typedef struct { ptrdiff_t w, h; _Bool is1d; } view_t;
typedef struct { const view_t* v; ptrdiff_t y; } rowit_t;                 /* an x-iterator positioned at the first pixel of row y */
#define HMAX ((ptrdiff_t)1 << 30)
ptrdiff_t g_x, g_y; int g_hits;                                          /* ghost destination pixel and how often it has been written */
static rowit_t ROW_BEGIN(const view_t* v, ptrdiff_t y) { rowit_t r; __CPROVER_assert(0 <= y && y < v->h, "ACCESS: row_begin(y) of an existing row"); r.v = v; r.y = y; return r; }
/* it[x] for an x-iterator at the start of row y: inside the row it is pixel (x, y); past the end of the row it is a pixel of the view only if the
   view is 1-D traversable (then it is pixel (x mod w, y + x div w)) */
static void PIXEL_OP(const rowit_t* s, ptrdiff_t sx, const rowit_t* d, ptrdiff_t dx) {
  __CPROVER_assert(0 <= sx && (sx < s->v->w || s->v->is1d), "ACCESS: the source pixel read lies inside the source view (past the end of its row only in a 1-D traversable view)");
  __CPROVER_assert(0 <= dx && (dx < d->v->w || d->v->is1d), "ACCESS: the destination pixel written lies inside the destination view (past the end of its row only in a 1-D traversable view)");
  __CPROVER_assert(sx == dx && s->y == d->y, "the destination pixel has the same coordinates as the source pixel");
  if (dx < d->v->w && dx == g_x && d->y == g_y) g_hits = g_hits + 1; }
#define TI_ROWS_CONTRACT(bound) __CPROVER_assigns(y, g_hits) __CPROVER_loop_invariant(0 <= y && y <= (bound) && g_hits == (y > g_y ? 1 : 0)) __CPROVER_decreases((bound) - y)
#define TI_COLS_CONTRACT(bound) __CPROVER_assigns(x, g_hits) __CPROVER_loop_invariant(0 <= x && x <= (bound) && g_hits == ((y > g_y || (y == g_y && x > g_x)) ? 1 : 0)) __CPROVER_decreases((bound) - x)
void threshold_impl(const view_t* src_view, const view_t* dst_view, int threshold_op)
__CPROVER_requires(__CPROVER_is_fresh(src_view, sizeof(view_t)) && __CPROVER_is_fresh(dst_view, sizeof(view_t)))
__CPROVER_requires(0 <= src_view->w && src_view->w <= HMAX && 0 <= src_view->h && src_view->h <= HMAX && dst_view->w == src_view->w && dst_view->h == src_view->h)   /* same dimensions; their traversability is independent */
__CPROVER_requires(g_hits == 0 && 0 <= g_x && g_x < dst_view->w && 0 <= g_y && g_y < dst_view->h)
__CPROVER_assigns(g_hits)
__CPROVER_ensures(g_hits == 1)          /* every destination pixel (ghost g_x, g_y) is written exactly once, from the source pixel with the same coordinates */
@@threshold_impl@@
#ifndef VERIF_NATIVE
void h_threshold_impl(void){ view_t* s; view_t* d; int op; g_hits = 0; threshold_impl(s, d, op); __CPROVER_assert(0, "VACUITY"); }
#endif
'''
REPLAY_TI = r'''
#include <boost/gil.hpp>
#include <boost/gil/image_processing/threshold.hpp>
#include "vreplay.hpp"
using namespace boost::gil;
int main(int argc, char** argv){ vr::parse(argc, argv);
  // contiguous source, destination = region of interest inside a larger canvas (rows not contiguous): compare with the per-pixel definition, canvas outside the roi untouched
  for (int W = 1; W <= 4; W++) for (int H = 1; H <= 4; H++) for (int ox : {0, 2}) { gray8_image_t src(W, H); for (int y = 0; y < H; y++) for (int x = 0; x < W; x++) view(src)(x, y) = gray8_pixel_t((unsigned char)(40 * x + 17 * y + 90));
    gray8_image_t canvas(W + 4, H + 2, gray8_pixel_t(77)); auto roi = subimage_view(view(canvas), ox, 1, W, H);
    threshold_binary(const_view(src), roi, (unsigned char)128, (unsigned char)255);
    for (int y = 0; y < H + 2; y++) for (int x = 0; x < W + 4; x++) { bool in = x >= ox && x < ox + W && y >= 1 && y < 1 + H; int got = view(canvas)(x, y)[0];
      int want = in ? (view(src)(x - ox, y - 1)[0] > 128 ? 255 : 0) : 77;
      if (got != want) REPRODUCED("threshold_binary %dx%d into a region of interest at (%d,1) of a %dx%d canvas: canvas pixel (%d,%d) = %d, expected %d", W, H, ox, W + 4, H + 2, x, y, got, want); } }
  NOT_REPRODUCED("threshold_binary into a sub-view matches the per-pixel definition and leaves the rest of the canvas alone"); }
'''

UNITS = []
for (n, src, dst, tier) in [('u8', 'uint8_t', 'uint8_t', 'quick'), ('i16', 'int16_t', 'int16_t', 'quick'), ('u16', 'uint16_t', 'uint16_t', 'quick'),
                            ('i8', 'int8_t', 'int8_t', 'thorough'), ('u16_u8', 'uint16_t', 'uint8_t', 'quick'), ('i8_u8', 'int8_t', 'uint8_t', 'quick'), ('u8_i16', 'uint8_t', 'int16_t', 'thorough')]:
    UNITS.append(Unit('threshold.' + n, 'C16', th_template(), extracts=X_TH,
                      checks=[Check(x, 'h_' + x, enforce=x, inputs=('px', 't', 'm'), flags=['--conversion-check'] if n == 'f32' else []) for x in NAMES],
                      insts=[(n, tier, {'SRC_T': src, 'DST_T': dst, 'T_SRC': 'std::' + src if src != 'float' else 'float', 'T_DST': 'std::' + dst if dst != 'float' else 'float'})],
                      replay=REPLAY_TH if n != 'f32' else None,
                      assumed=['static_transform applies the lambda to every channel of every pixel; detail::threshold_impl visits each (x, y) once (template plumbing, not extracted)']))
for (n, cxx, ct, nn, tier) in [('u8', 'std::uint8_t', 'uint8_t', '1', 'thorough'), ('f32', 'float32_t', 'float', '(!__CPROVER_isnanf(x))', 'quick'), ('i16', 'std::int16_t', 'int16_t', '1', 'thorough')]:
    UNITS.append(Unit('morph.' + n, 'C16', MO_C.replace('NOT_NAN(', 'NOT_NAN_(') .replace('typedef CHAN_T channel_t;', 'typedef CHAN_T channel_t;\n#define NOT_NAN_(x) %s' % (nn if nn == '1' else '(!__CPROVER_isnanf(x))')),
                      extracts=X_MO, checks=[Check('morph_impl', 'h_morph', enforce='morph_impl', loops=True, object_bits=12, timeout=1500, inputs=())],
                      insts=[(n, tier, {'T_CHAN': cxx, 'CHAN_T': ct})], probe_includes=['boost/gil.hpp', 'limits'],
                      probe='P_VAL("NUMLIM_max", (base_channel_type<CHAN>::type)(std::numeric_limits<CHAN>::max)()); P_VAL("NUMLIM_min", (base_channel_type<CHAN>::type)(std::numeric_limits<CHAN>::min)());',
                      replay=REPLAY_MO,
                      preconditions=['views up to 10^5 x 10^5, square structuring element up to 1000 x 1000 with its centre inside', 'float channels: no NaN pixel values'],
                      assumed=['src_view(x, y) / dst_view(x, y) = pixel access with the ACCESS precondition (ghost VIEW_READ / VIEW_WRITE)', 'kernel.at / size / center_x / center_y of detail::kernel_2d']))
UNITS.append(Unit('otsu', 'C16', '/* no extracted body: bounded native stand-in only */\n', checks=[Check('native_window', 'none', engine='N', native=NATIVE_OTSU, timeout=1800, flags=['sanitize'])]))

UNITS.append(Unit('threshold_impl', 'C16', TI_C, extracts=X_TI, replay=REPLAY_TI,
                  checks=[Check('threshold_impl', 'h_threshold_impl', enforce='threshold_impl', loops=True, object_bits=10, timeout=600)],
                  preconditions=['source and destination have the same dimensions (<= 2^30); their row layout (1-D traversable or not) is independent'],
                  assumed=['row_begin(y)[x] is pixel (x, y) inside the row and, past its end, a pixel of the view only when the view is 1-D traversable (C03)',
                           'static_transform(src_pixel, dst_pixel, op) writes every channel of dst_pixel with op(channel of src_pixel) (the six per-channel operators are under contract in units threshold.*)']))

META = dict(not_covered=['threshold_optimal (Otsu) is checked only by the bounded native stand-in', 'median filter, threshold_adaptive, opening/closing algebra (idempotence, monotonicity): not built',
                         'morphology: existence half (the result IS one of the neighbourhood values) is not stated; the universal half (>= / <= every neighbour and the centre) is'])
