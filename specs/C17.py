"""C17 — samplers interpolate within bounds (partial: samplers and rounding helpers).

Under contract (bodies cut from utilities.hpp and extension/numeric/sampler.hpp):
  iround(float|double), ifloor(float|double), sample(nearest_neighbor_sampler, ...), sample(bilinear_sampler, ...).
The source view is the ghost (w, h) with pixel access lowered to ACCUM(x, y, weight): precondition 0 <= x < w, 0 <= y < h (never reads
outside the source view), the monitor records the number of accumulated pixels, their weights and positions.
"""
from vclib.core import X, Check, Unit

UT = 'utilities.hpp'
SA = 'boost/gil/extension/numeric/sampler.hpp'
R_S = [
    ('R6.drop_srcp', r'using SrcP = typename SrcView::value_type;', '', False),
    ('R12.pointF', r'point<F> (\w+)\(([^;,]+),([^;]+)\);', r'pointF \1; \1.x = (\2); \1.y = (\3);', False),
    ('R12.center', r'typename SrcView::point_t center\(iround\(p\)\);', 'point_t center; center.x = iround(p.x); center.y = iround(p.y);', False),
    ('R12.mp', r'pixel<F,devicen_layout_t<num_channels<SrcView>::value> > mp\(0\);', 'MP_INIT();', False),
    ('R12.loc', r'typename SrcView::xy_locator loc=src\.xy_at\(([^;,]+),([^;]+)\);', r'point_t loc; loc.x = (\1); loc.y = (\2);', False),
    ('R11.inc_y', r'\+\+loc\.y\(\);', 'loc.y = loc.y + 1;', False),
    ('R11.accum_here', r'detail::add_dst_mul_src<[^;()]*>\(\)\(\*loc,\s*(.*?),mp\);', r'ACCUM(loc.x, loc.y, \1);', False),
    ('R11.accum_right', r'detail::add_dst_mul_src<[^;()]*>\(\)\(loc\.x\(\)\[1\],\s*(.*?),mp\);', r'ACCUM(loc.x + 1, loc.y, \1);', False),
    ('R11.direct_read', r'color_convert\(\*loc, result\);', 'ACCUM(loc.x, loc.y, 1); RESULT_WRITE();', False),
    ('R11.result', r'SrcP src_result;\s*cast_pixel\(mp,src_result\);\s*color_convert\(src_result, result\);', 'RESULT_WRITE();', False),
    ('R11.nearest', r'result=src\(center\.x,center\.y\);', 'ACCUM(center.x, center.y, 1); RESULT_WRITE();', False),
    ('R11.w', r'src\.width\(\)', 'src->w', False), ('R11.h', r'src\.height\(\)', 'src->h', False),
    ('R4.bool_true', r'\btrue\b', '1', False), ('R4.bool_false', r'\bfalse\b', '0', False),
]
X_ALL = [
    X('iround_f', UT, r'inline std::ptrdiff_t iround\(float x\)\s*\{', count=1), X('iround_d', UT, r'inline std::ptrdiff_t iround\(double x\)\s*\{', count=1),
    X('ifloor_f', UT, r'inline std::ptrdiff_t ifloor\(float x\)\s*\{', count=1, rules=[('R5.floor', r'std::floor\(', 'floorf(', False)]),
    X('ifloor_d', UT, r'inline std::ptrdiff_t ifloor\(double x\)\s*\{', count=1, rules=[('R5.floor', r'std::floor\(', 'floor(', False)]),
    X('nearest', SA, r'bool sample\(nearest_neighbor_sampler, SrcView const& src, point<F> const& p, DstP& result\)\s*\{', count=1, rules=R_S + [('must', r'ACCUM\(center', 'ACCUM(center', True)]),
    X('bilinear', SA, r'bool sample\(bilinear_sampler, SrcView const& src, point<F> const& p, DstP& result\)\s*\{', count=1, rules=R_S + [('must', r'ACCUM\(loc', 'ACCUM(loc', True)]),
]

C = r'''
typedef FTYPE F; typedef struct { F x, y; } pointF; typedef struct { ptrdiff_t w, h; } view_t;
#define PMAX ((F)1000000)
ptrdiff_t iround_f(float x)
__CPROVER_requires(-1e6f <= x && x <= 1e6f)
__CPROVER_ensures((double)RET - 0.5000001 <= (double)x && (double)x <= (double)RET + 0.5000001)   /* nearest integer (ties away from zero, float addition may round) */
__CPROVER_assigns()
@@iround_f@@
ptrdiff_t iround_d(double x)
__CPROVER_requires(-1e6 <= x && x <= 1e6)
__CPROVER_ensures((double)RET - 0.5000000001 <= x && x <= (double)RET + 0.5000000001)
__CPROVER_assigns()
@@iround_d@@
ptrdiff_t ifloor_f(float x)
__CPROVER_requires(-1e6f <= x && x <= 1e6f)
__CPROVER_ensures((float)RET <= x && x < (float)RET + 1.0f)                                            /* floor */
__CPROVER_assigns()
@@ifloor_f@@
ptrdiff_t ifloor_d(double x)
__CPROVER_requires(-1e6 <= x && x <= 1e6)
__CPROVER_ensures((double)RET <= x && x < (double)RET + 1.0)
__CPROVER_assigns()
@@ifloor_d@@
#if F_IS_FLOAT
#define ifloor ifloor_f
#define iround iround_f
#else
#define ifloor ifloor_d
#define iround iround_d
#endif
/* ghost accumulation monitor */
int g_n; _Bool g_access_ok, g_weights_ok, g_neighbours_ok, g_result_written; F g_wsum; pointF g_p; ptrdiff_t g_w, g_h; ptrdiff_t g_last_x, g_last_y; F g_last_w;
#define MP_INIT() do { } while (0)
static void ACCUM(ptrdiff_t x, ptrdiff_t y, F weight) {
  __CPROVER_assert(0 <= x && x < g_w && 0 <= y && y < g_h, "ACCESS: the sampler reads only pixels inside the source view");
  if (!((F)0 <= weight && weight <= (F)1)) g_weights_ok = 0;
  /* one of the (up to four) pixels surrounding the sample point, clamped to the view */
  if (!((F)x - (F)1.0000001 <= g_p.x && g_p.x <= (F)x + (F)1.0000001 + (x == 0 ? (F)1 : (F)0) && (F)y - (F)1.0000001 <= g_p.y && g_p.y <= (F)y + (F)1.0000001 + (y == 0 ? (F)1 : (F)0))) g_neighbours_ok = 0;
  g_wsum = g_wsum + weight; g_n = g_n + 1; g_last_x = x; g_last_y = y; g_last_w = weight; }
#define RESULT_WRITE() do { g_result_written = 1; } while (0)
#define MON_RESET() do { g_n = 0; g_access_ok = 1; g_weights_ok = 1; g_neighbours_ok = 1; g_result_written = 0; g_wsum = 0; } while (0)

_Bool nearest(const view_t* src, pointF p) @@nearest@@
_Bool bilinear(const view_t* src, pointF p) @@bilinear@@
#ifndef VERIF_NATIVE
#define SETUP() view_t v; pointF p; __CPROVER_assume(0 <= v.w && v.w <= 100000 && 0 <= v.h && v.h <= 100000); __CPROVER_assume(-PMAX <= p.x && p.x <= PMAX && -PMAX <= p.y && p.y <= PMAX); \
  MON_RESET(); g_p = p; g_w = v.w; g_h = v.h
void h_nearest(void){ SETUP();
  _Bool r = nearest(&v, p);
  __CPROVER_assert(r ? (g_n == 1 && g_result_written) : (g_n == 0 && !g_result_written), "nearest: outside => result untouched; inside => exactly one source pixel is read");
  __CPROVER_assert(!r || ((F)g_last_x - (F)0.5000001 <= p.x && p.x <= (F)g_last_x + (F)0.5000001 && (F)g_last_y - (F)0.5000001 <= p.y && p.y <= (F)g_last_y + (F)0.5000001), "nearest: the pixel read is the one nearest to the sample point");
  __CPROVER_assert(0, "VACUITY"); }
void h_bilinear(void){ SETUP();
  _Bool r = bilinear(&v, p);
  __CPROVER_assert(r || (g_n == 0 && !g_result_written), "bilinear: a point reported outside leaves the result untouched and reads nothing");
  __CPROVER_assert(!r || ((g_n == 1 || g_n == 2 || g_n == 4) && g_result_written), "bilinear: inside => 1, 2 or 4 source pixels are combined");
  __CPROVER_assert(!r || g_neighbours_ok, "bilinear: only the (up to four) pixels surrounding the sample point are used");
  __CPROVER_assert(0, "VACUITY"); }
void h_bilinear_weights(void){ SETUP();
  _Bool r = bilinear(&v, p);
  __CPROVER_assert(!r || g_weights_ok, "bilinear: every weight lies in [0,1]");
  __CPROVER_assert(0, "VACUITY"); }
void h_bilinear_wsum(void){ SETUP();
  _Bool r = bilinear(&v, p);
  __CPROVER_assert(!r || (g_wsum >= (F)0.99999 && g_wsum <= (F)1.00001), "bilinear: the weights sum to 1 (convex combination)");
  __CPROVER_assert(0, "VACUITY"); }
void h_bilinear_integer(void){ SETUP(); ptrdiff_t ix, iy; __CPROVER_assume(0 <= ix && ix < v.w && 0 <= iy && iy < v.h); p.x = (F)ix; p.y = (F)iy; g_p = p;
  _Bool r = bilinear(&v, p);
  __CPROVER_assert(r, "bilinear: an integer point inside the view is inside");
  /* all accumulations with non-zero weight are at (ix, iy): the last one has weight 1*1 or the others weight 0; the sum of weights at other positions is 0 */
  __CPROVER_assert(g_wsum == (F)1, "bilinear at integer coordinates: total weight exactly 1");
  __CPROVER_assert(0, "VACUITY"); }
#endif
'''

REPLAY = r'''
#include <boost/gil.hpp>
#include <boost/gil/extension/numeric/sampler.hpp>
#include <boost/gil/extension/numeric/resample.hpp>
#include "vreplay.hpp"
using namespace boost::gil;
int main(int argc, char** argv){ vr::parse(argc, argv);
  // the source is a window of a larger image framed with 255: any read outside the view shows up as 255 in the result
  gray8_image_t big(12, 12, gray8_pixel_t(255)); auto src = subimage_view(view(big), 4, 4, 3, 3); for (int y = 0; y < 3; y++) for (int x = 0; x < 3; x++) src(x, y) = gray8_pixel_t(10 + 10 * y + x);
  double px = vr::has("p.x") ? vr::f64("p.x") : -1.0, py = vr::has("p.y") ? vr::f64("p.y") : 0.0;
  for (double dx : {0.0, -1.0, 1.0, 0.5, 2.0, 3.0}) for (double dy : {0.0, -1.0, 1.0, 0.5, 2.0, 3.0}) for (double bx : {px, -1.0, 0.0, 2.0}) for (double by : {py, -1.0, 0.0, 2.0}) {
    point<double> p{bx + dx, by + dy}; gray8_pixel_t r(77);
    bool in = sample(bilinear_sampler(), src, p, r);
    if (!in && r[0] != 77) REPRODUCED("bilinear reported (%g,%g) outside but changed the result", p.x, p.y);
    if (in && (r[0] < 10 || r[0] > 32)) REPRODUCED("bilinear at (%g,%g) returned %d: not a convex combination of the surrounding source pixels (10..32) - a pixel outside the view was read", p.x, p.y, (int)r[0]);
    gray8_pixel_t n(77); bool nin = sample(nearest_neighbor_sampler(), src, p, n);
    if (nin && (n[0] < 10 || n[0] > 32)) REPRODUCED("nearest at (%g,%g) returned %d", p.x, p.y, (int)n[0]);
    if (in && p.x == std::floor(p.x) && p.y == std::floor(p.y) && p.x >= 0 && p.y >= 0 && p.x < 3 && p.y < 3 && r[0] != src((int)p.x, (int)p.y)[0]) REPRODUCED("bilinear at integer (%g,%g) is not the source pixel", p.x, p.y); }
  NOT_REPRODUCED("samplers stay inside the source view on the sampled points"); }
'''

FL = ['--float-overflow-check', '--nan-check', '--conversion-check']
UNITS = []
for (n, ft, isf, tier) in [('double', 'double', '0', 'quick'), ('float', 'float', '1', 'quick')]:
    UNITS.append(Unit('sampler.' + n, 'C17', C, extracts=X_ALL, replay=REPLAY,
                      insts=[(n, tier, {'FTYPE': ft, 'F_IS_FLOAT': isf})],
                      checks=[Check('iround', 'h_iround', engine='D', flags=FL, no_vacuity=True) if False else
                              Check('nearest', 'h_nearest', engine='D', flags=FL, timeout=600, inputs=('p.x', 'p.y', 'v.w', 'v.h')),
                              Check('bilinear', 'h_bilinear', engine='D', flags=FL, timeout=600, inputs=('p.x', 'p.y', 'v.w', 'v.h')),
                              Check('bilinear_weights', 'h_bilinear_weights', engine='D', flags=FL, timeout=600, inputs=('p.x', 'p.y', 'v.w', 'v.h')),
                              # bilinear_wsum (the four weights sum to 1 for arbitrary points: sums of float products) timed out after 3000 s on every back end: not registered
                              Check('bilinear_integer', 'h_bilinear_integer', engine='D', flags=FL, timeout=900, inputs=('ix', 'iy', 'v.w', 'v.h'))],
                      preconditions=['sample point |coordinate| <= 10^6, view up to 10^5 x 10^5'],
                      assumed=['src.xy_at / ++loc.y() / *loc / loc.x()[1] move and read a locator at the stated offsets (C03 contracts); add_dst_mul_src accumulates weight * pixel channel-wise',
                               'cast_pixel / color_convert of the accumulated pixel into the result (C09)']))

REPLAY_ROUND = r'''
#include <boost/gil.hpp>
#include <cmath>
#include "vreplay.hpp"
using namespace boost::gil;
int main(int argc, char** argv){ vr::parse(argc, argv);
  for (double x = -1000.0; x <= 1000.0; x += 0.125) { if (ifloor(x) != (std::ptrdiff_t)std::floor(x)) REPRODUCED("ifloor(%g) = %td", x, ifloor(x)); if (ifloor((float)x) != (std::ptrdiff_t)std::floor((float)x)) REPRODUCED("ifloor(float %g) = %td", x, ifloor((float)x));
    std::ptrdiff_t r = iround(x); if (std::fabs((double)r - x) > 0.5) REPRODUCED("iround(%g) = %td is not a nearest integer", x, r); std::ptrdiff_t rf = iround((float)x); if (std::fabs((double)rf - x) > 0.5) REPRODUCED("iround(float %g) = %td", x, rf); }
  NOT_REPRODUCED("iround / ifloor agree with floor / nearest on [-1000, 1000] in steps of 1/8"); }
'''
UNITS.append(Unit('rounding', 'C17', C, extracts=X_ALL, replay=REPLAY_ROUND, insts=[('r', 'quick', {'FTYPE': 'double', 'F_IS_FLOAT': '0'})],
                  checks=[Check('iround_f', 'h0_iround_f', enforce='iround_f', flags=FL), Check('iround_d', 'h0_iround_d', enforce='iround_d', flags=FL),
                          Check('ifloor_f', 'h0_ifloor_f', enforce='ifloor_f', flags=FL), Check('ifloor_d', 'h0_ifloor_d', enforce='ifloor_d', flags=FL)]))

# ---------------------------------------------------------------------------------------------------------------------------------------
# detail::cast_channel_fn (the last step of the bilinear sampler: accumulator channel -> source pixel channel)
X_CAST = [X('cast_channel', SA, r'void operator\(\)\(const SrcChannel& src, DstChannel& dst\)\s*\{', within=r'struct cast_channel_fn \{', count=1,
            rules=[('R6.alias', r'using dst_value_t = typename channel_traits<DstChannel>::value_type;', 'typedef DST_T dst_value_t;', True),
                   ('R8.is_integral', r'std::is_integral<dst_value_t>::value', 'DST_IS_INTEGRAL', False),
                   ('R4.cast_dst', r'\bdst_value_t\(', '(dst_value_t)(', True), ('R4.cast_src', r'\bSrcChannel\(', '(SrcChannel)(', False),
                   ('R9.ref_assign', r'(?<![\w.>\[])dst = (?!=)', '*dst = ', True)])]
C_CAST = r'''
typedef SRC_T SrcChannel; typedef DST_T DstChannel;
/* ghost integers bracketing the accumulator: the values of the (up to four) surrounding source pixels lie in [g_lo, g_hi] */
int64_t g_lo, g_hi;
void cast_channel(SrcChannel src, DstChannel* dst)
__CPROVER_requires(__CPROVER_is_fresh(dst, sizeof(*dst)))
__CPROVER_requires((SrcChannel)DST_MIN <= src && src <= (SrcChannel)DST_MAX)            /* a convex combination of channel values stays in the channel's range */
__CPROVER_requires(DST_MIN <= g_lo && g_lo <= g_hi && g_hi <= DST_MAX)
__CPROVER_assigns(*dst)
__CPROVER_ensures(IMPLIES(src == (SrcChannel)(int64_t)src, *dst == (int64_t)src))      /* an accumulator holding an integral value (sampling at integer coordinates) is reproduced exactly */
__CPROVER_ensures(IMPLIES((SrcChannel)g_lo <= src && src <= (SrcChannel)g_hi, g_lo <= *dst && *dst <= g_hi))   /* the result stays inside the hull of the surrounding source values */
@@cast_channel@@
#ifndef VERIF_NATIVE
void h_cast_channel(void){ SrcChannel s; DstChannel* d; int64_t lo, hi; g_lo = lo; g_hi = hi; cast_channel(s, d); __CPROVER_assert(0, "VACUITY"); }
#endif
'''
PROBE_CAST = r'''
  P_TYPE("SRC_T", SRCCH); P_TYPE("DST_T", DSTCH); P_VAL("DST_MIN", (long long)std::numeric_limits<DSTCH>::min()); P_VAL("DST_MAX", (long long)std::numeric_limits<DSTCH>::max());
  P_VAL("DST_IS_INTEGRAL", (int)std::is_integral<DSTCH>::value);
'''
REPLAY_CAST = r'''
#include <boost/gil.hpp>
#include <boost/gil/extension/numeric/sampler.hpp>
#include "vreplay.hpp"
using namespace boost::gil;
#include "inst.hpp"
int main(int argc, char** argv){ vr::parse(argc, argv);
  // bilinear sampling of a constant image of the instantiation's channel type, for a spread of constants: the result is the constant
  using px_t = pixel<DSTCH, gray_layout_t>; using img_t = image<px_t, false>;
  for (long long c : {(long long)std::numeric_limits<DSTCH>::min(), -100LL, -1LL, 0LL, 1LL, 100LL, (long long)std::numeric_limits<DSTCH>::max()}) {
    if (c < (long long)std::numeric_limits<DSTCH>::min() || c > (long long)std::numeric_limits<DSTCH>::max()) continue;
    img_t img(3, 3, px_t((DSTCH)c));
    for (double x : {0.0, 1.0, 0.5, 1.25}) for (double y : {0.0, 1.0, 0.75}) { px_t r((DSTCH)0); point<double> p{x, y};
      if (sample(bilinear_sampler(), const_view(img), p, r) && r[0] != (DSTCH)c) REPRODUCED("bilinear sample of a constant image (all pixels %lld) at (%g,%g) returned %lld", c, x, y, (long long)r[0]); } }
  NOT_REPRODUCED("bilinear sampling of constant images returns the constant"); }
'''
for (n, srct, dstt) in [('f32_s8', 'float', 'std::int8_t'), ('f32_u8', 'float', 'std::uint8_t'), ('f32_s16', 'float', 'std::int16_t'), ('f32_u16', 'float', 'std::uint16_t'), ('f64_s32', 'double', 'std::int32_t')]:
    UNITS.append(Unit('cast.' + n, 'C17', C_CAST, extracts=X_CAST, probe=PROBE_CAST, probe_includes=['boost/gil.hpp', 'limits', 'type_traits'], replay=REPLAY_CAST,
                      insts=[(n, 'quick', {'T_SRCCH': srct, 'T_DSTCH': dstt})],
                      checks=[Check('cast_channel', 'h_cast_channel', enforce='cast_channel', flags=FL, timeout=600)],
                      preconditions=['the accumulator lies in the range of the destination channel (convex combination of channel values)'],
                      assumed=['cast_pixel applies cast_channel_fn to every channel (static_for_each)']))

C = C.replace('#ifndef VERIF_NATIVE\n#define SETUP()', '''#ifndef VERIF_NATIVE
void h0_iround_f(void){ float x; iround_f(x); __CPROVER_assert(0, "VACUITY"); }
void h0_iround_d(void){ double x; iround_d(x); __CPROVER_assert(0, "VACUITY"); }
void h0_ifloor_f(void){ float x; ifloor_f(x); __CPROVER_assert(0, "VACUITY"); }
void h0_ifloor_d(void){ double x; ifloor_d(x); __CPROVER_assert(0, "VACUITY"); }
#define SETUP()''')
for u in UNITS:
    if not u.name.startswith('cast.'):
        u.template = C
# ---------------------------------------------------------------------------------------------------------------------------------------
# matrix3x2 algebra (extension/numeric/affine.hpp).  matrix3x2<T> is generic in T: the bodies are checked over the mathematical integers
# (engine Z, every input in [-1024, 1024]) - the ring identities the property names hold there exactly; rounding of float / double
# instantiations is not modelled (the "within rounding error" clause is the native replay's).
AFF = 'boost/gil/extension/numeric/affine.hpp'
R_AFF = [('R12.mat', r'return matrix3x2(?:<T>)?\(', 'return mat_make(', False), ('R12.pt', r'return \{(.*)\};', r'return pt_make(\1);', False),
         ('R4.Tconst', r'\bT const\b', 'T', False), ('R12.res', r'boost::gil::matrix3x2<T> res;', 'mat_t res;', False),
         ('R5.div', r'= ([^;=]*?) / determinant;', r'= EXACT_DIV(\1, determinant);', False), ('R4.Tcast', r'(?<![\w<])T\(', '(T)(', False)]
X_AFF = [X('mat_mul', AFF, r'matrix3x2<T> operator\*\(const matrix3x2<T>& m1, const matrix3x2<T>& m2\) \{', count=1, rules=R_AFF),
         X('pt_mul', AFF, r'point<F> operator\*\(point<T> const& p, matrix3x2<F> const& m\)\s*\{', count=1, rules=R_AFF),
         X('transform', AFF, r'point<F> transform\(matrix3x2<F> const& mat, point<F2> const& src\)\s*\{', count=1, rules=[('R11.mul', r'return src \* mat;', 'return pt_mul(src, mat);', True)]),
         X('inverse', AFF, r'boost::gil::matrix3x2<T> inverse\(boost::gil::matrix3x2<T> m\)\s*\{', count=1, rules=R_AFF),
         X('translate', AFF, r'static matrix3x2 get_translate\(T x, T y\)\s*\{', count=1, rules=R_AFF),
         X('scale', AFF, r'static matrix3x2 get_scale\(T x, T y\)\s*\{', count=1, rules=R_AFF),
         X('identity', AFF, r'matrix3x2\(\) :', count=1, meminit=True)]
AFF_C = r"""
typedef int64_t T;
typedef struct { T a, b, c, d, e, f; } mat_t; typedef struct { T x, y; } pt_t;
static mat_t mat_make(T a, T b, T c, T d, T e, T f) { mat_t r; r.a = a; r.b = b; r.c = c; r.d = d; r.e = e; r.f = f; return r; }
static pt_t pt_make(T x, T y) { pt_t r; r.x = x; r.y = y; return r; }
/* exact division of the ring's field of fractions: the quotient q with q * d == n (inputs for which no such integer exists are not explored) */
static T EXACT_DIV(T n, T d) { T q; __CPROVER_assume(-((T)1 << 40) <= q && q <= ((T)1 << 40)); __CPROVER_assume(q * d == n); return q; }
mat_t mat_mul(mat_t m1, mat_t m2) @@mat_mul@@
pt_t pt_mul(pt_t p, mat_t m) @@pt_mul@@
pt_t transform(mat_t mat, pt_t src) @@transform@@
mat_t inverse(mat_t m) @@inverse@@
mat_t get_translate(T x, T y) @@translate@@
mat_t get_scale(T x, T y) @@scale@@
void mat_identity(mat_t* self) @@identity@@
#ifndef VERIF_NATIVE
#define B(v) (-1024 <= (v) && (v) <= 1024)
#define MOK(m) (B((m).a) && B((m).b) && B((m).c) && B((m).d) && B((m).e) && B((m).f))
#define MEQ(m, n) ((m).a == (n).a && (m).b == (n).b && (m).c == (n).c && (m).d == (n).d && (m).e == (n).e && (m).f == (n).f)
void hz_compose(void){ mat_t m1, m2; pt_t p; __CPROVER_assume(MOK(m1) && MOK(m2) && B(p.x) && B(p.y));
  pt_t q1 = transform(mat_mul(m1, m2), p), q2 = transform(m2, transform(m1, p));
  __CPROVER_assert(q1.x == q2.x && q1.y == q2.y, "transform(m1*m2, p) == transform(m2, transform(m1, p)): the product maps points by m1 first, then m2");
  __CPROVER_assert(0, "VACUITY"); }
void hz_assoc(void){ mat_t m1, m2, m3; __CPROVER_assume(MOK(m1) && MOK(m2) && MOK(m3));
  mat_t l = mat_mul(mat_mul(m1, m2), m3), r = mat_mul(m1, mat_mul(m2, m3));
  __CPROVER_assert(MEQ(l, r), "(m1*m2)*m3 == m1*(m2*m3)");
  __CPROVER_assert(0, "VACUITY"); }
void hz_builders(void){ T x, y; pt_t p; __CPROVER_assume(B(x) && B(y) && B(p.x) && B(p.y));
  pt_t t = transform(get_translate(x, y), p); __CPROVER_assert(t.x == p.x + x && t.y == p.y + y, "get_translate(x,y) maps p to p + (x,y)");
  pt_t s = transform(get_scale(x, y), p); __CPROVER_assert(s.x == p.x * x && s.y == p.y * y, "get_scale(x,y) maps p to (x*p.x, y*p.y)");
  mat_t id; mat_identity(&id); pt_t i = transform(id, p); __CPROVER_assert(i.x == p.x && i.y == p.y, "the default matrix is the identity map");
  mat_t m; __CPROVER_assume(MOK(m)); mat_t l = mat_mul(id, m), r = mat_mul(m, id); __CPROVER_assert(MEQ(l, m) && MEQ(r, m), "identity * m == m * identity == m");
  __CPROVER_assert(0, "VACUITY"); }
void hz_inverse(void){ mat_t m; __CPROVER_assume(MOK(m) && m.a * m.d - m.b * m.c != 0);
  mat_t inv = inverse(m); mat_t id; mat_identity(&id); mat_t l = mat_mul(inv, m), r = mat_mul(m, inv);
  __CPROVER_assert(MEQ(l, id), "inverse(m) * m == identity for non-singular m");
  __CPROVER_assert(MEQ(r, id), "m * inverse(m) == identity for non-singular m");
  __CPROVER_assert(0, "VACUITY"); }
#endif
"""
REPLAY_AFF = r"""
#include <boost/gil.hpp>
#include <boost/gil/extension/numeric/affine.hpp>
#include <cmath>
#include "vreplay.hpp"
using namespace boost::gil;
static bool close(double a, double b) { return std::fabs(a - b) <= 1e-9 * (1 + std::fabs(a) + std::fabs(b)); }
int main(int argc, char** argv){ vr::parse(argc, argv); long bad = 0; using M = matrix3x2<double>;
  M ms[] = { M(), M::get_translate(3, 5), M::get_translate(-2, 0), M::get_scale(2, 3), M::get_rotate(0.3), M::get_rotate(-1.1), M(1, 2, 3, 4, 5, 6), M(0.5, -1, 2, 0.25, -3, 7) };
  point<double> ps[] = { {0, 0}, {1, 0}, {0, 1}, {2.5, -1.5}, {-3, 4} };
  for (auto& m1 : ms) for (auto& m2 : ms) { M pr = m1 * m2;
    for (auto& p : ps) { auto q1 = transform(pr, p), q2 = transform(m2, transform(m1, p)); if (!close(q1.x, q2.x) || !close(q1.y, q2.y)) { if (!bad) std::printf("transform(m1*m2, p) = (%g,%g) but transform(m2, transform(m1, p)) = (%g,%g)\n", q1.x, q1.y, q2.x, q2.y); bad++; } }
    for (auto& m3 : ms) { M l = (m1 * m2) * m3, r = m1 * (m2 * m3); if (!close(l.a, r.a) || !close(l.b, r.b) || !close(l.c, r.c) || !close(l.d, r.d) || !close(l.e, r.e) || !close(l.f, r.f)) { if (!bad) std::printf("matrix product not associative\n"); bad++; } } }
  for (auto& m : ms) { if (std::fabs(m.a * m.d - m.b * m.c) < 1e-6) continue; M i = inverse(m) * m; if (!close(i.a, 1) || !close(i.d, 1) || std::fabs(i.b) > 1e-9 || std::fabs(i.c) > 1e-9 || std::fabs(i.e) > 1e-9 || std::fabs(i.f) > 1e-9) { if (!bad) std::printf("inverse(m)*m = (%g %g %g %g %g %g)\n", i.a, i.b, i.c, i.d, i.e, i.f); bad++; } }
  if (bad) REPRODUCED("%ld matrix3x2 identities fail on the sample matrices", bad);
  NOT_REPRODUCED("matrix3x2 composition, associativity and inverse hold on the sample matrices"); }
"""
UNITS.append(Unit('affine', 'C17', AFF_C, extracts=X_AFF, replay=REPLAY_AFF,
                  checks=[Check('compose', 'hz_compose', engine='Z', timeout=300), Check('assoc', 'hz_assoc', engine='Z', timeout=300),
                          Check('builders', 'hz_builders', engine='Z', timeout=300), Check('inverse', 'hz_inverse', engine='Z', timeout=300)],
                  preconditions=['matrix entries and point coordinates are integers in [-1024, 1024] (T = mathematical integers); inverse: only matrices whose inverse has integer entries'],
                  assumed=['the element type T is a commutative ring; floating-point rounding of float / double instantiations is not modelled']))

META = dict(not_covered=['the four bilinear weights summing to exactly 1 for arbitrary (non-integer) points: sums of products of symbolic floats, 3000 s time-out (harness h_bilinear_wsum is kept in the template but not registered); proved: every weight in [0,1], total weight 1 at integer coordinates',
                         'resample_pixels driver loop, resize_view identity, matrix3x2 algebra (floating-point identities up to rounding), lanczos scaling',
                         'the VALUE of the interpolation (weights times pixel values) beyond weights in [0,1] summing to 1 at neighbouring positions'])
