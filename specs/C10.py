"""C10 — image is a leak-free deep-value container over any operation history.  See specs/img.py: every operation preserves
the representation invariant of every image involved and each harness closes the history with the destructors."""
from . import img
UNITS = img.units('C10', img.C10_CHECKS)
META = dict(not_covered=['exception paths (an allocation or pixel constructor throws): try/catch roll-backs are not lowered (DESIGN R14)',
                         'element-wise construct / destruct balance inside default_construct_pixels / destruct_pixels (iterator-generic loops)',
                         'converting copy (different pixel organisation) and any_image'])
