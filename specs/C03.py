"""C03 — all navigation paths over a view reach the same pixel; iterator / locator laws.

Functions under contract:
  iterator_from_2d::increment / decrement / advance / distance_to / equal       (iterator_from_2d.hpp)
  memory_based_2d_locator::offset / operator+= / operator-= / cache_location / operator()(dx,dy) /
      operator[](cached) / x_at / is_1d_traversable / y_distance_to              (locator.hpp)
  memunit_step_fn::difference / advance, step_iterator_adaptor operator< > <= >=  (step_iterator.hpp)
  image_view::at(x,y) / operator()(x,y) / xy_at(x,y) / x_at(x,y) / size / begin   (image_view.hpp, index expressions)
  bit cursor (specs/bits.py)

Ghost model (DESIGN 3.6): a memory-based locator / iterator is its address `a` in memory units plus the two
strides `sx` (pixel step) and `sy` (row step); memunit_advance(it, d) is a += d, memunit_distance(i, j) is j.a - i.a,
memunit_step is the stride.  The 2-D locator held by iterator_from_2d is abstracted further to its position
(gx, gy) relative to the view origin: `_p += (dx,dy)` moves the position by (dx,dy) - which is exactly the
contract proved for memory_based_2d_locator::operator+= below.
All arithmetic obligations go to engine Z (integer theory, unbounded within the stated ranges).
"""
from vclib.core import X, Check, Unit
from . import bits

I2D = 'iterator_from_2d.hpp'
LOC = 'locator.hpp'
STEP = 'step_iterator.hpp'
VIEW = 'image_view.hpp'
M_IT = ['_coords', '_width', '_p']

R_IT = [('R11.loc_pluseq_pt', r'_p\+=point_t\(([^;]+?),([^;]+?)\);', r'LOC_pluseq_xy(&self->_p, \1, \2);', False),
        ('R11.loc_pluseq', r'_p\+=delta;', r'LOC_pluseq_xy(&self->_p, delta.x, delta.y);', False),
        ('R11.inc_x', r'\+\+_p\.x\(\);', 'LOC_inc_x(&self->_p);', False),
        ('R11.dec_x', r'--_p\.x\(\);', 'LOC_dec_x(&self->_p);', False),
        ('R11.it_y', r'\bit\.y_pos\(\)', 'it->_coords.y', False), ('R11.it_x', r'\bit\.x_pos\(\)', 'it->_coords.x', False),
        ('R14.assert', r'BOOST_ASSERT\(_width == it\.width\(\)\);', 'PRECONDITION(self->_width == it->_width);', False),
        ('R11.pt_eq', r'_coords == it\._coords', 'POINT_EQ(self->_coords, it->_coords)', False),
        ('R11.loc_eq', r'_p == it\._p', 'LOC_EQ(self->_p, it->_p)', False)]

X_IT = [
    X('increment', I2D, r'void increment\(\) \{', count=1, members=M_IT, rules=R_IT + [('must', r'LOC_inc_x', 'LOC_inc_x', True)]),
    X('decrement', I2D, r'void decrement\(\) \{', count=1, members=M_IT, rules=R_IT + [('must', r'LOC_dec_x', 'LOC_dec_x', True)]),
    X('advance', I2D, r'BOOST_FORCEINLINE void advance\(difference_type d\) \{', count=1, members=M_IT,
      rules=R_IT + [('must', r'LOC_pluseq_xy\(&self->_p, delta', 'LOC_pluseq_xy(&self->_p, delta', True)]),
    X('distance_to', I2D, r'difference_type distance_to\(const iterator_from_2d& it\) const \{', count=1, members=M_IT, rules=R_IT),
    X('equal', I2D, r'bool equal\(iterator_from_2d const& it\) const\s*\{', count=1, members=M_IT,
      rules=R_IT + [('must', r'POINT_EQ', 'POINT_EQ', True)]),
]

IT_C = r'''
typedef ptrdiff_t difference_type;
typedef struct { ptrdiff_t gx, gy; } gpos_t;                         /* ghost: locator position relative to the view origin */
typedef struct { point_t _coords; ptrdiff_t _width; gpos_t _p; } it2d_t;
/* contract of the 2-D locator operations used by iterator_from_2d (proved for memory_based_2d_locator in unit "locator") */
static void LOC_pluseq_xy(gpos_t* p, ptrdiff_t dx, ptrdiff_t dy) { p->gx += dx; p->gy += dy; }
static void LOC_inc_x(gpos_t* p) { p->gx += 1; }
static void LOC_dec_x(gpos_t* p) { p->gx -= 1; }
#define POINT_EQ(a, b) ((a).x == (b).x && (a).y == (b).y)
#define LOC_EQ(a, b) ((a).gx == (b).gx && (a).gy == (b).gy)
#define PRECONDITION(c) __CPROVER_assert(c, "BOOST_ASSERT precondition of the library")
#define WMAX ((ptrdiff_t)1 << 20)
#define DMAX ((ptrdiff_t)1 << 40)
/* representation invariant of iterator_from_2d: 0 <= x < width (or width == 0), locator position == coordinates */
#define IT(s) ((s)._width >= 0 && (s)._width <= WMAX && ((s)._width == 0 || (0 <= (s)._coords.x && (s)._coords.x < (s)._width)) \
               && (s)._coords.y >= -WMAX && (s)._coords.y <= WMAX && (s)._p.gx == (s)._coords.x && (s)._p.gy == (s)._coords.y)
#define INDEX(s) ((s)._coords.y * (s)._width + (s)._coords.x)

void increment(it2d_t* self) @@increment@@
void decrement(it2d_t* self) @@decrement@@
void advance(it2d_t* self, difference_type d) @@advance@@
difference_type distance_to(const it2d_t* self, const it2d_t* it) @@distance_to@@
_Bool equal(const it2d_t* self, const it2d_t* it) @@equal@@

#ifndef VERIF_NATIVE
void hz_advance(void){ it2d_t s; difference_type d;
  __CPROVER_assume(IT(s)); __CPROVER_assume(-DMAX <= d && d <= DMAX);
  it2d_t o = s;
  advance(&s, d);
  __CPROVER_assert(s._width == o._width, "advance.ensures: width unchanged");
  __CPROVER_assert(s._width == 0 || (0 <= s._coords.x && s._coords.x < s._width), "advance.ensures: 0 <= x < width (row ends are crossed correctly)");
  __CPROVER_assert(s._p.gx == s._coords.x && s._p.gy == s._coords.y, "advance.ensures: the locator moved with the coordinates");
  __CPROVER_assert(s._width == 0 || INDEX(s) - INDEX(o) == d, "advance.ensures: the row-major index moves by exactly d");
  __CPROVER_assert(s._width != 0 || (POINT_EQ(s._coords, o._coords) && LOC_EQ(s._p, o._p)), "advance.ensures: empty / default-constructed view: no move");
  __CPROVER_assert(s._coords.y >= -2 * DMAX && s._coords.y <= 2 * DMAX, "advance.ensures: row coordinate bounded (used by advance_contract)");
  __CPROVER_assert(0, "VACUITY"); }
void hz_increment(void){ it2d_t s; __CPROVER_assume(IT(s)); __CPROVER_assume(s._width > 0); it2d_t o = s;
  increment(&s);
  __CPROVER_assert(s._width == o._width && 0 <= s._coords.x && s._coords.x < s._width, "increment.ensures: 0 <= x < width");
  __CPROVER_assert(s._p.gx == s._coords.x && s._p.gy == s._coords.y, "increment.ensures: the locator moved with the coordinates");
  __CPROVER_assert(INDEX(s) - INDEX(o) == 1, "increment.ensures: index + 1");
  __CPROVER_assert(0, "VACUITY"); }
void hz_decrement(void){ it2d_t s; __CPROVER_assume(IT(s)); __CPROVER_assume(s._width > 0); it2d_t o = s;
  decrement(&s);
  __CPROVER_assert(s._width == o._width && 0 <= s._coords.x && s._coords.x < s._width, "decrement.ensures: 0 <= x < width");
  __CPROVER_assert(s._p.gx == s._coords.x && s._p.gy == s._coords.y, "decrement.ensures: the locator moved with the coordinates");
  __CPROVER_assert(INDEX(s) - INDEX(o) == -1, "decrement.ensures: index - 1");
  __CPROVER_assert(0, "VACUITY"); }
void hz_distance_to(void){ it2d_t s, t; __CPROVER_assume(IT(s)); __CPROVER_assume(IT(t)); __CPROVER_assume(s._width == t._width);
  difference_type r = distance_to(&s, &t);
  __CPROVER_assert(s._width == 0 ? r == 0 : r == INDEX(t) - INDEX(s), "distance_to.ensures: difference of the row-major indices");
  __CPROVER_assert(0, "VACUITY"); }
void hz_equal(void){ it2d_t s, t; __CPROVER_assume(IT(s)); __CPROVER_assume(IT(t)); __CPROVER_assume(s._width == t._width);
  _Bool r = equal(&s, &t);
  __CPROVER_assert(r == (s._coords.x == t._coords.x && s._coords.y == t._coords.y), "equal.ensures: same coordinates");
  __CPROVER_assert(s._width == 0 || r == (INDEX(s) == INDEX(t)), "equal.ensures: equal iff same row-major index");
  __CPROVER_assert(0, "VACUITY"); }
/* ---- random-access laws as lemmas over the real bodies ---- */
/* the contract of advance as a ghost function: havoc the iterator, assume the postconditions proved in hz_advance */
void advance_contract(it2d_t* s, difference_type d){ it2d_t o = *s; it2d_t n;
  __CPROVER_assert(IT(o) && -DMAX <= d && d <= DMAX, "advance.requires holds at the call site");
  __CPROVER_assume(n._width == o._width && (n._width == 0 || (0 <= n._coords.x && n._coords.x < n._width)) && n._p.gx == n._coords.x && n._p.gy == n._coords.y);
  __CPROVER_assume(n._coords.y >= -2 * DMAX && n._coords.y <= 2 * DMAX);
  __CPROVER_assume(n._width == 0 || INDEX(n) - INDEX(o) == d);
  __CPROVER_assume(n._width != 0 || (POINT_EQ(n._coords, o._coords) && LOC_EQ(n._p, o._p)));
  *s = n; }
void hz_law_plus_assoc(void){ it2d_t s; difference_type n, m; __CPROVER_assume(IT(s)); __CPROVER_assume(-DMAX/4 <= n && n <= DMAX/4 && -DMAX/4 <= m && m <= DMAX/4);
  __CPROVER_assume(s._width == 0 || (-WMAX + 2 <= s._coords.y + (n / s._width) && s._coords.y + (n / s._width) <= WMAX - 2));   /* the intermediate iterator stays inside the modelled coordinate range */
  it2d_t a = s, b = s;
  advance_contract(&a, n); advance_contract(&a, m); advance_contract(&b, n + m);
  __CPROVER_assert(POINT_EQ(a._coords, b._coords) && LOC_EQ(a._p, b._p), "(it+n)+m == it+(n+m)  [lemma over the contract of advance]");
  __CPROVER_assert(0, "VACUITY"); }
void hz_law_plus_minus(void){ it2d_t s; difference_type n; __CPROVER_assume(IT(s)); __CPROVER_assume(s._width > 0); __CPROVER_assume(-DMAX <= n && n <= DMAX);
  it2d_t a = s; advance(&a, n);
  __CPROVER_assert(distance_to(&s, &a) == n, "(it+n)-it == n");
  __CPROVER_assert((distance_to(&s, &a) > 0) == (n > 0), "it < jt iff jt - it > 0");
  __CPROVER_assert(0, "VACUITY"); }
void hz_law_inc_dec(void){ it2d_t s; __CPROVER_assume(IT(s)); __CPROVER_assume(s._width > 0); it2d_t a = s;
  increment(&a); decrement(&a);
  __CPROVER_assert(POINT_EQ(a._coords, s._coords) && LOC_EQ(a._p, s._p), "--(++it) == it");
  it2d_t b = s; it2d_t c = s; increment(&b); advance(&c, 1);
  __CPROVER_assert(POINT_EQ(b._coords, c._coords) && LOC_EQ(b._p, c._p), "++it == it + 1");
  it2d_t e = s; it2d_t f = s; decrement(&e); advance(&f, -1);
  __CPROVER_assert(POINT_EQ(e._coords, f._coords) && LOC_EQ(e._p, f._p), "--it == it - 1");
  __CPROVER_assert(0, "VACUITY"); }
void hz_law_end_minus_begin(void){ ptrdiff_t w, h; __CPROVER_assume(0 <= w && w <= WMAX && 0 <= h && h <= WMAX);
  it2d_t b; b._coords.x = 0; b._coords.y = 0; b._width = w; b._p.gx = 0; b._p.gy = 0;       /* view.begin() = iterator(_pixels, width) */
  it2d_t e = b; advance(&e, w * h);                                                         /* view.end() = begin() + size() */
  __CPROVER_assert(w == 0 || distance_to(&b, &e) == w * h, "end() - begin() == w*h");
  __CPROVER_assert(w == 0 || (e._coords.x == 0 && e._coords.y == h), "end() is the first pixel position of row h");
  __CPROVER_assert(w != 0 || distance_to(&b, &e) == 0, "empty view: end() - begin() == 0");
  __CPROVER_assert(0, "VACUITY"); }
void hz_law_at_xy(void){ ptrdiff_t w, h, x, y; __CPROVER_assume(0 < w && w <= WMAX && 0 < h && h <= WMAX && 0 <= x && x < w && 0 <= y && y < h);
  it2d_t b; b._coords.x = 0; b._coords.y = 0; b._width = w; b._p.gx = 0; b._p.gy = 0;
  advance(&b, y * w + x);                                                                   /* view.at(x,y) = begin() + y*width() + x */
  __CPROVER_assert(b._coords.x == x && b._coords.y == y && b._p.gx == x && b._p.gy == y, "begin()[y*w+x] / at(x,y) is the pixel (x,y)");
  it2d_t e; e._coords.x = 0; e._coords.y = 0; e._width = w; e._p.gx = 0; e._p.gy = 0; advance(&e, w * h);
  advance(&e, -1 - (w * h - 1 - (y * w + x)));                                              /* *(rbegin() + k) = *(end() - 1 - k) */
  __CPROVER_assert(e._coords.x == x && e._coords.y == y && e._p.gx == x && e._p.gy == y, "rbegin()[w*h-1-(y*w+x)] is the pixel (x,y)");
  __CPROVER_assert(0, "VACUITY"); }
#endif
'''

REPLAY_IT = r'''
// native replay: 1-D iterator laws on a real view whose rows are padded (so a wrong locator move shows as a wrong address)
#include <boost/gil.hpp>
#include <vector>
#include "vreplay.hpp"
using namespace boost::gil;
int main(int argc, char** argv){ vr::parse(argc, argv);
  long long w = vr::i64("_width", vr::i64("w", vr::i64("s._width", 5)));
  long long x = vr::i64("s._coords.x", vr::i64("x", 0)), y = vr::i64("s._coords.y", vr::i64("y", 0));
  long long d = vr::i64("d", vr::i64("n", 1)), m = vr::i64("m", 0);
  if (w <= 0) w = 1; if (w > 4096) w = 4096;
  x = ((x % w) + w) % w; if (y < 0) y = 0; if (y > 64) y = y % 64;
  long long idx = y * w + x, tgt = idx + d;
  if (d > (1ll << 22) || d < -(1ll << 22)) { d = d % (8 * w + 3); tgt = idx + d; }
  long long lo = std::min(idx, tgt), hi = std::max(idx, tgt);
  if (m) { lo = std::min(lo, tgt + m); hi = std::max(hi, tgt + m); }
  long long shift = lo < 0 ? ((-lo) / w + 1) : 0;           // move everything down so all indices are >= 0
  long long H = (hi / w) + shift + 2;
  std::vector<unsigned char> buf((size_t)((w + 3) * H) + 8);
  gray8_view_t v = interleaved_view(w, H, (gray8_pixel_t*)buf.data(), w + 3);      // 3 bytes of row padding
  auto at = [&](long long i){ long long yy = i / w + shift, xx = i % w; return &v(xx, yy)[0]; };
  auto it = v.begin() + (idx + shift * w);
  if (&(*it)[0] != at(idx)) REPRODUCED("begin()+%lld is not pixel (%lld,%lld)", idx + shift * w, idx % w, idx / w + shift);
  auto jt = it + d;
  if (&(*jt)[0] != at(tgt)) REPRODUCED("(it + %lld) from index %lld (x=%lld, width %lld) does not reach index %lld: off by %td bytes", d, idx, x, w, tgt, &(*jt)[0] - at(tgt));
  if (jt - it != d) REPRODUCED("(it+%lld)-it == %lld", d, (long long)(jt - it));
  if (jt.x_pos() < 0 || jt.x_pos() >= w) REPRODUCED("x_pos %td outside [0,%lld) after it+%lld", jt.x_pos(), w, d);
  if (!(jt == v.begin() + (tgt + shift * w))) REPRODUCED("it+%lld compares unequal to begin()+%lld", d, tgt + shift * w);
  auto kt = it; if (d >= 0) for (long long i = 0; i < d && i < 100000; i++) ++kt; else for (long long i = 0; i > d && i > -100000; i--) --kt;
  if ((d < 100000 && d > -100000) && !(kt == jt)) REPRODUCED("stepping %lld times with ++/-- disagrees with it+%lld", d, d);
  if (m) { auto a = (it + d) + m; auto b = it + (d + m); if (!(a == b) || &(*a)[0] != &(*b)[0]) REPRODUCED("(it+%lld)+%lld != it+(%lld)", d, m, d + m); }
  auto e = it; ++e; --e; if (!(e == it)) REPRODUCED("--(++it) != it");
  NOT_REPRODUCED("iterator laws hold at index %lld + %lld (width %lld)", idx, d, w); }
'''

# ---------------------------------------------------------------------------------------------- locator
M_LOC = []
R_LOC = [('R11.adv', r'memunit_advance\(x\(\),\s*', 'MEMUNIT_ADVANCE(&self->a, ', False),
         ('R11.adv_ref', r'memunit_advanced_ref\(x\(\),\s*', 'MEMUNIT_ADVANCED(self->a, ', False),
         ('R11.advd', r'memunit_advanced\(x\(\),\s*', 'MEMUNIT_ADVANCED(self->a, ', False),
         ('R11.dist', r'memunit_distance\(x\(\), p2\.x\(\)\)', 'MEMUNIT_DISTANCE(self->a, p2->a)', False),
         ('R11.xdiff', r'\(p2\.x\(\)\s*-\s*x\(\)\)', 'X_ITER_DIFF(p2->a, self->a, PIXEL_SIZE(self))', False),   # x-iterator difference: memunit distance / x step (C++ truncating division)
         ('R11.row', r'\brow_size\(\)', 'ROW_SIZE(self)', False), ('R11.pix', r'\bpixel_size\(\)', 'PIXEL_SIZE(self)', False),
         ('R11.off', r'\boffset\(', 'loc_offset(self, ', False),
         ('R14.assert', r'BOOST_ASSERT\(', 'PRECONDITION(', False),
         ('R2.ret', r'return \*this;', 'return;', False)]
W_LOC = r'class memory_based_2d_locator : public pixel_2d_locator_base[^{]*\{'
X_LOC = [
    X('loc_offset', LOC, r'std::ptrdiff_t offset\(x_coord_t x, y_coord_t y\)\s*const \{', within=W_LOC, count=1, rules=R_LOC),
    X('loc_pluseq', LOC, r'this_t&\s*operator\+=\(const difference_type& d\)\s*\{', within=W_LOC, count=1, rules=R_LOC),
    X('loc_minuseq', LOC, r'this_t&\s*operator-=\(const difference_type& d\)\s*\{', within=W_LOC, count=1, rules=R_LOC),
    X('loc_cache', LOC, r'cached_location_t cache_location\(x_coord_t dx, y_coord_t dy\)const \{', within=W_LOC, count=1, rules=R_LOC),
    X('loc_call', LOC, r'reference\s+operator\(\)\(x_coord_t dx, y_coord_t dy\)\s*const \{', within=W_LOC, count=1, rules=R_LOC),
    X('loc_index_cached', LOC, r'reference\s+operator\[\]\(const cached_location_t& loc\)\s*const \{', within=W_LOC, count=1, rules=R_LOC),
    X('loc_x_at', LOC, r'x_iterator x_at\s*\(x_coord_t dx, y_coord_t dy\)\s*const \{', within=W_LOC, count=1, rules=R_LOC),
    X('loc_1d', LOC, r'bool\s+is_1d_traversable\(x_coord_t width\)\s*const \{', within=W_LOC, count=1, rules=R_LOC),
    X('loc_ydist', LOC, r'std::ptrdiff_t y_distance_to\(this_t const& p2, x_coord_t xDiff\) const\s*\{', within=W_LOC, count=1, rules=R_LOC),
    X('loc_row_size', LOC, r'std::ptrdiff_t\s+row_size\(\)\s*const \{', within=W_LOC, count=1,
      rules=[('R11.step_y', r'memunit_step\(y\(\)\)', 'MEMUNIT_STEP_Y(self)', True)]),
    X('loc_pixel_size', LOC, r'std::ptrdiff_t\s+pixel_size\(\)\s*const \{', within=W_LOC, count=1,
      rules=[('R11.step_x', r'memunit_step\(x\(\)\)', 'MEMUNIT_STEP_X(self)', True)]),
]

LOC_C = r'''
typedef ptrdiff_t x_coord_t; typedef ptrdiff_t y_coord_t; typedef ptrdiff_t cached_location_t; typedef point_t difference_type;
/* ghost model of a memory-based locator: address of the current pixel in memory units, pixel stride, row stride */
typedef struct { int64_t a, sx, sy; } gloc_t;
typedef int64_t x_iterator; typedef int64_t reference;     /* an x-iterator / a reference is identified with the address it denotes */
#define MEMUNIT_ADVANCE(pa, d) (*(pa) += (d))                /* memunit_advance(it, d): it moves d memory units */
#define MEMUNIT_ADVANCED(a, d) ((a) + (d))                   /* memunit_advanced / memunit_advanced_ref */
#define MEMUNIT_DISTANCE(a, b) ((b) - (a))
#define MEMUNIT_STEP_Y(self) ((self)->sy)                    /* memunit_step of the y step-iterator is its step */
#define MEMUNIT_STEP_X(self) ((self)->sx)
#define PRECONDITION(c) __CPROVER_assert(c, "BOOST_ASSERT precondition of the library")
#define SMAX ((int64_t)1 << 40)
#define CMAX ((int64_t)1 << 20)
#define LOCOK(l) (-SMAX <= (l).a && (l).a <= SMAX && -SMAX <= (l).sx && (l).sx <= SMAX && -SMAX <= (l).sy && (l).sy <= SMAX)
#define X_ITER_DIFF(b, a, step) (((b) - (a)) / (step))
ptrdiff_t ROW_SIZE(const gloc_t* self) @@loc_row_size@@
ptrdiff_t PIXEL_SIZE(const gloc_t* self) @@loc_pixel_size@@
ptrdiff_t loc_offset(const gloc_t* self, x_coord_t x, y_coord_t y) @@loc_offset@@
void loc_pluseq(gloc_t* self, point_t d) @@loc_pluseq@@
void loc_minuseq(gloc_t* self, point_t d) @@loc_minuseq@@
cached_location_t loc_cache(const gloc_t* self, x_coord_t dx, y_coord_t dy) @@loc_cache@@
reference loc_call(const gloc_t* self, x_coord_t dx, y_coord_t dy) @@loc_call@@
reference loc_index_cached(const gloc_t* self, cached_location_t loc) @@loc_index_cached@@
x_iterator loc_x_at(const gloc_t* self, x_coord_t dx, y_coord_t dy) @@loc_x_at@@
_Bool loc_1d(const gloc_t* self, x_coord_t width) @@loc_1d@@
ptrdiff_t loc_ydist(const gloc_t* self, const gloc_t* p2, x_coord_t xDiff) @@loc_ydist@@

#ifndef VERIF_NATIVE
#define COORD(v) (-CMAX <= (v) && (v) <= CMAX)
void hz_offset(void){ gloc_t l; ptrdiff_t x, y; __CPROVER_assume(LOCOK(l) && COORD(x) && COORD(y));
  __CPROVER_assert(loc_offset(&l, x, y) == y * l.sy + x * l.sx, "offset.ensures: y*row_size + x*pixel_size");
  __CPROVER_assert(0, "VACUITY"); }
void hz_pluseq(void){ gloc_t l; point_t d; __CPROVER_assume(LOCOK(l) && COORD(d.x) && COORD(d.y)); gloc_t o = l;
  loc_pluseq(&l, d);
  __CPROVER_assert(l.a == o.a + d.y * o.sy + d.x * o.sx && l.sx == o.sx && l.sy == o.sy, "operator+=.ensures: address moves by dy rows and dx pixels, strides unchanged");
  loc_minuseq(&l, d);
  __CPROVER_assert(l.a == o.a && l.sx == o.sx && l.sy == o.sy, "operator-= undoes operator+=");
  __CPROVER_assert(0, "VACUITY"); }
void hz_paths(void){ gloc_t l; ptrdiff_t dx, dy; __CPROVER_assume(LOCOK(l) && COORD(dx) && COORD(dy));
  int64_t want = l.a + dy * l.sy + dx * l.sx;
  __CPROVER_assert(loc_call(&l, dx, dy) == want, "loc(dx,dy) is the pixel dy rows and dx pixels away");
  __CPROVER_assert(loc_x_at(&l, dx, dy) == want, "loc.x_at(dx,dy) points to the same pixel");
  __CPROVER_assert(loc_index_cached(&l, loc_cache(&l, dx, dy)) == want, "loc[cache_location(dx,dy)] is the same pixel");
  gloc_t m = l; point_t d; d.x = dx; d.y = dy; loc_pluseq(&m, d);
  __CPROVER_assert(m.a == want, "(loc += (dx,dy)) points to the same pixel");
  __CPROVER_assert(0, "VACUITY"); }
void hz_pluseq_assoc(void){ gloc_t l; point_t a, b; __CPROVER_assume(LOCOK(l) && COORD(a.x) && COORD(a.y) && COORD(b.x) && COORD(b.y));
  gloc_t m = l, n = l; loc_pluseq(&m, a); loc_pluseq(&m, b); point_t c; c.x = a.x + b.x; c.y = a.y + b.y; loc_pluseq(&n, c);
  __CPROVER_assert(m.a == n.a, "(loc += a) += b == loc += (a+b): any sequence of 2-D offsets reaches the same pixel");
  __CPROVER_assert(0, "VACUITY"); }
void hz_1d(void){ gloc_t l; ptrdiff_t w; __CPROVER_assume(LOCOK(l) && 0 <= w && w <= CMAX);
  _Bool r = loc_1d(&l, w);
  __CPROVER_assert(r == (l.sy == l.sx * w), "is_1d_traversable(width) iff row_size == pixel_size * width");
  __CPROVER_assert(!r || l.a + w * l.sx == l.a + l.sy, "1-D traversable: the x-iterator stepped past the row end lands on the first pixel of the next row");
  __CPROVER_assert(r || l.a + w * l.sx != l.a + l.sy, "not 1-D traversable (padding / step): stepping past the row end does not reach the next row");
  __CPROVER_assert(0, "VACUITY"); }
void hz_ydist(void){ gloc_t l, p; ptrdiff_t xd, k; __CPROVER_assume(LOCOK(l) && COORD(xd) && COORD(k) && l.sy != 0);
  p = l; p.a = l.a + k * l.sy + xd * l.sx;                         /* p is k rows and xd pixels away */
  __CPROVER_assert(loc_ydist(&l, &p, xd) == k, "y_distance_to: exact row difference when the x difference is as given");
  __CPROVER_assert(0, "VACUITY"); }
#endif
'''

# ---------------------------------------------------------------------------------------------- step iterator
X_STEP = [
    X('sf_difference', STEP, r'auto difference\(Iterator const& it1, Iterator const& it2\) const -> difference_type\s*\{', within=r'struct memunit_step_fn \{', count=1,
      rules=[('R11.dist', r'memunit_distance\(it1,it2\)', '(it2 - it1)', True)], members=['_step']),
    X('sf_advance', STEP, r'void advance\(Iterator& it, difference_type d\) const \{', within=r'struct memunit_step_fn \{', count=1,
      rules=[('R11.adv', r'memunit_advance\(it,', '(*it__) += (', True), ('R11.close', r'\*_step\);', '*self->_step);', True)]),
] + [
    X('st_' + nm, STEP, r'bool operator%s\(const step_iterator_adaptor<D,Iterator,SFn>& p1, const step_iterator_adaptor<D,Iterator,SFn>& p2\) \{' % op, count=1,
      rules=[('R11.step', r'p1\.step\(\)', 'p1->_step', True), ('R11.b1', r'p1\.base\(\)', 'p1->_base', True), ('R11.b2', r'p2\.base\(\)', 'p2->_base', True),
             ('R11.dist', r'\bmemunit_distance\(', 'MEMUNIT_DISTANCE(', False)])
    for nm, op in (('gt', '>'), ('lt', '<'), ('ge', '>='), ('le', '<='))
]

STEP_C = r'''
typedef ptrdiff_t difference_type;
#if NESTED_BASE
/* the base is itself a memory_based_step_iterator (y-iterators / 1-D iterators of views that are already stepped in x): its address and its own step;
   memunit_distance of two such iterators is the distance of their bases (step_iterator.hpp), i.e. of their addresses */
typedef struct { int64_t addr; difference_type step; } Iterator;
#define ADDR(it) ((it).addr)
#else
typedef int64_t Iterator;      /* a memory-based iterator is its address in memory units */
#define ADDR(it) (it)
#endif
#define MEMUNIT_DISTANCE(a, b) (ADDR(b) - ADDR(a))
typedef struct { difference_type _step; } stepfn_t;
typedef struct { Iterator _base; difference_type _step; } stepit_t;
#define SMAX ((int64_t)1 << 40)
#define CMAX ((int64_t)1 << 20)
#if !NESTED_BASE
difference_type sf_difference(const stepfn_t* self, Iterator it1, Iterator it2) @@sf_difference@@
void sf_advance(const stepfn_t* self, Iterator* it__, difference_type d) @@sf_advance@@
#endif
_Bool st_gt(const stepit_t* p1, const stepit_t* p2) @@st_gt@@
_Bool st_lt(const stepit_t* p1, const stepit_t* p2) @@st_lt@@
_Bool st_ge(const stepit_t* p1, const stepit_t* p2) @@st_ge@@
_Bool st_le(const stepit_t* p1, const stepit_t* p2) @@st_le@@
#ifndef VERIF_NATIVE
#if NESTED_BASE
void hz_step_order(void){ stepit_t p, q; difference_type i, j; int64_t origin; difference_type inner;
  __CPROVER_assume(-SMAX <= p._step && p._step <= SMAX && p._step != 0 && -SMAX <= origin && origin <= SMAX && -CMAX <= i && i <= CMAX && -CMAX <= j && j <= CMAX && -SMAX <= inner && inner <= SMAX && inner != 0);
  q._step = p._step; p._base.addr = origin + i * p._step; q._base.addr = origin + j * p._step; p._base.step = inner; q._base.step = inner;   /* i-th and j-th element; the base walks with ANY non-zero step of its own */
  __CPROVER_assert(st_lt(&p, &q) == (i < j), "operator< agrees with the element order whatever the direction of the base iterator (it < jt iff jt - it > 0)");
  __CPROVER_assert(st_gt(&p, &q) == (i > j), "operator> agrees with the element order");
  __CPROVER_assert(st_le(&p, &q) == (i <= j), "operator<= agrees with the element order");
  __CPROVER_assert(st_ge(&p, &q) == (i >= j), "operator>= agrees with the element order");
  __CPROVER_assert(0, "VACUITY"); }
#else
void hz_step_advance(void){ stepfn_t f; Iterator it; difference_type d; __CPROVER_assume(-SMAX <= f._step && f._step <= SMAX && -SMAX <= it && it <= SMAX && -CMAX <= d && d <= CMAX);
  Iterator o = it; sf_advance(&f, &it, d);
  __CPROVER_assert(it == o + d * f._step, "memunit_step_fn::advance moves by d steps");
  __CPROVER_assert(f._step == 0 || sf_difference(&f, o, it) == d, "difference(it, it + d) == d for positive and negative steps");
  __CPROVER_assert(0, "VACUITY"); }
void hz_step_order(void){ stepit_t p, q; difference_type i, j; Iterator origin;
  __CPROVER_assume(-SMAX <= p._step && p._step <= SMAX && p._step != 0 && -SMAX <= origin && origin <= SMAX && -CMAX <= i && i <= CMAX && -CMAX <= j && j <= CMAX);
  q._step = p._step; p._base = origin + i * p._step; q._base = origin + j * p._step;     /* two iterators of the same step lattice, i-th and j-th element */
  __CPROVER_assert(st_lt(&p, &q) == (i < j), "operator< agrees with the element order for positive and negative step");
  __CPROVER_assert(st_gt(&p, &q) == (i > j), "operator> agrees with the element order");
  __CPROVER_assert(st_le(&p, &q) == (i <= j), "operator<= agrees with the element order");
  __CPROVER_assert(st_ge(&p, &q) == (i >= j), "operator>= agrees with the element order");
  stepfn_t f; f._step = p._step;
  __CPROVER_assert((sf_difference(&f, p._base, q._base) > 0) == st_lt(&p, &q), "it < jt iff jt - it > 0");
  __CPROVER_assert(0, "VACUITY"); }
#endif
#endif
'''

REPLAY_NESTED = r'''
// native: ordering of y-iterators / 1-D iterators of views whose x-iterator is already a step iterator with a negative or positive step
#include <boost/gil.hpp>
#include "vreplay.hpp"
using namespace boost::gil;
template <typename V> static int chk(V const& v, const char* what) { for (long x = 0; x < v.width(); x++) { auto it = v.col_begin(x);
  for (long i = 0; i < v.height(); i++) for (long j = 0; j < v.height(); j++) { auto a = it + i, b = it + j;
    if ((a < b) != (b - a > 0) || (a > b) != (b - a < 0) || (a <= b) != (b - a >= 0) || (a >= b) != (b - a <= 0))
      REPRODUCED("%s: y-iterators of column %ld at rows %ld and %ld: b - a = %td but a<b=%d a>b=%d a<=b=%d a>=b=%d", what, x, i, j, b - a, (int)(a < b), (int)(a > b), (int)(a <= b), (int)(a >= b)); } } return 0; }
int main(int argc, char** argv){ vr::parse(argc, argv); rgb8_image_t img(4, 3); auto v = view(img);
  if (chk(v, "plain view") || chk(flipped_left_right_view(v), "flipped_left_right_view") || chk(rotated180_view(v), "rotated180_view") || chk(subsampled_view(v, 2, 1), "subsampled_view(2,1)")) return 1;
  if (chk(flipped_up_down_view(v), "flipped_up_down_view") || chk(rotated90cw_view(v), "rotated90cw_view") || chk(rotated90ccw_view(v), "rotated90ccw_view") || chk(transposed_view(v), "transposed_view")) return 1;
  NOT_REPRODUCED("it < jt iff jt - it > 0 for the y-iterators of all transformed views"); }
'''

REPLAY_LOC = r'''
#include <boost/gil.hpp>
#include <vector>
#include "vreplay.hpp"
using namespace boost::gil;
int main(int argc, char** argv){ vr::parse(argc, argv);
  long long dx = vr::i64("dx", vr::i64("x", 2)) % 50, dy = vr::i64("dy", vr::i64("y", 1)) % 50;
  const int W = 128, H = 128, PAD = 5; std::vector<unsigned char> buf((W + PAD) * H);
  gray8_view_t v = interleaved_view(W, H, (gray8_pixel_t*)buf.data(), W + PAD);
  auto loc = v.xy_at(60, 60); unsigned char* want = buf.data() + (60 + dy) * (W + PAD) + 60 + dx;
  if (&loc(dx, dy)[0] != want) REPRODUCED("loc(%lld,%lld) is %td bytes away from the right pixel", dx, dy, &loc(dx,dy)[0] - want);
  if (&(*loc.x_at(dx, dy))[0] != want) REPRODUCED("loc.x_at(%lld,%lld) wrong", dx, dy);
  if (&loc[loc.cache_location(dx, dy)][0] != want) REPRODUCED("loc[cache_location(%lld,%lld)] wrong", dx, dy);
  auto m = loc; m += point_t(dx, dy); if (&(*m)[0] != want) REPRODUCED("loc += (%lld,%lld) wrong", dx, dy);
  m -= point_t(dx, dy); if (&(*m)[0] != &(*loc)[0]) REPRODUCED("-= does not undo +=");
  if (loc.y_distance_to(v.xy_at(60 + dx, 60 + dy), dx) != dy) REPRODUCED("y_distance_to wrong");
  if (v.xy_at(0,0).is_1d_traversable(W)) REPRODUCED("padded view reported 1-D traversable");
  gray8_view_t t = interleaved_view(W, H, (gray8_pixel_t*)buf.data(), W); if (!t.xy_at(0,0).is_1d_traversable(W)) REPRODUCED("contiguous view reported not 1-D traversable");
  // y_distance_to on views whose x step is not the pixel size (transposed / rotated / subsampled): every pair of positions of a small view
  { rgb8_image_t img(3, 4); auto tv = transposed_view(view(img)); auto rv = rotated90cw_view(view(img)); gray8_image_t g(5, 3); auto sv = subsampled_view(view(g), 2, 1);
    auto chk = [&](auto const& vw, const char* what) { for (int y1 = 0; y1 < vw.height(); y1++) for (int x1 = 0; x1 < vw.width(); x1++) for (int y2 = 0; y2 < vw.height(); y2++) for (int x2 = 0; x2 < vw.width(); x2++) {
        auto l1 = vw.xy_at(x1, y1), l2 = vw.xy_at(x2, y2); std::ptrdiff_t got = l1.y_distance_to(l2, x2 - x1);
        if (got != y2 - y1) REPRODUCED("%s: (%d,%d).y_distance_to((%d,%d), %d) = %td, expected %d", what, x1, y1, x2, y2, x2 - x1, got, y2 - y1); } };
    chk(tv, "transposed_view(rgb8 3x4)"); chk(rv, "rotated90cw_view(rgb8 3x4)"); chk(sv, "subsampled_view(gray8 5x3, 2, 1)"); chk(view(img), "rgb8 3x4"); }
  NOT_REPRODUCED("locator paths agree at (%lld,%lld)", dx, dy); }
'''

UNITS = [
    Unit('it2d', 'C03', IT_C, extracts=X_IT, replay=REPLAY_IT,
         checks=[Check('advance', 'hz_advance', engine='Z', inputs=('_width', 'x', 'y', 'd', 's._width', 's._coords.x', 's._coords.y')),
                 Check('increment', 'hz_increment', engine='Z', inputs=('s._width', 's._coords.x', 's._coords.y')),
                 Check('decrement', 'hz_decrement', engine='Z', inputs=('s._width',)),
                 Check('distance_to', 'hz_distance_to', engine='Z'),
                 Check('equal', 'hz_equal', engine='Z'),
                 Check('law_plus_assoc', 'hz_law_plus_assoc', engine='Z', timeout=300),
                 Check('law_plus_minus', 'hz_law_plus_minus', engine='Z', timeout=300),
                 Check('law_inc_dec', 'hz_law_inc_dec', engine='Z'),
                 Check('law_end_minus_begin', 'hz_law_end_minus_begin', engine='Z', timeout=300),
                 Check('law_at_xy', 'hz_law_at_xy', engine='Z', timeout=300)],
         preconditions=['iterator_from_2d: 0 <= width <= 2^20, |y| <= 2^20, |d| <= 2^40 (overflow freedom proved inside these ranges)'],
         assumed=['boost::iterator_facade maps + - += < [] to advance/distance_to (Boost, external)',
                  '2-D locator held by iterator_from_2d: operator+= and ++x() move its position by the given offset (proved for memory_based_2d_locator in unit locator; assumed for virtual / dereference-adaptor locators)']),
    Unit('locator', 'C03', LOC_C, extracts=X_LOC, replay=REPLAY_LOC,
         checks=[Check('offset', 'hz_offset', engine='Z'), Check('pluseq', 'hz_pluseq', engine='Z'), Check('paths', 'hz_paths', engine='Z', inputs=('dx', 'dy')),
                 Check('pluseq_assoc', 'hz_pluseq_assoc', engine='Z'), Check('is_1d_traversable', 'hz_1d', engine='Z'),
                 Check('y_distance_to', 'hz_ydist', engine='Z', timeout=300)],
         preconditions=['locator: |address|, |strides| <= 2^40 memory units, |coordinates| <= 2^20'],
         assumed=['memunit_advance / memunit_advanced / memunit_distance / memunit_step of the underlying x- and y-iterators: a += d, a + d, b - a, the stride (one-line bodies in pixel_iterator.hpp, step_iterator.hpp, planar_pixel_iterator.hpp; bit-aligned: unit bitcursor)']),
    Unit('stepit', 'C03', STEP_C, extracts=X_STEP, insts=[('plain', 'quick', {'NESTED_BASE': '0'})], replay=REPLAY_NESTED,
         checks=[Check('step_advance', 'hz_step_advance', engine='Z', timeout=300), Check('step_order', 'hz_step_order', engine='Z', timeout=300)],
         preconditions=['step iterators: |step|, |address| <= 2^40, |element index| <= 2^20'],
         assumed=['memunit_distance of two plain iterators is the difference of their addresses (unit rawptr)']),
    Unit('stepit_nested', 'C03', STEP_C, extracts=X_STEP, insts=[('nested', 'quick', {'NESTED_BASE': '1'})], replay=REPLAY_NESTED,
         checks=[Check('step_order', 'hz_step_order', engine='Z', timeout=300)],
         preconditions=['step iterators: |step|, |address| <= 2^40, |element index| <= 2^20; the base iterator has any non-zero step of its own'],
         assumed=['memunit_distance of two step iterators is the memunit_distance of their bases (step_iterator.hpp, one line), i.e. the difference of their addresses']),
] + bits.units('C03', sizes=((1, 'quick'), (3, 'quick'), (8, 'quick'), (4, 'thorough'), (7, 'thorough'), (13, 'thorough'), (16, 'thorough')))

# ---------------------------------------------------------------------------------------------------------------------------------------
# planar_pixel_iterator: operator[], distance_to, memunit_step, memunit_distance (planar_pixel_iterator.hpp)
PL = 'planar_pixel_iterator.hpp'
X_PLANAR = [
    X('pl_index', PL, r'reference operator\[\]\(difference_type d\)\s*const \{ return (.*?);\}', kind='expr',
      rules=[('R11.adv_ref', r'memunit_advanced_ref\(\*this,', 'MEMUNIT_ADVANCED_REF(self,', True)]),
    X('pl_distance_to', PL, r'std::ptrdiff_t distance_to\(const planar_pixel_iterator& it\) const \{ return (.*?); \}', kind='expr',
      rules=[('R15.ptrdiff', r'gil::at_c<0>\(it\)-gil::at_c<0>\(\*this\)', 'CHPTR_DIFF(it->p[0], self->p[0])', True)]),
    X('pl_memunit_step', PL, r'inline auto memunit_step\(planar_pixel_iterator<IC,C> const&\)\s*->\s*std::ptrdiff_t\s*\{', count=1,
      rules=[('R8.vt', r'sizeof\(typename std::iterator_traits<IC>::value_type\)', 'CH_SIZE', True)]),
    X('pl_memunit_distance', PL, r'inline auto memunit_distance\(planar_pixel_iterator<IC,C> const& p1, planar_pixel_iterator<IC,C> const& p2\)\s*->\s*std::ptrdiff_t\s*\{', count=1,
      rules=[('R11.dist', r'memunit_distance\(gil::at_c<0>\(p1\),gil::at_c<0>\(p2\)\)', 'RAW_MEMUNIT_DISTANCE(p1->p[0], p2->p[0])', True)]),
]
PLANAR_C = r'''
typedef ptrdiff_t difference_type; typedef CH_T channel_t;
#define CH_SIZE ((ptrdiff_t)sizeof(channel_t))
#define SMAX ((int64_t)1 << 40)
#define CMAX ((int64_t)1 << 20)
typedef struct { int64_t p[3]; } planar_it_t;          /* planar_pixel_iterator: one channel pointer per plane (addresses in bytes) */
typedef struct { int64_t p[3]; } planar_ref_t;         /* planar_pixel_reference: the addresses of its three channels */
/* planar_pixel_reference(ptr, diff): channel k is *memunit_advanced(plane pointer k, diff), i.e. diff BYTES after the plane pointer */
static planar_ref_t MEMUNIT_ADVANCED_REF(const planar_it_t* it, ptrdiff_t diff) { planar_ref_t r; r.p[0] = it->p[0] + diff; r.p[1] = it->p[1] + diff; r.p[2] = it->p[2] + diff; return r; }
/* difference of two channel pointers in elements; memunit_distance of two raw pointers in bytes (unit rawptr) */
#define CHPTR_DIFF(a, b) (((a) - (b)) / CH_SIZE)
#define RAW_MEMUNIT_DISTANCE(a, b) ((b) - (a))
planar_ref_t pl_index(const planar_it_t* self, difference_type d) { return @@pl_index@@; }
ptrdiff_t pl_distance_to(const planar_it_t* self, const planar_it_t* it) { return @@pl_distance_to@@; }
ptrdiff_t pl_memunit_step(const planar_it_t* unused) @@pl_memunit_step@@
ptrdiff_t pl_memunit_distance(const planar_it_t* p1, const planar_it_t* p2) @@pl_memunit_distance@@
#ifndef VERIF_NATIVE
#define IT_OK(it) (-SMAX <= (it).p[0] && (it).p[0] <= SMAX && -SMAX <= (it).p[1] && (it).p[1] <= SMAX && -SMAX <= (it).p[2] && (it).p[2] <= SMAX)
void hz_planar(void){ planar_it_t it, jt; difference_type d; __CPROVER_assume(IT_OK(it) && -CMAX <= d && d <= CMAX);
  /* jt = it + d: every plane pointer advanced by d elements (inc / dec / plus_asymmetric on typed channel pointers) */
  jt.p[0] = it.p[0] + d * CH_SIZE; jt.p[1] = it.p[1] + d * CH_SIZE; jt.p[2] = it.p[2] + d * CH_SIZE;
  planar_ref_t r = pl_index(&it, d);
  __CPROVER_assert(r.p[0] == jt.p[0] && r.p[1] == jt.p[1] && r.p[2] == jt.p[2], "planar_pixel_iterator: it[d] is the pixel *(it + d) in every plane");
  __CPROVER_assert(pl_distance_to(&it, &jt) == d, "planar_pixel_iterator: (it + d) - it == d");
  __CPROVER_assert(pl_memunit_distance(&it, &jt) == d * pl_memunit_step(&it), "planar_pixel_iterator: memunit_distance(it, it + d) == d * memunit_step(it)");
  __CPROVER_assert(pl_memunit_step(&it) == CH_SIZE, "planar_pixel_iterator: memunit_step is the size of one channel");
  __CPROVER_assert(0, "VACUITY"); }
#endif
'''
REPLAY_PLANAR = r'''
#include <boost/gil.hpp>
#include <vector>
#include "vreplay.hpp"
using namespace boost::gil;
#include "inst.hpp"
int main(int argc, char** argv){ vr::parse(argc, argv);
  using img_t = image<pixel<CH, rgb_layout_t>, true>; img_t img(5, 3); auto v = view(img);
  for (long y = 0; y < 3; y++) { auto it = v.row_begin(y); for (long x = 0; x < 5; x++) for (long d = -x; d < 5 - x; d++) { auto at = it + x;
    if ((const void*)&at[d][0] != (const void*)&v(x + d, y)[0] || (const void*)&at[d][2] != (const void*)&v(x + d, y)[2])
      REPRODUCED("planar x-iterator at (%ld,%ld): it[%ld] is not pixel (%ld,%ld) (off by %td bytes in plane 0)", x, y, d, x + d, y, (const char*)&at[d][0] - (const char*)&v(x + d, y)[0]);
    if ((at + d) - at != d) REPRODUCED("planar x-iterator: (it + %ld) - it == %td", d, (at + d) - at); } }
  NOT_REPRODUCED("planar iterator subscripting agrees with view(x,y)"); }
'''

# ---------------------------------------------------------------------------------------------------------------------------------------
# image_view::at(point_t) and at(x, y): the 1-D iterator of pixel (x, y) is begin() advanced by y*width + x
X_AT = [X('at_point', 'image_view.hpp', r'auto at\(point_t const& p\) const -> iterator\s*\{.*?return (.*?);', kind='expr',
          rules=[('R11.begin', r'\bbegin\(\)', 'BEGIN_INDEX', True), ('R11.w', r'\bwidth\(\)', 'self->w', True)]),
        X('at_xy', 'image_view.hpp', r'auto at\(x_coord_t x, y_coord_t y\) const -> iterator\s*\{.*?return (.*?);', kind='expr',
          rules=[('R11.begin', r'\bbegin\(\)', 'BEGIN_INDEX', True), ('R11.w', r'\bwidth\(\)', 'self->w', True)])]
AT_C = r'''
typedef struct { ptrdiff_t w, h; } gview_t;
#define BEGIN_INDEX ((ptrdiff_t)0)          /* begin() is the iterator with 1-D index 0; iterator + n has index n (unit it2d: advance / distance_to) */
ptrdiff_t at_point(const gview_t* self, point_t p) { return @@at_point@@; }
ptrdiff_t at_xy(const gview_t* self, ptrdiff_t x, ptrdiff_t y) { return @@at_xy@@; }
#ifndef VERIF_NATIVE
void hz_at(void){ gview_t v; point_t p; __CPROVER_assume(0 < v.w && v.w <= ((ptrdiff_t)1 << 20) && 0 < v.h && v.h <= ((ptrdiff_t)1 << 20) && 0 <= p.x && p.x < v.w && 0 <= p.y && p.y < v.h);
  __CPROVER_assert(at_point(&v, p) == p.y * v.w + p.x, "at(point): the iterator of pixel (x,y) is begin() + y*width + x");
  __CPROVER_assert(at_xy(&v, p.x, p.y) == p.y * v.w + p.x, "at(x, y): the iterator of pixel (x,y) is begin() + y*width + x");
  __CPROVER_assert(0, "VACUITY"); }
#endif
'''
REPLAY_AT = r'''
#include <boost/gil.hpp>
#include <vector>
#include "vreplay.hpp"
using namespace boost::gil;
template <typename V> static int chk(V const& v, const char* what) { for (long y = 0; y < v.height(); y++) for (long x = 0; x < v.width(); x++) { long k = y * v.width() + x;
    auto a = v.at(typename V::point_t(x, y)); auto b = v.at(x, y);
    if (a - v.begin() != k || b - v.begin() != k) REPRODUCED("%s %tdx%td: at(%ld,%ld) - begin() = %td / %td, expected %ld", what, v.width(), v.height(), x, y, a - v.begin(), b - v.begin(), k);
    if (!(a == v.begin() + k) || !(b == v.begin() + k)) REPRODUCED("%s: at(%ld,%ld) != begin() + %ld", what, x, y, k);
    for (long n = -k; n < v.width() * v.height() - k; n++) if (&(*(a + n))[0] != &v.begin()[k + n][0]) REPRODUCED("%s: at(point(%ld,%ld)) + %ld is not begin()[%ld]", what, x, y, n, k + n); }
  return 0; }
int main(int argc, char** argv){ vr::parse(argc, argv); std::vector<unsigned char> buf(8 * 3); gray8_view_t p = interleaved_view(5, 3, (gray8_pixel_t*)buf.data(), 8); gray8_image_t img(5, 3);
  if (chk(view(img), "contiguous") || chk(p, "padded rows") || chk(rotated180_view(view(img)), "rotated180") || chk(subsampled_view(view(img), 2, 1), "subsampled")) return 1;
  NOT_REPRODUCED("at(point) / at(x,y) agree with begin() + y*width + x and with every further move"); }
'''

# image_view::is_1d_traversable(): the view-level predicate the pixel algorithms branch on
X_V1D = [X('view_is_1d', 'image_view.hpp', r'bool is_1d_traversable\(\) const\s*\{[^}]*?return (.*?);', kind='expr',
           rules=[('R11.loc', r'_pixels\.is_1d_traversable\(width\(\)\)', 'LOC_IS_1D(self, self->w)', True), ('R11.h', r'\bheight\(\)', 'self->h', False), ('R11.w', r'\bwidth\(\)', 'self->w', False)])]
V1D_C = r'''
typedef struct { ptrdiff_t w, h; int64_t sx, sy; } gv_t;           /* view: dimensions, pixel step and row step of its locator (memory units) */
/* memory_based_2d_locator::is_1d_traversable(width): row_size() == pixel_size() * width  (its contract, unit locator) */
#define LOC_IS_1D(v, width) ((v)->sy == (v)->sx * (width))
_Bool view_is_1d(const gv_t* self) { return @@view_is_1d@@; }
#ifndef VERIF_NATIVE
void hz_view_is_1d(void){ gv_t v; __CPROVER_assume(0 <= v.w && v.w <= ((ptrdiff_t)1 << 20) && 0 <= v.h && v.h <= ((ptrdiff_t)1 << 20) && -((int64_t)1 << 40) <= v.sx && v.sx <= ((int64_t)1 << 40) && -((int64_t)1 << 40) <= v.sy && v.sy <= ((int64_t)1 << 40));
  __CPROVER_assert(!view_is_1d(&v) || v.sy == v.sx * v.w, "is_1d_traversable() is true only when stepping an x-iterator past the end of a row (width pixel steps) lands exactly one row step further - also for views of a single row, whose end() is begin() + one row step");
  __CPROVER_assert(0, "VACUITY"); }
#endif
'''
REPLAY_V1D = r'''
#include <boost/gil.hpp>
#include <vector>
#include "vreplay.hpp"
using namespace boost::gil;
int main(int argc, char** argv){ vr::parse(argc, argv);
  // fill_pixels on every one-row and multi-row window of a small image inside a canvas: only the window changes
  for (int W = 1; W <= 6; W++) for (int H = 1; H <= 3; H++) for (int x0 = 0; x0 < W; x0++) for (int w = 1; x0 + w <= W; w++) for (int y0 = 0; y0 < H; y0++) for (int h = 1; y0 + h <= H && h <= 2; h++) {
    std::vector<unsigned char> buf(W * H + 32, 7); gray8_view_t v = interleaved_view(W, H, (gray8_pixel_t*)(buf.data() + 16), W); auto win = subimage_view(v, x0, y0, w, h);
    fill_pixels(win, gray8_pixel_t(200)); long cnt = 0; for_each_pixel(win, [&](gray8_pixel_t&) { cnt++; });
    for (int i = 0; i < (int)buf.size(); i++) { int p = i - 16; bool in = p >= 0 && p < W * H && (p % W) >= x0 && (p % W) < x0 + w && (p / W) >= y0 && (p / W) < y0 + h;
      if ((buf[i] == 200) != in) REPRODUCED("fill_pixels(subimage_view(%dx%d image, x=%d, y=%d, w=%d, h=%d)): byte %d of the buffer %s", W, H, x0, y0, w, h, p, in ? "inside the window was not filled" : "outside the window was written"); }
    if (cnt != (long)w * h) REPRODUCED("for_each_pixel visited %ld pixels of a %dx%d window", cnt, w, h); }
  NOT_REPRODUCED("pixel algorithms on sub-windows touch exactly the window"); }
'''

UNITS.append(Unit('view_is_1d', 'C03', V1D_C, extracts=X_V1D, replay=REPLAY_V1D, checks=[Check('view_is_1d', 'hz_view_is_1d', engine='Z', timeout=300)],
                  preconditions=['view dimensions <= 2^20, |steps| <= 2^40'], assumed=['memory_based_2d_locator::is_1d_traversable(width) is row_size() == pixel_size() * width (unit locator)']))

UNITS.append(Unit('view_at', 'C03', AT_C, extracts=X_AT, replay=REPLAY_AT, checks=[Check('at', 'hz_at', engine='Z', timeout=300)],
                  preconditions=['view dimensions 1..2^20'], assumed=['iterator + n is the iterator with 1-D index n more (unit it2d)']))

for _n, _t in (('u8', 'std::uint8_t'), ('u16', 'std::uint16_t'), ('f32', 'float')):
    UNITS.append(Unit('planar_it.' + _n, 'C03', PLANAR_C, extracts=X_PLANAR, replay=REPLAY_PLANAR, probe_includes=['boost/gil.hpp'], probe='P_TYPE("CH_T", CH);',
                      insts=[(_n, 'quick', {'T_CH': _t})], checks=[Check('planar', 'hz_planar', engine='Z', timeout=300, inputs=('d',))],
                      preconditions=['plane addresses <= 2^40, |d| <= 2^20'],
                      assumed=['planar_pixel_reference(ptr, diff) addresses, in every plane, the channel diff bytes after the plane pointer (memunit_advanced of a raw pointer, unit rawptr)',
                               'increment / decrement / advance move every plane pointer by whole channels (static_transform over typed channel pointers)']))

META = dict(
    not_covered=['planar_pixel_iterator increment / advance (static_transform plumbing) / position_iterator / virtual locator navigation (template plumbing over the same one-line memunit functions; not extracted)',
                 'image_view accessor bodies are covered through their index expressions in the lemmas law_at_xy / law_end_minus_begin, not cut verbatim'],
)

# ------------------------------------------------------------------------------------------------ raw pixel pointers (pixel_iterator.hpp)
PI = 'pixel_iterator.hpp'
X_RAW = [
    X('raw_step', PI, r'inline std::ptrdiff_t memunit_step\(P const\*\) \{', count=1),
    X('raw_distance', PI, r'inline std::ptrdiff_t memunit_distance\(P const\* p1, P const\* p2\)\s*\{', count=1,
      rules=[('R15.ptrdiff', r'gil_reinterpret_cast_c<unsigned char const\*>\(p2\) -\s*gil_reinterpret_cast_c<unsigned char const\*>\(p1\)', 'PTRDIFF((const unsigned char*)(p2), (const unsigned char*)(p1))', True)]),
    X('raw_advance', PI, r'inline void memunit_advance\(P\* &p, std::ptrdiff_t diff\)\s*\{', count=1, rules=[('R9.ref', r'\bp\b', '(*p__)', True)]),
    X('raw_advanced', PI, r'inline P\* memunit_advanced\(const P\* p, std::ptrdiff_t diff\)\s*\{', count=1),
]
RAW_C = r'''
typedef struct { unsigned char c[PIXEL_SIZE]; } P;          /* a pixel of PIXEL_SIZE bytes (probe: sizeof of the instantiated pixel type) */
unsigned char* g_buf; size_t g_n;
#define OFFS(p) ((int64_t)__CPROVER_POINTER_OFFSET(p))
#define INBUF(p) (__CPROVER_same_object((p), g_buf) && 0 <= OFFS(p) && OFFS(p) <= (int64_t)g_n)
#define GHOST_SETUP() size_t n__; __CPROVER_assume(1 <= n__ && n__ <= ((size_t)1 << 40)); g_n = n__; g_buf = malloc(n__); __CPROVER_assume(g_buf != 0)
ptrdiff_t raw_step(const P* p__unused)
__CPROVER_ensures(RET == PIXEL_SIZE)                            /* memunit_step of a raw pixel pointer is sizeof(pixel) */
__CPROVER_assigns()
@@raw_step@@
ptrdiff_t raw_distance(const P* p1, const P* p2)
__CPROVER_requires(INBUF(p1) && INBUF(p2))
__CPROVER_ensures(RET == OFFS(p2) - OFFS(p1))                   /* memunit_distance(i, j) is j.address - i.address (the address model of DESIGN 3.6) */
__CPROVER_assigns()
@@raw_distance@@
void raw_advance(P** p__, ptrdiff_t diff)
__CPROVER_requires(__CPROVER_is_fresh(p__, sizeof(*p__)) && INBUF(*p__) && -((int64_t)1 << 41) <= diff && diff <= ((int64_t)1 << 41) && 0 <= OFFS(*p__) + diff && OFFS(*p__) + diff <= (int64_t)g_n)
__CPROVER_assigns(*p__)
__CPROVER_ensures(INBUF(*p__) && OFFS(*p__) == __CPROVER_old(OFFS(*p__)) + diff)   /* memunit_advance(it, d): the address moves by exactly d memory units */
@@raw_advance@@
P* raw_advanced(const P* p, ptrdiff_t diff)
__CPROVER_requires(INBUF(p) && -((int64_t)1 << 41) <= diff && diff <= ((int64_t)1 << 41) && 0 <= OFFS(p) + diff && OFFS(p) + diff <= (int64_t)g_n)
__CPROVER_assigns()
__CPROVER_ensures(INBUF(RET) && OFFS(RET) == OFFS(p) + diff)
@@raw_advanced@@
#ifndef VERIF_NATIVE
void h_raw_step(void){ P* p; raw_step(p); __CPROVER_assert(0, "VACUITY"); }
void h_raw_distance(void){ GHOST_SETUP(); P* a; P* b; raw_distance(a, b); __CPROVER_assert(0, "VACUITY"); }
void h_raw_advance(void){ GHOST_SETUP(); P** pp; ptrdiff_t d; raw_advance(pp, d); __CPROVER_assert(0, "VACUITY"); }
void h_raw_advanced(void){ GHOST_SETUP(); P* p; ptrdiff_t d; raw_advanced(p, d); __CPROVER_assert(0, "VACUITY"); }
#endif
'''
for (n, cxx, tier) in [('rgb8', 'rgb8_pixel_t', 'quick'), ('gray16', 'gray16_pixel_t', 'quick'), ('rgba32f', 'rgba32f_pixel_t', 'thorough')]:
    UNITS.append(Unit('rawptr.' + n, 'C03', RAW_C, extracts=X_RAW, insts=[(n, tier, {'T_PX': cxx})], probe_includes=['boost/gil.hpp'],
                      probe='P_VAL("PIXEL_SIZE", (int)sizeof(PX));',
                      checks=[Check('step', 'h_raw_step', enforce='raw_step'), Check('distance', 'h_raw_distance', enforce='raw_distance'),
                              Check('advance', 'h_raw_advance', enforce='raw_advance'), Check('advanced', 'h_raw_advanced', enforce='raw_advanced')],
                      preconditions=['raw pixel pointers inside one buffer of at most 2^40 bytes'],
                      assumed=['gil_reinterpret_cast_c is a plain pointer cast']))
