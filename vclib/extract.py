"""Mechanical extraction of function bodies from the real GIL headers (DESIGN 3.1, 3.2).

A body is located by an anchor regex on its signature, cut by brace matching and rewritten to C by
regex rules.  Rules flagged must-fire have to fire, otherwise ExtractError (=> exit 2, never a
violation).  Nothing here knows anything about a particular function: the per-function rule lists
live in the spec modules.
"""
import hashlib
import os
import re

REPO_INCLUDE = os.environ.get('GIL_INCLUDE', '/repo/include')


class ExtractError(Exception):
    pass


def strip_comments(text):
    # R1: remove // and /* */ comments (string literals in the bodies we cut never contain them)
    text = re.sub(r'/\*.*?\*/', ' ', text, flags=re.S)
    text = re.sub(r'//[^\n]*', '', text)
    return text


def find_body(text, anchor_re, nth=0, expect_count=None):
    """Return (body_with_braces, line_number, signature_text).  The anchor must end just before
    (or at) the opening brace of the body."""
    ms = list(re.finditer(anchor_re, text, re.S))
    if not ms:
        raise ExtractError('anchor not found: %s' % anchor_re)
    if expect_count is not None and len(ms) != expect_count:
        raise ExtractError('anchor matched %d times, expected %d: %s' % (len(ms), expect_count, anchor_re))
    if len(ms) <= nth:
        raise ExtractError('anchor occurrence %d missing: %s' % (nth, anchor_re))
    m = ms[nth]
    i = m.end() - 1 if text[m.end() - 1] == '{' else text.index('{', m.end())
    # between anchor end and '{' only whitespace / mem-initialisers / noexcept etc. may appear;
    # a ';' would mean we matched a declaration
    if ';' in text[m.end():i]:
        raise ExtractError('anchor matched a declaration, not a definition: %s' % anchor_re)
    depth = 0
    j = i
    n = len(text)
    while j < n:
        c = text[j]
        if c == '{':
            depth += 1
        elif c == '}':
            depth -= 1
            if depth == 0:
                break
        j += 1
    if depth != 0:
        raise ExtractError('unbalanced braces after anchor: %s' % anchor_re)
    return text[i:j + 1], text.count('\n', 0, m.start()) + 1, text[m.start():i]


# R4 / R5 / R6 / R7 and friends: rules applied to every body (never must-fire)
def split_args(text):
    out, depth, cur = [], 0, ''
    for c in text:
        if c in '([{':
            depth += 1
        elif c in ')]}':
            depth -= 1
        if c == ',' and depth == 0:
            out.append(cur.strip())
            cur = ''
        else:
            cur += c
    out.append(cur.strip())
    return out


def rewrite_calls(body, head_re, fn):
    """replace every call `HEAD(args...)` (HEAD matched by head_re, parentheses balanced) by fn(list_of_args);
    innermost calls first so nested constructor calls are lowered inside-out.  Returns (new_body, count)."""
    count = 0
    while True:
        ms = list(re.finditer(head_re, body))
        done = True
        for m in reversed(ms):          # last match first: inner / later calls before the ones that contain them
            i = m.end() - 1
            assert body[i] == '('
            depth, j = 0, i
            while j < len(body):
                if body[j] == '(':
                    depth += 1
                elif body[j] == ')':
                    depth -= 1
                    if depth == 0:
                        break
                j += 1
            if depth != 0:
                raise ExtractError('unbalanced call: ' + head_re)
            args = split_args(body[i + 1:j])
            body = body[:m.start()] + fn(args) + body[j + 1:]
            count += 1
            done = False
            break
        if done:
            return body, count


def _point_decl(m):
    """R12: `point_t p(a, b);` (constructor syntax) -> member-wise initialisation"""
    a = split_args(m.group(2))
    if len(a) != 2:
        raise ExtractError('point_t constructor with %d arguments' % len(a))
    n = m.group(1)
    return 'point_t %s; %s.x = (%s); %s.y = (%s);' % (n, n, a[0], n, a[1])


BUILTIN_T = r'(?:u?int(?:8|16|32|64|max)_t|double|float|int|bool|size_t|ptrdiff_t)'
COMMON_RULES = [
    ('R4.auto_from_cast', r'\bauto\s+const\s+(\w+)\s*=\s*static_cast\s*<\s*([\w:]+)\s*>\s*\(', r'const \2 \1 = (\2)(', False),
    ('R4.static_cast', r'\bstatic_cast\s*<\s*([^<>]+?)\s*>\s*\(', r'(\1)(', False),
    ('R4.static_cast_nested', r'\bstatic_cast\s*<\s*([^<>]*<[^<>]*>[^<>]*?)\s*>\s*\(', r'(\1)(', False),
    ('R4.functional_cast', r'(?<![\w>.])(' + BUILTIN_T + r')\s*\((?!\s*\))', r'(\1)(', False),
    ('R5.std', r'\(std::(min|max)\)\s*\(', lambda m: m.group(1).upper() + '(', False),
    ('R5.std_abs', r'\bstd::abs\s*\(', 'ABS(', False),
    ('R5.std_swap', r'\bstd::swap\s*\(', 'SWAP(', False),
    ('R5.std_q', r'\bstd::', '', False),
    ('R5.gil_q', r'\bboost::gil::|\bgil::', '', False),
    ('R5.detail_q', r'\bdetail::', '', False),
    ('R6.using_alias', r'\busing\s+(\w+)\s*=\s*([^;]+);', r'typedef \2 \1;', False),
    ('R7.local_static_const', r'\bstatic\s+const\b', 'const', False),
    ('R7.local_static_constexpr', r'\bstatic\s+constexpr\b', 'const', False),
    ('R3.this_arrow', r'\bthis->', 'self->', False),
    ('R4.typename', r'\btypename\s+', '', False),
    ('R4.auto_const', r'\bauto\s+const\b', 'AUTO_CONST', False),
    ('R12.point_ctor_decl', r'\bpoint_t\s+(\w+)\s*\(([^;{}]+)\);', _point_decl, False),
]


def apply_rules(body, rules):
    fired = []
    for rule in rules:
        name, pat, rep, must = rule[0], rule[1], rule[2], rule[3]
        if callable(pat):
            new, n = pat(body)          # structural rewrite (e.g. constructor calls with a variable number of arguments)
        else:
            new, n = re.subn(pat, rep, body, flags=re.S)
        if must and n == 0:
            raise ExtractError('must-fire rule did not fire: %s (%s)' % (name, pat))
        if n:
            fired.append((name, n))
        body = new
    return body, fired


def qualify_members(body, members, selfname='self'):
    """R3: identifiers that are data members, when not preceded by . or -> (or part of a longer
    identifier), become self->name."""
    n_total = 0
    for m in members:
        pat = r'(?<![\w.>])' + re.escape(m) + r'\b'
        # '>' excluded above also blocks 'a->m' (desired) but would block 'x>m'; handle '->' only:
        pat = r'(?<![\w.])(?<!->)' + re.escape(m) + r'\b'
        body, n = re.subn(pat, '%s->%s' % (selfname, m), body)
        n_total += n
    return body, n_total


def resolve_ifdefs(body, defined):
    """R16: `#ifdef M / #ifndef M / #else / #endif` inside a body are resolved with the definedness of M that the
    binding probe observed when g++ compiled the real header (defined: dict name -> bool).  Unknown macro => error."""
    out, stack, n = [], [], 0
    for line in body.split('\n'):
        t = line.strip()
        m = re.match(r'#\s*(ifdef|ifndef)\s+(\w+)', t)
        if m:
            if m.group(2) not in defined:
                raise ExtractError('preprocessor conditional on %s: definedness not supplied by the probe' % m.group(2))
            v = defined[m.group(2)]
            stack.append(v if m.group(1) == 'ifdef' else not v)
            n += 1
            continue
        if re.match(r'#\s*else\b', t) and stack:
            stack[-1] = not stack[-1]
            continue
        if re.match(r'#\s*endif\b', t) and stack:
            stack.pop()
            continue
        if re.match(r'#\s*(if|elif)\b', t):
            raise ExtractError('unsupported preprocessor conditional in body: ' + t)
        if all(stack):
            out.append(line)
    return '\n'.join(out), n


def lower_meminit(text, selfname='self'):
    """R12: a constructor's mem-initialiser list `a(e1), b(e2)` -> `self->a = e1; self->b = e2;`"""
    out = []
    for item in split_args(text):
        m = re.match(r'^(\w+)\s*\((.*)\)$', item.strip(), re.S) or re.match(r'^(\w+)\s*\{(.*)\}$', item.strip(), re.S)
        if not m:
            raise ExtractError('mem-initialiser not of the form name(expr): ' + item[:60])
        out.append('%s->%s = %s;' % (selfname, m.group(1), m.group(2).strip() or '0'))
    return ' '.join(out)


class Extracted:
    def __init__(self, ident, header, line, sig, raw, text, fired):
        self.ident, self.header, self.line, self.sig = ident, header, line, sig
        self.raw, self.text, self.fired = raw, text, fired
        self.sha256 = hashlib.sha256(raw.encode()).hexdigest()

    def banner(self):
        if getattr(self, 'inline', False):
            return ''
        return '/* extracted: %s:%d  sha256(raw body)=%s\n   rules fired: %s */' % (
            self.header, self.line, self.sha256[:16],
            ', '.join('%s x%d' % f for f in self.fired) or 'none')


_cache = {}


def read_header(rel):
    p = os.path.join(REPO_INCLUDE, rel)
    if p not in _cache:
        try:
            _cache[p] = open(p).read()
        except OSError as e:
            raise ExtractError('cannot read header %s: %s' % (p, e))
    return _cache[p]


def extract_expr(ident, header, anchor, rules=(), members=(), within=None, common=True):
    """Cut an initialiser / expression: `anchor` has exactly one group, the text that is kept (e.g. the
    initialiser of a static const member).  Must match exactly once."""
    text = read_header(header)
    base_line = 0
    if within:
        outer, oline, _ = find_body(text, within)
        base_line = oline - 1
        text = outer
    ms = list(re.finditer(anchor, text, re.S))
    if len(ms) != 1:
        raise ExtractError('expression anchor matched %d times (expected 1): %s' % (len(ms), anchor))
    raw = ms[0].group(1)
    body = strip_comments(raw)
    body, fired = apply_rules(body, list(rules))
    if common:
        body, f2 = apply_rules(body, COMMON_RULES)
        fired += f2
    if members:
        body, n = qualify_members(body, members)
        if n:
            fired.append(('R3.members', n))
    line = base_line + text.count('\n', 0, ms[0].start()) + 1
    return Extracted(ident, header, line, ' '.join(ms[0].group(0).split())[:120], raw, body, fired)


def extract(ident, header, anchor, nth=0, rules=(), members=(), count=None, within=None,
            common=True, keep_comments=False, ppdefs=None, meminit=False):
    """Cut one body.  `within`: optional anchor regex of an enclosing struct; the function anchor
    is then searched only inside that struct's braces (used for specialisations)."""
    text = read_header(header)
    base_line = 0
    if within:
        outer, oline, _ = find_body(text, within)
        base_line = oline - 1
        text = outer
    raw, line, sig = find_body(text, anchor, nth, count)
    body = raw if keep_comments else strip_comments(raw)
    fired = [('R1.comments', 1)] if body != raw else []
    if '#' in body:
        body, n = resolve_ifdefs(body, ppdefs or {})
        if n:
            fired.append(('R16.ifdef', n))
    if meminit:
        # constructor: `sig` ends with `) : init-list` ; prepend the lowered initialisers to the body
        mi = re.search(r'\)\s*:\s*(.*)$', strip_comments(sig), re.S)
        if not mi:
            raise ExtractError('constructor without mem-initialiser list: ' + anchor)
        raw = sig + raw
        body = '{ ' + lower_meminit(mi.group(1)) + '\n' + body + ' }'
        fired.append(('R12.meminit', 1))
    body, f1 = apply_rules(body, list(rules))
    fired += f1
    if common:
        body, f2 = apply_rules(body, COMMON_RULES)
        fired += f2
    if members:
        body, n = qualify_members(body, members)
        if n:
            fired.append(('R3.members', n))
    return Extracted(ident, header, base_line + line, ' '.join(sig.split()), raw, body, fired)
