"""Generate, from one structured contract description, (i) the CBMC-annotated function header that
precedes the extracted body, (ii) the engine-S harness, (iii) the engine-Z harness (assume requires /
call / assert each ensures) and (iv) an optional contract stub used when a *caller* is checked by
engine Z against this callee's contract.  The clause text is written once."""
import re


def _sub_ret(expr, r):
    return re.sub(r'\bRET\b', r, expr)


class Fn:
    def __init__(self, name, ret, params, hole, requires=(), ensures=(), assigns='', comment='',
                 pre_body='', post_body=''):
        """params: [(ctype, name)], ensures: [(label, expr)] with RET for the result,
        hole: extraction id; pre_body/post_body wrap the extracted body (e.g. constructor lowering)"""
        self.__dict__.update(locals())
        del self.__dict__['self']

    def sig(self):
        return '%s %s(%s)' % (self.ret, self.name, ', '.join('%s %s' % p for p in self.params) or 'void')

    def definition(self):
        out = []
        if self.comment:
            out.append('/* %s */' % self.comment)
        out.append('#ifdef ZSTUB_%s' % self.name)
        out.append(self.stub())
        out.append('#else')
        out.append(self.sig())
        for r in self.requires:
            out.append('__CPROVER_requires(%s)' % r)
        for label, e in self.ensures:
            out.append('__CPROVER_ensures(%s)   /* %s */' % (e, label))
        out.append('__CPROVER_assigns(%s)' % self.assigns)
        if self.pre_body or self.post_body:
            out.append('{ %s @@%s@@ %s }' % (self.pre_body, self.hole, self.post_body))
        else:
            out.append('@@%s@@' % self.hole)
        out.append('#endif')
        return '\n'.join(out) + '\n'

    def stub(self):
        """callee replaced by its contract for engine Z: assert requires, havoc, assume ensures"""
        b = [self.sig() + ' {']
        for n, r in enumerate(self.requires):
            b.append('  __CPROVER_assert(%s, "%s.requires.%d holds at the call site");' % (r, self.name, n + 1))
        if self.ret != 'void':
            b.append('  %s r__;' % self.ret)
            for label, e in self.ensures:
                b.append('  __CPROVER_assume(%s);' % _sub_ret(e, 'r__'))
            b.append('  return r__;')
        b.append('}')
        return '\n'.join(b)

    def harnesses(self):
        decl = ' '.join('%s %s;' % p for p in self.params)
        args = ', '.join(p[1] for p in self.params)
        s = ['#ifndef VERIF_NATIVE']
        s.append('void h_%s(void){ %s %s(%s); __CPROVER_assert(0, "VACUITY"); }' % (self.name, decl, self.name, args))
        z = ['void hz_%s(void){ %s' % (self.name, decl)]
        for r in self.requires:
            z.append('  __CPROVER_assume(%s);' % r)
        if self.ret != 'void':
            z.append('  %s r__ = %s(%s);' % (self.ret, self.name, args))
        else:
            z.append('  %s(%s);' % (self.name, args))
        for label, e in self.ensures:
            z.append('  __CPROVER_assert(%s, "%s.ensures: %s");' % (_sub_ret(e, 'r__'), self.name, label))
        z.append('  __CPROVER_assert(0, "VACUITY"); }')
        s += z
        s.append('#endif')
        return '\n'.join(s) + '\n'

    def text(self):
        return self.definition() + self.harnesses()

    def inputs(self):
        return tuple(p[1] for p in self.params)
