"""Unit / check data model, template instantiation, binding probe, job pool (DESIGN 3.1-3.4)."""
import concurrent.futures as cf
import os
import re
import shutil
import subprocess
import tempfile
import time

from . import extract as ex

VERIF = os.path.dirname(os.path.dirname(os.path.abspath(__file__)))
REPO = os.environ.get('GIL_REPO', '/repo')
INCLUDE = os.path.join(REPO, 'include')
ex.REPO_INCLUDE = INCLUDE
PRELUDE = os.path.join(VERIF, 'prelude')
JOBS = int(os.environ.get('VERIF_JOBS', '16'))
CXXFLAGS = ['-std=c++14', '-O1', '-w', '-I', INCLUDE, '-I', PRELUDE]
MEM_KB = 10 * 1024 * 1024


class Undecided(Exception):
    """Anything that prevents a decision: extraction break, tool error, time-out.  exit 2."""


class X:
    """extraction request"""
    def __init__(self, ident, header, anchor, nth=0, rules=(), members=(), count=None, within=None,
                 common=True, kind='body', meminit=False):
        self.__dict__.update(locals())
        del self.__dict__['self']

    def run(self, ppdefs=None):
        hdr = self.header if '/' in self.header else 'boost/gil/' + self.header
        if self.kind == 'expr':
            e = ex.extract_expr(self.ident, hdr, self.anchor, self.rules, self.members, self.within, self.common)
            e.inline = True
            return e
        return ex.extract(self.ident, hdr, self.anchor, self.nth, self.rules, self.members,
                          self.count, self.within, self.common, ppdefs=ppdefs, meminit=self.meminit)


class Check:
    """One verifier run.
    engine: 'S' CBMC + DFCC contracts (enforce / replace / loop contracts)
            'D' CBMC directly on the bodies (loop-free lemma harness over real bodies: complete)
            'Z' goto program -> integer VCs -> z3 5.1
            'B' CBMC with --unwind N --unwinding-assertions: bounded stand-in, never counted proved
    """
    def __init__(self, name, harness, engine='S', enforce=None, replace=(), loops=False, flags=(),
                 inputs=(), timeout=None, unwind=None, tier='quick', defines=(), object_bits=None,
                 expect_fail=(), partition=None, zopts=None, gi_flags=(), replay=None, no_vacuity=False, small=(), native=None):
        self.__dict__.update(locals())
        del self.__dict__['self']


class Unit:
    def __init__(self, name, prop, template, extracts=(), checks=(), insts=None, probe=None,
                 probe_includes=(), replay=None, fidelity=None, functions=(), assumed=(),
                 preconditions=(), notes='', probe_pre=''):
        """insts: list of (inst_name, tier, {macro: c++ text}) ; probe: C++ statements printing
        bindings with P_TYPE/P_VAL/P_RAW helpers; template: C text with @@id@@ body holes."""
        self.__dict__.update(locals())
        del self.__dict__['self']
        if not self.insts:
            self.insts = [('-', 'quick', {})]


def sh(cmd, cwd=None, timeout=None, mem_kb=MEM_KB, stdin=None):
    """run with a memory ulimit and a wall-clock limit; returns (rc, stdout, stderr, seconds)"""
    t0 = time.time()

    def lim():
        import resource
        if mem_kb:
            resource.setrlimit(resource.RLIMIT_AS, (mem_kb * 1024, mem_kb * 1024))
    # the child gets its own process group so that a time-out (or our own death) takes its children (solvers) with it
    p = subprocess.Popen(cmd, cwd=cwd, stdout=subprocess.PIPE, stderr=subprocess.PIPE, stdin=subprocess.PIPE if stdin is not None else None,
                         text=True, preexec_fn=lim, start_new_session=True)
    _LIVE.add(p.pid)
    try:
        out, err = p.communicate(input=stdin, timeout=timeout)
        return p.returncode, out, err, time.time() - t0
    except subprocess.TimeoutExpired:
        _killpg(p.pid)
        try:
            out, err = p.communicate(timeout=10)
        except Exception:
            out, err = '', ''
        return -9, out or '', 'TIMEOUT after %ss' % timeout, time.time() - t0
    finally:
        _LIVE.discard(p.pid)


_LIVE = set()


def _killpg(pid):
    import signal
    # SIGTERM first: a worker of ours forwards it to its own children (install_cleanup), then SIGKILL
    for sig, wait in ((signal.SIGTERM, 0.4), (signal.SIGKILL, 0)):
        try:
            os.killpg(pid, sig)
        except (ProcessLookupError, PermissionError):
            return
        time.sleep(wait)


def _kill_all_children(*_a):
    for pid in list(_LIVE):
        _killpg(pid)


def install_cleanup():
    """kill every running child process group when this process is terminated or exits"""
    import atexit
    import signal
    atexit.register(_kill_all_children)
    for sig in (signal.SIGTERM, signal.SIGINT, signal.SIGHUP):
        try:
            signal.signal(sig, lambda s, f: (_kill_all_children(), os._exit(130)))
        except (ValueError, OSError):
            pass


class Workdir:
    def __init__(self):
        base = os.environ.get('TMPDIR', '/tmp')
        self.path = tempfile.mkdtemp(prefix='gilvc_', dir=base)

    def sub(self, *parts):
        p = os.path.join(self.path, *parts)
        os.makedirs(p, exist_ok=True)
        return p

    def cleanup(self):
        if os.environ.get('VERIF_KEEP'):
            print('[keep] workdir', self.path)
            return
        shutil.rmtree(self.path, ignore_errors=True)


PROBE_UTIL = r'''
#include <cstdio>
#include <cstdint>
#include <type_traits>
#include <limits>
namespace vprobe {
template <typename T> struct is_fp : std::is_floating_point<T> {};
template <typename T> const char* cname() {
  static char buf[32];
  if (std::is_same<T,bool>::value) return "_Bool";
  if (is_fp<T>::value) return sizeof(T)==4 ? "float" : "double";
  std::snprintf(buf, sizeof buf, "%sint%zu_t", std::is_signed<T>::value ? "" : "u", sizeof(T)*8); return buf; }
template <typename T> typename std::enable_if<std::is_floating_point<T>::value>::type pval(const char* n, T v){ std::printf("#define %s %a\n", n, (double)v); }
template <typename T> typename std::enable_if<std::is_integral<T>::value && std::is_signed<T>::value>::type pval(const char* n, T v){
  if ((long long)v == std::numeric_limits<long long>::min()) std::printf("#define %s (-9223372036854775807LL-1)\n", n);
  else std::printf("#define %s (%lldLL)\n", n, (long long)v); }
template <typename T> typename std::enable_if<std::is_integral<T>::value && !std::is_signed<T>::value>::type pval(const char* n, T v){ std::printf("#define %s %lluULL\n", n, (unsigned long long)v); }
}
#define P_TYPE(name, ...) std::printf("#define %s %s\n", name, vprobe::cname<__VA_ARGS__>())
#define P_VAL(name, ...)  vprobe::pval(name, (__VA_ARGS__))
template <typename T> void vprobe_tval(const char* n, T v){
  if (std::is_floating_point<T>::value) std::printf("#define %s ((%s)%a)\n", n, vprobe::cname<T>(), (double)v);
  else if (std::is_signed<T>::value) std::printf("#define %s ((%s)(%lldLL))\n", n, vprobe::cname<T>(), (long long)v);
  else std::printf("#define %s ((%s)%lluULL)\n", n, vprobe::cname<T>(), (unsigned long long)v); }
// typed constant: value printed with the C type the C++ expression has
#define P_TVAL(name, ...)  vprobe_tval(name, (__VA_ARGS__))
#define P_RAW(...) std::printf(__VA_ARGS__)
'''


def run_probe(unit, inst, wd):
    """compile the binding probe with g++ against the real headers, run it, return header text"""
    iname, _, macros = inst
    if not unit.probe:
        return ''.join('#define %s %s\n' % kv for kv in macros.items())
    d = wd.sub(unit.name, iname)
    src = os.path.join(d, 'probe.cpp')
    with open(src, 'w') as f:
        f.write(PROBE_UTIL)
        for inc in unit.probe_includes:
            f.write('#include <%s>\n' % inc)
        f.write('using namespace boost::gil;\n')
        for k, v in macros.items():
            if k.startswith('T_'):
                f.write('using %s = %s;\n' % (k[2:], v))
            else:
                f.write('#define %s %s\n' % (k, v))
        f.write(unit.probe_pre + '\n')
        f.write('int main(){\n%s\nreturn 0;}\n' % unit.probe)
    exe = os.path.join(d, 'probe')
    rc, out, err, _ = sh(['g++'] + CXXFLAGS + ['-O0', src, '-o', exe], timeout=300)
    if rc != 0:
        raise Undecided('binding probe does not compile for %s/%s: %s' % (unit.name, iname, err[-1500:]))
    rc, out, err, _ = sh([exe], timeout=60)
    if rc != 0:
        raise Undecided('binding probe failed for %s/%s: %s' % (unit.name, iname, err[-300:]))
    plain = ''.join('#define %s %s\n' % (k, v) for k, v in macros.items() if not k.startswith('T_') and not v.startswith('"'))
    return plain + out


def instantiate(unit, inst, wd):
    """extract bodies, fill the template, write <wd>/<unit>/<inst>/unit.c; returns (path, extracted list)"""
    iname = inst[0]
    d = wd.sub(unit.name, iname)
    bind = run_probe(unit, inst, wd)
    with open(os.path.join(d, 'bind.h'), 'w') as f:
        f.write('/* generated by the binding probe (g++ on the real headers) for instantiation %s */\n' % iname)
        f.write(bind)
    # SEL_ macros from the probe choose among candidate extractions
    sel = dict(re.findall(r'#define\s+(SEL_\w+)\s+\(?(\d+)', bind))
    text = unit.template
    extracted = []
    for x in unit.extracts:
        hole = '@@%s@@' % x.ident
        selname = 'SEL_' + x.ident
        if selname in sel and sel[selname] == '0':
            text = text.replace(hole, '{ __CPROVER_assert(0, "unselected candidate body reached"); }')
            continue
        ppdefs = {k: v == '1' for k, v in re.findall(r'#define\s+PPDEF_(\w+)\s+\(?(\d+)', bind)}
        e = x.run(ppdefs)
        extracted.append(e)
        if hole not in text:
            raise Undecided('template of %s has no hole %s' % (unit.name, hole))
        text = text.replace(hole, (e.banner() + '\n' + e.text) if not getattr(e, 'inline', False) else e.text.strip())
    # bodies this unit does not extract: a stub that fails if it is ever reached (never a silent pass)
    text = re.sub(r'@@(\w+)@@', lambda m: '{ __CPROVER_assert(0, "body %s is not extracted in this unit but was reached"); }' % m.group(1), text)
    path = os.path.join(d, 'unit.c')
    with open(path, 'w') as f:
        f.write('/* GENERATED on every run from %s — do not edit */\n' % INCLUDE)
        f.write('#include "bind.h"\n#include "vprelude.h"\n')
        f.write(text)
    return path, extracted


def pool_map(fn, items):
    if not items:
        return []
    with cf.ThreadPoolExecutor(max_workers=JOBS) as pool:
        return list(pool.map(fn, items))
