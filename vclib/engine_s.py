"""Engine S / D / B: goto-cc -> goto-instrument --dfcc (contracts) -> cbmc (DESIGN 3.5)."""
import json
import os
import re

from .core import sh, Undecided, PRELUDE

BASE_CHECKS = ['--bounds-check', '--pointer-check', '--pointer-overflow-check', '--div-by-zero-check',
               '--signed-overflow-check', '--undefined-shift-check', '--pointer-primitive-check',
               '--no-malloc-may-fail']
LIBRARY_FUNCS = ('__CPROVER_contracts_', '__CPROVER_', '<builtin')


# --conversion-check also flags integer narrowing, which is well defined (modular) and intended in GIL
# (judged through the postconditions); float -> integer conversions out of range are UB and stay obligations
CONV_INT = re.compile(r'arithmetic overflow on (signed|unsigned) to (signed|unsigned) type conversion')


class Obligation:
    def __init__(self, name, status, desc, cls, line, seconds=0.0, backend='', func=''):
        self.name, self.status, self.desc, self.cls, self.line = name, status, desc, cls, line
        self.seconds, self.backend, self.func = seconds, backend, func
        self.trace = None

    def as_dict(self):
        return dict(name=self.name, status=self.status, description=self.desc, **{'class': self.cls},
                    backend=self.backend, seconds=round(self.seconds, 3))


def parse_value(v):
    """CBMC trace value -> python number or None"""
    if v is None:
        return None
    name = v.get('name')
    if name == 'integer':
        b = v.get('binary')
        t = v.get('type', '')
        if b is not None:
            n = int(b, 2)
            w = v.get('width', len(b))
            signed = not (t.startswith('unsigned') or t.startswith('uint') or t in ('size_t', '_Bool', '__CPROVER_size_t')
                          or 'unsigned' in t)
            if signed and n >= (1 << (w - 1)):
                n -= (1 << w)
            return n
        d = v.get('data', '')
        m = re.match(r'-?\d+', d)
        return int(m.group(0)) if m else None
    if name == 'float':
        b = v.get('binary')
        import struct
        if b and len(b) == 32:
            return ('f32', int(b, 2), struct.unpack('>f', int(b, 2).to_bytes(4, 'big'))[0])
        if b and len(b) == 64:
            return ('f64', int(b, 2), struct.unpack('>d', int(b, 2).to_bytes(8, 'big'))[0])
    if name == 'boolean':
        return 1 if v.get('data') in (True, 'true', 'TRUE', '1') else 0
    if name == 'pointer':
        return v.get('data')
    if name == 'struct':
        out = {}
        for m in v.get('members', []):
            out[m.get('name')] = parse_value(m.get('value'))
        return out
    if name == 'array':
        return [parse_value(e.get('value')) for e in v.get('elements', [])]
    return v.get('data')


def trace_inputs(trace, harness, wanted):
    """first value assigned to each wanted lvalue (a harness local, possibly a member path)"""
    got = {}
    for s in trace or []:
        if s.get('stepType') != 'assignment':
            continue
        fn = s.get('sourceLocation', {}).get('function')
        lhs = s.get('lhs')
        if lhs is None or (fn is not None and fn != harness):
            continue
        val = parse_value(s.get('value'))
        if lhs in wanted and lhs not in got and val is not None:
            got[lhs] = val
        # struct-valued assignment: flatten
        if isinstance(val, dict):
            def flat(prefix, dv):
                for k, vv in dv.items():
                    p = '%s.%s' % (prefix, k)
                    if isinstance(vv, dict):
                        flat(p, vv)
                    elif p in wanted and p not in got and vv is not None:
                        got[p] = vv
            flat(lhs, val)
        if isinstance(val, list):
            for i, vv in enumerate(val):
                p = '%s[%d]' % (lhs, i)
                if p in wanted and p not in got and vv is not None:
                    got[p] = vv
    return got


def run(check, unit_c, wd_dir, tier, extra_defines=()):
    """returns dict(obligations=[Obligation], vacuity_ok=bool, log=str, seconds=float, cmd=str)"""
    tag = check.name
    gb = os.path.join(wd_dir, tag + '.a.gb')
    gb2 = os.path.join(wd_dir, tag + '.b.gb')
    timeout = check.timeout or (120 if tier == 'quick' else 900)
    defs = ['-D' + d for d in list(check.defines) + list(extra_defines)]
    cmd = ['goto-cc', '-DVERIF_CBMC', '-I', PRELUDE, '-I', wd_dir] + defs + ['--function', check.harness, unit_c, '-o', gb]
    rc, out, err, t1 = sh(cmd, timeout=120)
    if rc != 0:
        raise Undecided('goto-cc failed on %s [%s]: %s' % (unit_c, tag, (out + err)[-2500:]))
    log = err
    cmds = [' '.join(cmd)]
    engine = check.engine
    if engine == 'S':
        gi = ['goto-instrument', '--dfcc', check.harness]
        if check.enforce:
            gi += ['--enforce-contract', check.enforce]
        for r in check.replace:
            gi += ['--replace-call-with-contract', r]
        if check.loops:
            gi += ['--apply-loop-contracts']
        gi += list(check.gi_flags) + [gb, gb2]
        rc, out, err, t2 = sh(gi, timeout=300)
        log += out + err
        cmds.append(' '.join(gi))
        if rc != 0:
            raise Undecided('goto-instrument failed [%s]: %s' % (tag, (out + err)[-2500:]))
    else:
        gb2 = gb
    cb = ['cbmc', gb2] + BASE_CHECKS + list(check.flags) + ['--json-ui', '--trace', '--drop-unused-functions']
    if check.unwind is not None:
        cb += ['--unwind', str(check.unwind), '--unwinding-assertions']
    if check.object_bits:
        cb += ['--object-bits', str(check.object_bits)]
    rc, out, err, t3 = sh(cb, timeout=timeout)
    cmds.append(' '.join(cb))
    if rc == -9:
        raise Undecided('cbmc time-out (%ss) on %s' % (timeout, tag))
    try:
        data = json.loads(out)
    except ValueError:
        raise Undecided('cbmc produced no JSON on %s: %s' % (tag, (out + err)[-1500:]))
    obls = []
    messages = []
    backend = 'cbmc-smt2-cvc5' if '--cvc5' in check.flags else 'cbmc-smt2-z3' if '--z3' in check.flags else 'cbmc-sat(minisat)'
    if check.engine == 'B':
        backend += ' bounded --unwind %s' % check.unwind
    for e in data:
        if 'messageText' in e:
            messages.append(e['messageText'])
        if 'result' in e:
            for r in e['result']:
                sl = r.get('sourceLocation', {})
                o = Obligation(r['property'], r['status'], r.get('description', ''),
                               sl.get('propertyClass', ''), sl.get('line', ''), 0.0, backend,
                               sl.get('function', ''))
                o.file = sl.get('file', '')
                if r['status'] == 'FAILURE':
                    o.trace = r.get('trace')
                obls.append(o)
    try:
        src_lines = open(unit_c).read().split('\n')
    except OSError:
        src_lines = []
    for o in obls:
        if ('postcondition' in o.name or 'precondition' in o.name or 'loop_invariant' in o.name) and str(o.line).isdigit():
            ln = int(o.line) - 1
            if 0 <= ln < len(src_lines) and os.path.basename(o.file or '') == os.path.basename(unit_c):
                m = re.search(r'/\*\s*(.*?)\s*\*/\s*$', src_lines[ln])
                clause = re.sub(r'/\*.*?\*/', '', src_lines[ln]).strip()
                o.desc = '%s :: %s%s' % (o.desc, (m.group(1) + ' :: ') if m else '', clause[:160])
    msgtext = '\n'.join(messages)
    log += msgtext
    if not obls:
        raise Undecided('cbmc reported no properties on %s: %s' % (tag, msgtext[-1500:]))
    for bad in ('ignoring', 'Parse Error', 'no body for'):
        # 'no body for' a function we call means its behaviour was havocked silently
        m = re.search(r'[^\n]*' + re.escape(bad) + r'[^\n]*', msgtext)
        if m and not (bad == 'no body for' and re.search(r'no body for function (__VERIFIER|nondet_)', m.group(0))):
            raise Undecided('log scan: "%s" on %s' % (m.group(0)[:200], tag))
    # vacuity guard: the harness' must-fail assertion has to FAIL
    obls = [o for o in obls if not (o.func.startswith('h_') and o.func != check.harness)]
    obls = [o for o in obls if not CONV_INT.match(o.desc)]
    vac = [o for o in obls if o.desc.startswith('VACUITY')]
    own = [o for o in obls if not o.desc.startswith('VACUITY')
           and not (o.file or '').startswith('<builtin') and not o.name.startswith('__CPROVER_')]
    for o in own:
        o.seconds = t3 / max(1, len(own))
    if not check.no_vacuity:
        if not vac:
            raise Undecided('harness %s has no VACUITY must-fail assertion' % check.harness)
        if any(v.status != 'FAILURE' for v in vac):
            raise Undecided('vacuous: must-fail assertion in %s did not fail (preconditions unsatisfiable or body never returns)' % check.harness)
    if engine == 'S' and check.loops:
        if not any('loop_invariant_step' in o.name or 'loop invariant' in o.desc.lower() for o in obls):
            raise Undecided('loop contracts requested but no loop_invariant obligations generated on %s' % tag)
    if engine == 'S' and check.enforce:
        if not any(o.cls == 'postcondition' or '.postcondition.' in o.name for o in obls):
            raise Undecided('no postcondition obligations generated for %s' % check.enforce)
    return dict(obligations=own, log=log, seconds=t1 + t3, cmd=' ; '.join(cmds),
                vacuity=[v.as_dict() for v in vac])
