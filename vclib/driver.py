"""check / replay / list driver (DESIGN 3.1, 3.7, 3.9, 3.10, 7)."""
import fnmatch
import importlib
import json
import os
import re
import sys
import time
import traceback

from . import core, engine_s
from .core import Undecided, VERIF, sh

CONTRACT_CLASSES = ('postcondition', 'precondition', 'assigns', 'frees', 'assertion', 'loop_invariant_base', 'loop_invariant_step', 'loop_decreases')


def load_units(prop):
    mod = importlib.import_module('specs.%s' % prop)
    return mod.UNITS, getattr(mod, 'META', {})


def load_known():
    p = os.path.join(VERIF, 'known_findings.json')
    if not os.path.exists(p):
        return []
    return json.load(open(p)).get('findings', [])


def fmt_inputs(inputs):
    out = []
    for k, v in inputs.items():
        if isinstance(v, tuple):
            out.append('%s=%s:0x%x' % (k, v[0], v[1]))
        else:
            out.append('%s=%s' % (k, v))
    return out


def build_native(unit, inst, wd, src_text, name, unit_c=None, sanitize=False):
    """compile a C++ driver against the real headers (+ optionally the extracted C object)"""
    d = wd.sub(unit.name, inst[0])
    hpp = os.path.join(d, 'inst.hpp')
    with open(hpp, 'w') as f:
        for k, v in inst[2].items():
            if k.startswith('T_'):
                f.write('using %s = %s;\n' % (k[2:], v))
            else:
                f.write('#define %s %s\n' % (k, v))
    src = os.path.join(d, name + '.cpp')
    with open(src, 'w') as f:
        f.write(src_text)
    objs = []
    if unit_c:
        obj = os.path.join(d, name + '_unit.o')
        rc, out, err, _ = sh(['gcc', '-std=gnu11', '-O1', '-w', '-DVERIF_NATIVE', '-I', core.PRELUDE, '-I', d,
                              '-c', unit_c, '-o', obj], timeout=120)
        if rc != 0:
            raise Undecided('native compile of extracted C failed (%s): %s' % (unit.name, err[-1500:]))
        objs.append(obj)
    exe = os.path.join(d, name)
    flags = list(core.CXXFLAGS) + ['-I', d]
    if sanitize:
        flags += ['-fsanitize=address,undefined', '-fno-sanitize-recover=undefined', '-g']
    rc, out, err, _ = sh(['g++'] + flags + [src] + objs + ['-o', exe, '-lm'], timeout=600, mem_kb=16 * 1024 * 1024)
    if rc != 0:
        raise Undecided('native driver %s does not compile (%s/%s): %s' % (name, unit.name, inst[0], err[-2500:]))
    return exe


class Run:
    def __init__(self, prop, tier, seed):
        self.prop, self.tier, self.seed = prop, tier, seed
        self.wd = core.Workdir()
        self.results = []          # (unit, inst, check, res dict)
        self.undecided = []
        self.violations = []
        self.known_lines = []
        self.fidelity = []
        self.extracted = {}
        self.t0 = time.time()

    # ------------------------------------------------------------------ one (unit, inst)
    def prepare(self, unit, inst):
        path, extracted = core.instantiate(unit, inst, self.wd)
        for e in extracted:
            self.extracted['%s:%s' % (e.header.replace('boost/gil/', ''), e.ident)] = dict(
                line=e.line, sha256=e.sha256[:16], signature=e.sig[:160], rules=['%s x%d' % f for f in e.fired])
        return path

    def run_check(self, job):
        r = self._run_check(job)
        if r[3] and os.environ.get('VERIF_FAIL_FAST') and r[2].engine != 'N' and any(
                o.status != 'SUCCESS' and not any(fnmatch.fnmatch(o.name, pat) for pat in r[2].expect_fail) for o in r[3]['obligations']):
            self._fail_fast = True
        return r

    def _run_check(self, job):
        unit, inst, check, unit_c, extra = job
        d = os.path.dirname(unit_c)
        if getattr(self, '_fail_fast', False) and not extra:
            # VERIF_FAIL_FAST=1 (used when a seeded change is tried): an obligation has failed already, the remaining checks are not needed
            return (unit, inst, check, None, 'skipped: VERIF_FAIL_FAST and another check has failed already')
        try:
            if check.engine == 'N':
                return (unit, inst, check, self.run_native(unit, inst, check), None)
            if check.engine in ('ZS', 'ZD'):
                # integer-only bodies go to engine Z; bodies with floating point (which Z rejects as
                # unsupported) fall back to the bit-precise engine on the same text and the same clauses
                import copy
                from . import engine_z
                cz = copy.copy(check)
                cz.engine = 'Z'
                if check.engine == 'ZS':
                    cz.harness = 'hz_' + check.harness[2:]
                try:
                    res = engine_z.run(cz, unit_c, d, self.tier, extra)
                except Undecided as e:
                    if 'unsupported' not in str(e):
                        raise
                    cs = copy.copy(check)
                    cs.engine = 'S' if check.engine == 'ZS' else 'D'
                    cs.defines = [x for x in check.defines if not x.startswith('ZSTUB_')]
                    res = engine_s.run(cs, unit_c, d, self.tier, extra)
            elif check.engine == 'Z':
                from . import engine_z
                res = engine_z.run(check, unit_c, d, self.tier, extra)
            else:
                res = engine_s.run(check, unit_c, d, self.tier, extra)
            return (unit, inst, check, res, None)
        except Undecided as e:
            return (unit, inst, check, None, str(e))
        except Exception:
            return (unit, inst, check, None, 'internal error: ' + traceback.format_exc()[-1500:])

    def run_native(self, unit, inst, check):
        """Engine N: bounded stand-in - a native exhaustive loop over a stated window calling the REAL C++ function
        (DESIGN 3.5 engine B).  Never counted as proved; a failing case is a genuine failing input."""
        kf = [k for k in load_known() if k.get('status') == 'open' and k['property'] == self.prop and fnmatch.fnmatch(unit.name, k['unit']) and k['check'] == check.name]
        src = ''.join('#define %s 1\n' % k['carve_define'] for k in kf) + check.native
        exe = build_native(unit, inst, self.wd, src, 'native_' + check.name, sanitize='sanitize' in check.flags)
        t0 = time.time()
        rc, out, err, secs = sh([exe, 'tier=' + self.tier, 'seed=%d' % self.seed], timeout=check.timeout or 900, mem_kb=None)
        if 'ERROR: AddressSanitizer' in (out + err) or 'runtime error:' in (out + err):
            fi = re.search(r'FAILING INPUT: ([^\n]*)', out + err)
            if fi:
                out += '\nFAILCASE %s\n' % fi.group(1)[:600]
            out += '\nCLAUSE sanitizer FAIL 1 undefined behaviour / memory error reported by the sanitizers: %s\nFAILCASE %s\n' % (
                re.sub(r'\s+', ' ', (re.search(r'[^\n]*(runtime error|AddressSanitizer)[^\n]*', out + err) or [''])[0])[:200], re.sub(r'\s+', ' ', (re.search(r'[^\n]*(runtime error|AddressSanitizer)[^\n]*', out + err) or [''])[0])[:200])
            if 'NATIVE cases=' not in out:
                out += 'NATIVE cases=1 window=aborted by the sanitizer\n'
        m = re.search(r'NATIVE cases=(\d+) window=(.*)', out)
        if not m:
            raise Undecided('native bounded check %s produced no summary: %s' % (check.name, (out + err)[-500:]))
        obls = []
        for cm in re.finditer(r'^CLAUSE (\S+) (PASS|FAIL) (\d+) (.*)$', out, re.M):
            o = engine_s.Obligation('%s.%s' % (check.name, cm.group(1)), 'SUCCESS' if cm.group(2) == 'PASS' else 'FAILURE',
                                    cm.group(4), 'bounded', '', secs, 'native exhaustive loop over the real C++ function, window ' + m.group(2), check.name)
            o.file = ''
            o.model = {}
            obls.append(o)
        fails = re.findall(r'^FAILCASE (.*)$', out, re.M)
        for o in obls:
            if o.status == 'FAILURE':
                o.desc += ' :: ' + '; '.join(fails[:3])
        for km in re.finditer(r'^KNOWNCASE (\S+) (.*)$', out, re.M):
            k = next((x for x in kf if x['id'] == km.group(1)), None)
            if k:
                self.known_lines.append('KNOWN-FINDING: property=%s %s [%s; witness %s]' % (self.prop, k['what'], k['id'], km.group(2)))
        return dict(obligations=obls, log=out[-2000:], seconds=secs, cmd='g++ native_%s.cpp (real headers) ; ./native_%s tier=%s' % (check.name, check.name, self.tier),
                    vacuity=[], native_cases=int(m.group(1)), native_fails=fails)

    # ------------------------------------------------------------------ failure handling
    def native_replay(self, unit, inst, check, inputs, obl):
        src = unit.replay
        if isinstance(src, dict):
            src = src.get(check.replay or check.name) or src.get('default')
        if not src:
            return None, 'no native replay driver for this unit'
        exe = build_native(unit, inst, self.wd, src, 'replay_' + check.name, sanitize=True)
        args = fmt_inputs(inputs) + ['obl=' + obl, 'check=' + check.name, 'unit=' + unit.name]
        rc, out, err, _ = sh([exe] + args, timeout=300, mem_kb=None)
        txt = (out + err).strip()
        if rc == 1 or 'ERROR: AddressSanitizer' in txt or 'runtime error:' in txt:
            head = [m.group(0) for m in re.finditer(r'^(FAILING INPUT:|REPRODUCED|.*ERROR: AddressSanitizer|.*runtime error:|SUMMARY:)[^\n]*', txt, re.M)]
            head = sorted((h[:400] for h in head), key=lambda h: not h.startswith('FAILING INPUT'))
            return True, ('\n'.join(head)[:1500] if head else txt[-1500:])
        if rc == 0:
            return False, txt[-800:]
        if rc in (-6, 134) and re.search(r'[Aa]ssertion.*failed', txt):
            # an assertion of the real code (BOOST_ASSERT) aborted the replay: the input violates the library's own precondition checks
            m = re.search(r'[^\n]*[Aa]ssertion[^\n]*failed[^\n]*', txt)
            return True, 'REPRODUCED: an assertion of the real code failed (abort): ' + (m.group(0) if m else '')[:600]
        return None, 'replay driver exit %s: %s' % (rc, txt[-800:])

    def handle_failures(self, unit, inst, check, res, known):
        failed = [o for o in res['obligations'] if o.status != 'SUCCESS']
        expected = [o for o in failed if any(fnmatch.fnmatch(o.name, pat) for pat in check.expect_fail)]
        failed = [o for o in failed if o not in expected]
        if not failed:
            return
        unl = [o for o in failed if 'undefined function should be unreachable' in (o.desc or '') or 'no body for callee' in (o.desc or '') or '.no-body.' in o.name]
        if unl:
            # a call the extraction rules did not lower (a new helper in the changed body): an extraction limit, not a property violation
            raise Undecided('the extracted body calls a function the lowering rules do not know (%s); the check cannot decide this variant of the code' % ', '.join(sorted(set(o.name.split('.')[0] for o in unl))))
        first = next((o for o in failed if o.trace), failed[0])
        inputs = {}
        if first.trace and check.inputs:
            inputs = engine_s.trace_inputs(first.trace, check.harness, set(check.inputs))
        if getattr(first, 'model', None):
            inputs = first.model
        ident = '%s.%s.%s' % (unit.name, inst[0], check.name)
        rdir = os.path.join(VERIF, 'replays', self.prop)
        os.makedirs(rdir, exist_ok=True)
        rpath = os.path.join(rdir, ident + '.json')
        reproduced, rtxt = (None, 'no inputs recovered from the counterexample')
        if check.engine == 'N':
            reproduced, rtxt = True, 'native bounded check on the real code: ' + '; '.join(res.get('native_fails', [])[:3])
        try:
            if check.engine != 'N' and (inputs or not check.inputs):
                reproduced, rtxt = self.native_replay(unit, inst, check, inputs, first.name)
        except Undecided as e:
            reproduced, rtxt = None, str(e)
        if reproduced is not True and check.small:
            # the verifier's model may be too large to replay (e.g. a 100 GB buffer): search again for a
            # counterexample of the same obligations inside a small window (extra -D bounds on the inputs)
            r2 = self.run_check((unit, inst, check, os.path.join(self.wd.path, unit.name, inst[0], 'unit.c'), list(check.small)))
            if r2[3]:
                f2 = [o for o in r2[3]['obligations'] if o.status != 'SUCCESS']
                o2 = next((o for o in f2 if o.trace or getattr(o, 'model', None)), None)
                if o2 is not None:
                    in2 = getattr(o2, 'model', None) or engine_s.trace_inputs(o2.trace, check.harness, set(check.inputs))
                    try:
                        rep2, txt2 = self.native_replay(unit, inst, check, in2, o2.name)
                    except Undecided as e:
                        rep2, txt2 = None, str(e)
                    if rep2:
                        reproduced, rtxt, inputs = True, txt2 + ' [counterexample from the small-window re-run: %s]' % ' '.join(check.small), in2
        rec = dict(property=self.prop, unit=unit.name, instantiation=inst[0], inst_macros=inst[2], check=check.name,
                   engine=check.engine, failed_obligations=[o.as_dict() for o in failed],
                   inputs={k: (list(v) if isinstance(v, tuple) else v) for k, v in inputs.items()},
                   native_replay=dict(reproduced=reproduced, output=rtxt),
                   verifier_cmd=res['cmd'], extracted={k: v['sha256'] for k, v in self.extracted.items()},
                   verifier_output=[dict(name=o.name, description=o.desc, line=o.line) for o in failed][:20])
        with open(rpath, 'w') as f:
            json.dump(rec, f, indent=1, default=str)
        # known finding?
        for kf in known:
            if kf.get('status') != 'open' or kf['property'] != self.prop or not fnmatch.fnmatch(unit.name, kf['unit']):
                continue
            if not fnmatch.fnmatch(inst[0], kf.get('inst', '*')) or kf['check'] != check.name:
                continue
            pats = kf['obligations']
            if all(any(fnmatch.fnmatch(o.name, p) or re.search(p, o.desc) for p in pats) for o in failed):
                self.known_carve(unit, inst, check, kf, failed)
                return
        suffix = '' if reproduced else ' no-failing-input-found'
        self.violations.append('VIOLATION property=%s replay=%s%s' % (self.prop, rpath, suffix))
        self.viol_detail = getattr(self, 'viol_detail', []) + [
            '%s: %s [%s] inputs=%s replay=%s' % (ident, first.name, first.desc[:100], fmt_inputs(inputs), (rtxt or '')[:200])]

    def extraction_break_fallback(self, unit, inst, err):
        """The changed source no longer fits the extraction rules, so no obligation can be generated for this unit (UNDECIDED).
        As a bounded stand-in the unit's native replay driver is run over its built-in search window on the REAL code: a failure it
        reproduces is a genuine failing input and is reported as a violation (never counted as proof when it finds nothing)."""
        if not unit.replay or not unit.checks:
            return
        ran = getattr(self, '_fallback_done', set())
        if (unit.name, inst[0]) in ran:
            return
        ran.add((unit.name, inst[0]))
        self._fallback_done = ran
        import copy
        check = copy.copy(next((c for c in unit.checks if c.engine != 'N'), unit.checks[0]))
        check.replay = check.replay or check.name
        check.name = 'all'                          # replay drivers that select a scenario by check name run every scenario
        try:
            rep, txt = self.native_replay(unit, inst, check, {}, 'extraction-break')
        except Undecided:
            return
        if not rep:
            return
        rdir = os.path.join(VERIF, 'replays', self.prop)
        os.makedirs(rdir, exist_ok=True)
        rpath = os.path.join(rdir, '%s.%s.extraction_break.json' % (unit.name, inst[0]))
        with open(rpath, 'w') as f:
            json.dump(dict(property=self.prop, unit=unit.name, instantiation=inst[0], inst_macros=inst[2], check='native window after an extraction break', engine='N',
                           failed_obligations=[dict(name='extraction_break.native_window', status='FAILURE', **{'class': 'bounded'},
                                                    description='the unit could not be extracted from the changed source (%s); its native search window on the real code reproduces a failure' % err[:300])],
                           inputs={}, native_replay=dict(reproduced=True, output=txt), verifier_output=[dict(name='extraction', description=err[:600])]), f, indent=1, default=str)
        self.violations.append('VIOLATION property=%s replay=%s' % (self.prop, rpath))
        self.viol_detail = getattr(self, 'viol_detail', []) + ['%s.%s: extraction break, native window reproduces: %s' % (unit.name, inst[0], (txt or '')[:200])]

    def known_carve(self, unit, inst, check, kf, failed):
        """KNOWN-FINDING protocol (DESIGN 7): the stored witness must still fail on the real code and
        the obligation must be provable once the recorded failing set is excluded."""
        wit = kf.get('witness', {})
        rep, txt = self.native_replay(unit, inst, check, wit, kf['obligations'][0])
        unit_c = os.path.join(self.wd.path, unit.name, inst[0], 'unit.c')
        r2 = self.run_check((unit, inst, check, unit_c, [kf['carve_define']]))
        if r2[4]:
            self.undecided.append('%s.%s.%s carve-out run: %s' % (unit.name, inst[0], check.name, r2[4]))
            return
        still = [o for o in r2[3]['obligations'] if o.status != 'SUCCESS'
                 and not any(fnmatch.fnmatch(o.name, pat) for pat in check.expect_fail)]
        self.results.append((unit, inst, check, r2[3], 'carve:' + kf['id']))
        if still:
            # something outside the recorded failing set fails too
            res = dict(r2[3])
            res['obligations'] = still
            self.handle_failures(unit, inst, check, res, [])
            return
        if rep:
            self.known_lines.append('KNOWN-FINDING: property=%s %s [%s/%s %s; witness %s]' % (
                self.prop, kf['what'], unit.name, inst[0], kf['id'], ' '.join(fmt_inputs(wit))))
        else:
            self.undecided.append('known finding %s: obligation fails but stored witness no longer reproduces natively (%s)' % (kf['id'], txt))

    # ------------------------------------------------------------------ whole property
    def execute(self, units, only_unit=None, only_inst=None):
        known = load_known()
        tiers = ('quick',) if self.tier == 'quick' else ('quick', 'thorough')
        jobs = []
        prepped = []
        for u in units:
            if only_unit and not fnmatch.fnmatch(u.name, only_unit):
                continue
            for inst in u.insts:
                if inst[1] not in tiers or (only_inst and not fnmatch.fnmatch(inst[0], only_inst)):
                    continue
                prepped.append((u, inst))

        def prep(ui):
            try:
                return (ui, self.prepare(*ui), None)
            except (Undecided, core.ex.ExtractError) as e:
                return (ui, None, str(e))
        for (u, inst), path, err in core.pool_map(prep, prepped):
            if err:
                self.undecided.append('%s/%s: %s' % (u.name, inst[0], err))
                self.extraction_break_fallback(u, inst, err)
                continue
            for c in u.checks:
                if c.tier in tiers:
                    if c.partition:
                        var, values = c.partition
                        for v in values:
                            import copy
                            c2 = copy.copy(c)
                            c2.name = '%s_%s%s' % (c.name, var, v)
                            c2.defines = list(c.defines) + ['%s=%s' % (var, v)]
                            c2.partition = None
                            c2.replay = c.replay or c.name
                            jobs.append((u, inst, c2, path, []))
                    else:
                        jobs.append((u, inst, c, path, []))
            if u.fidelity and not os.environ.get('VERIF_NO_FIDELITY'):
                self.fidelity.append((u, inst, path))
        for (u, inst, c, res, err) in core.pool_map(self.run_check, jobs):
            if err:
                self.undecided.append('%s/%s/%s: %s' % (u.name, inst[0], c.name, err))
                if 'goto-cc failed' in err or 'does not compile' in err or 'must-fire rule' in err or 'time-out' in err:
                    self.extraction_break_fallback(u, inst, err)
                continue
            self.results.append((u, inst, c, res, None))
            try:
                self.handle_failures(u, inst, c, res, known)
            except Undecided as e:
                self.undecided.append('%s/%s/%s: %s' % (u.name, inst[0], c.name, e))
        # fidelity: extracted C vs the real C++ instantiation
        self.fid_cases = 0

        def fid(job):
            u, inst, path = job
            try:
                exe = build_native(u, inst, self.wd, u.fidelity, 'fidelity', unit_c=path)
                n = '200000' if self.tier == 'quick' else '5000000'
                rc, out, err, _ = sh([exe, 'seed=%d' % self.seed, 'n=' + n], timeout=600)
                m = re.search(r'FIDELITY cases=(\d+)', out)
                if rc != 0 or not m:
                    return 'fidelity mismatch (extraction unsound) %s/%s: %s' % (u.name, inst[0], (out + err)[-600:]), 0
                return None, int(m.group(1))
            except Undecided as e:
                return str(e), 0
        for err, n in core.pool_map(fid, self.fidelity):
            if err:
                self.undecided.append(err)
            self.fid_cases += n

    # ------------------------------------------------------------------ evidence
    def write_evidence(self, units, meta):
        obl = []
        bounded = []
        for (u, inst, c, res, tag) in self.results:
            for o in res['obligations']:
                rec = ('%s.%s.%s:%s' % (u.name, inst[0], c.name, o.name), o)
                if c.engine in ('B', 'N'):
                    bounded.append(rec)
                else:
                    obl.append(rec)
        discharged = [r for r in obl if r[1].status == 'SUCCESS']
        samples = []
        seen = set()
        for name, o in obl:
            key = name.split(':')[0]
            if key in seen and len(samples) > 3:
                continue
            seen.add(key)
            samples.append(dict(obligation=name, description=o.desc[:140], status=o.status, backend=o.backend,
                                seconds=round(o.seconds, 3)))
            if len(samples) >= 40:
                break
        funcs = sorted(self.extracted.keys())
        assumed, pre = [], []
        for u in units:
            assumed += [a for a in u.assumed if a not in assumed]
            pre += [p for p in u.preconditions if p not in pre]
        cmds = sorted(set(res['cmd'].split(' ; ')[-1].split(' ')[0] + ' ' + ' '.join(
            x for x in res['cmd'].split(' ; ')[-1].split(' ')[2:] if x.startswith('--')) for (_, _, _, res, _) in self.results))
        ev = dict(
            property_id=self.prop, tier=self.tier, seed=self.seed, level='proof',
            coverage=dict(
                obligations=len(obl), discharged=len(discharged),
                contract_level_obligations=sum(1 for n, o in obl if o.cls in CONTRACT_CLASSES or 'loop_invariant' in o.name or 'loop_decreases' in o.name),
                checker_cmd='./vc check %s --tier %s   [per obligation group: goto-cc --function <harness> unit.c ; goto-instrument --dfcc <harness> --enforce-contract <f> [--replace-call-with-contract <g>] [--apply-loop-contracts] ; %s]' % (
                    self.prop, self.tier, ' | '.join(cmds)[:600]),
                trusted_base=meta.get('trusted_base', []) + [
                    'g++ 12 (binding probe on the real headers: constants, selected specialisation)',
                    'goto-cc C front end, CBMC 6.11 symbolic execution + SAT back end, DFCC contract instrumentation',
                    'extraction rules R1-R14 of vclib/extract.py (body text cut from /repo/include on this run; sha256 of each raw body listed)',
                ],
                samples=samples,
                functions_under_contract=funcs,
                extracted_bodies=self.extracted,
                instantiations=sorted(set('%s/%s' % (u.name, inst[0]) for (u, inst, c, r, t) in self.results)),
                solver_seconds=round(sum(res['seconds'] for (_, _, _, res, _) in self.results), 2),
                check_runs=len(self.results),
                fidelity_cases=getattr(self, 'fid_cases', 0),
                bounded_standins=[dict(obligation=n, status=o.status, bound=o.backend) for n, o in bounded][:50],
                bounded_standin_count=len(bounded),
                assumed_contracts=assumed,
                preconditions_assumed=pre,
                known_findings=self.known_lines,
                undecided=self.undecided[:20],
                not_covered=meta.get('not_covered', []),
                explanation=meta.get('explanation', ''),
            ),
            assumptions=assumed + pre + meta.get('assumptions', []),
            wall_s=round(time.time() - self.t0, 2),
            violations=len(self.violations),
        )
        evdir = os.environ.get('VERIF_EVIDENCE_DIR') or os.path.join(VERIF, 'evidence')
        os.makedirs(evdir, exist_ok=True)
        with open(os.path.join(evdir, self.prop + '.json'), 'w') as f:
            json.dump(ev, f, indent=1)
        return ev


def cmd_check(prop, tier, only_unit=None, only_inst=None, verbose=False):
    seed = int(os.environ.get('VERIF_SEED', '1') or 1)
    tier = os.environ.get('VERIF_TIER', tier) if tier is None else tier
    run = Run(prop, tier, seed)
    try:
        try:
            units, meta = load_units(prop)
        except ImportError as e:
            print('UNDECIDED property=%s reason=no spec module (%s)' % (prop, e))
            return 2
        run.execute(units, only_unit, only_inst)
        ev = run.write_evidence(units, meta)
        cov = ev['coverage']
        print('property %s tier %s: %d obligations, %d discharged, %d check runs, %d functions under contract, '
              'fidelity cases %d, bounded stand-ins %d, %.1fs' % (
                  prop, tier, cov['obligations'], cov['discharged'], cov['check_runs'],
                  len(cov['functions_under_contract']), cov['fidelity_cases'], cov['bounded_standin_count'], ev['wall_s']))
        if verbose:
            for (u, inst, c, res, tag) in run.results:
                bad = [o for o in res['obligations'] if o.status != 'SUCCESS']
                print('  %-50s %3d obligations %3d failed %6.1fs %s' % (
                    '%s.%s.%s' % (u.name, inst[0], c.name), len(res['obligations']), len(bad), res['seconds'], tag or ''))
                for o in bad[:6]:
                    print('      FAIL %s: %s' % (o.name, o.desc[:110]))
        seen_kf = set()
        for line in run.known_lines:
            key = re.sub(r'; witness.*$', '', line)
            if key not in seen_kf:
                seen_kf.add(key)
                print(line)
        for d in getattr(run, 'viol_detail', []):
            print('  detail:', d)
        if run.violations:
            for v in run.violations:
                print(v)
            for u in run.undecided[:12]:
                print('  also undecided: %s' % u.replace('\n', ' ')[:700])
            return 1
        if run.undecided:
            for u in run.undecided[:12]:
                print('UNDECIDED property=%s reason=%s' % (prop, u.replace('\n', ' ')[:700]))
            if len(run.undecided) > 12:
                print('UNDECIDED property=%s reason=... and %d more undecided check runs' % (prop, len(run.undecided) - 12))
            return 2
        if cov['obligations'] == 0 or cov['obligations'] != cov['discharged'] + sum(
                1 for (u, i, c, res, t) in run.results if c.engine not in ('B', 'N') for o in res['obligations'] if o.status != 'SUCCESS'):
            print('UNDECIDED property=%s reason=obligation accounting' % prop)
            return 2
        return 0
    finally:
        run.wd.cleanup()


def cmd_replay(path):
    rec = json.load(open(path))
    units, _ = load_units(rec['property'])
    unit = next(u for u in units if u.name == rec['unit'])
    inst = next(i for i in unit.insts if i[0] == rec['instantiation'])
    chk = next((c for c in unit.checks if rec['check'].startswith(c.name)), unit.checks[0])
    run = Run(rec['property'], 'quick', 1)
    try:
        inputs = {k: (tuple(v) if isinstance(v, list) else v) for k, v in rec['inputs'].items()}
        ok, txt = run.native_replay(unit, inst, chk, inputs, rec['failed_obligations'][0]['name'] if rec['failed_obligations'] else '')
        print(txt)
        print('failed obligations:', ', '.join(o['name'] for o in rec['failed_obligations']))
        return 1 if ok else 0
    finally:
        run.wd.cleanup()


def main(argv):
    sys.path.insert(0, VERIF)
    core.install_cleanup()
    if len(argv) < 2:
        print('usage: vc check <Cxx> [--tier quick|thorough] [--unit pat] [--inst pat] [-v] | vc replay <file> | vc list')
        return 3
    if argv[1] == 'check':
        prop = argv[2]
        tier = 'quick'
        unit = inst = None
        v = False
        i = 3
        while i < len(argv):
            if argv[i] == '--tier':
                tier = argv[i + 1]; i += 2
            elif argv[i] == '--unit':
                unit = argv[i + 1]; i += 2
            elif argv[i] == '--inst':
                inst = argv[i + 1]; i += 2
            elif argv[i] == '-v':
                v = True; i += 1
            else:
                i += 1
        return cmd_check(prop, tier, unit, inst, v)
    if argv[1] == 'replay':
        return cmd_replay(argv[2])
    if argv[1] == 'list':
        for p in sorted(f[:-3] for f in os.listdir(os.path.join(VERIF, 'specs')) if re.match(r'C\d+\.py$', f)):
            units, _ = load_units(p)
            for u in units:
                print(p, u.name, len(u.insts), 'insts', len(u.checks), 'checks')
        return 0
    return 3
