"""Engine Z: CBMC goto program (typed JSON) -> integer-theory VCs -> z3 5.1 command line (DESIGN 3.5).

The C front end, type checking and the insertion of machine-arithmetic side conditions (overflow,
division by zero, shifts) are CBMC's (goto-cc, goto-instrument).  This module symbolically executes
the loop-free goto program of a harness (calls inlined), translating every expression to SMT-LIB Int
terms: + - * exact, / % as C truncating division, unsigned arithmetic and narrowing casts as explicit
mod 2^n, overflow-op predicates as range tests on the exact result.  Each ASSERT is one query,
discharged by `z3-new` (only its default tactic proves these, see DESIGN 2).  Unsupported
instruction / expression => Undecided (exit 2), never a silent skip.
"""
import json
import os
import re

import z3

from .core import sh, Undecided, PRELUDE, pool_map
from .engine_s import Obligation



class Unsupported(Exception):
    pass


def tkind(t):
    i = t['id']
    if i in ('signedbv', 'unsignedbv'):
        return (i, int(t['namedSub']['width']['id']))
    if i == 'bool':
        return ('bool', 1)
    if i == 'c_bool':
        return ('unsignedbv', int(t['namedSub']['width']['id']))
    if i == 'c_enum_tag' or i == 'c_enum':
        return ('signedbv', 32)
    if i == 'pointer':
        return ('pointer', 64)
    if i in ('struct_tag', 'struct'):
        return ('struct', 0)
    if i == 'empty':
        return ('void', 0)
    raise Unsupported('type ' + i)


def trange(k):
    kind, w = k
    if kind == 'signedbv':
        return (-(1 << (w - 1)), (1 << (w - 1)) - 1)
    if kind == 'unsignedbv':
        return (0, (1 << w) - 1)
    raise Unsupported('range of %s' % (k,))


def wrap(term, k):
    lo, hi = trange(k)
    m = hi - lo + 1
    if k[0] == 'unsignedbv':
        return term % m
    return ((term - lo) % m) + lo


def tdiv(a, b):
    """C truncating division on Ints from z3's euclidean div"""
    return z3.If(a >= 0, z3.If(b > 0, a / b, -(a / (-b))), z3.If(b > 0, -((-a) / b), (-a) / (-b)))


def ty(e):
    return e['namedSub']['type']


class SE:
    def __init__(self, fns, params, elide_timeout_ms=2000):
        self.fns, self.params = fns, params
        self.assumes = []      # ASSUME instructions, in program order (an assumption constrains only later assertions)
        self.typefacts = []    # value ranges of the machine types of fresh variables (always valid)
        self.results = []      # (property id, comment, pc, cond, line, func, class, number of assumes in effect)
        self.fresh = 0
        self.inputs = {}
        self.nwrap = 0
        self.curpc = z3.BoolVal(True)
        self.elide_timeout_ms = elide_timeout_ms
        self.depth = 0
        self.initial = {}      # lvalue path -> the variable standing for its value before any write (one per lifetime)
        self.kinds = {}        # lvalue path -> machine type kind, recorded at reads and writes

    def newvar(self, name, k):
        self.fresh += 1
        short = name.split('::')[-1]
        nm = short if short not in self.inputs else '%s#%d' % (short, self.fresh)
        if k[0] == 'bool':
            v = z3.Bool(nm)
        else:
            v = z3.Int(nm)
            lo, hi = trange(k)
            self.typefacts.append(z3.And(v >= lo, v <= hi))
        self.inputs[nm] = v
        return v

    def wrap_elide(self, r, k):
        lo, hi = trange(k)
        sv = z3.Solver()
        sv.set('timeout', self.elide_timeout_ms)
        sv.add(self.typefacts)
        sv.add(self.assumes)
        sv.add(self.curpc)
        sv.add(z3.Or(r < lo, r > hi))
        if str(sv.check()) == 'unsat':
            return r
        self.nwrap += 1
        return wrap(r, k)

    # ---- lvalues
    def lpath(self, e, st):
        i = e['id']
        if i == 'symbol':
            return e['namedSub']['identifier']['id']
        if i == 'member':
            return self.lpath(e['sub'][0], st) + '.' + e['namedSub']['component_name']['id']
        if i == 'dereference':
            p = self.ev(e['sub'][0], st)
            if isinstance(p, tuple) and p[0] == 'addr' and p[1]:
                return p[1]
            raise Unsupported('dereference of a non-address value')
        if i == 'index':
            idx = z3.simplify(self.ev(e['sub'][1], st))
            if not z3.is_int_value(idx):
                raise Unsupported('array index not constant')
            return '%s[%d]' % (self.lpath(e['sub'][0], st), idx.as_long())
        if i == 'typecast':
            return self.lpath(e['sub'][0], st)
        raise Unsupported('lvalue ' + i)

    def read(self, path, t, st):
        k = tkind(t)
        if k[0] == 'struct':
            return ('struct', path)
        self.kinds[path] = k
        if path not in st:
            st[path] = self.initial_value(path, k)
        return st[path]

    def initial_value(self, path, k):
        if k[0] == 'pointer':
            return ('addr', None)
        if path not in self.initial:
            self.initial[path] = self.newvar(path, k)
        return self.initial[path]

    def write(self, path, val, st):
        if isinstance(val, tuple) and val[0] == 'struct':
            src = val[1]
            if src == path:
                return
            # whole-struct assignment: every leaf of the destination is overwritten (a leaf the source never had stays unknown)
            for p in [p for p in list(st.keys()) if p.startswith(path + '.') or p.startswith(path + '[')]:
                del st[p]
            for p in [p for p in list(self.initial.keys()) if p.startswith(path + '.') or p.startswith(path + '[')]:
                del self.initial[p]
            for p in [p for p in list(st.keys()) if p.startswith(src + '.') or p.startswith(src + '[')]:
                st[path + p[len(src):]] = st[p]
                if p in self.kinds:
                    self.kinds[path + p[len(src):]] = self.kinds[p]
        else:
            st[path] = val

    def ev(self, e, st):
        i = e['id']
        sub = e.get('sub', [])
        if i == 'constant':
            t = ty(e)
            k = tkind(t)
            if k[0] == 'bool':
                return z3.BoolVal(e['namedSub']['value']['id'] == 'true')
            if k[0] == 'pointer':
                return ('addr', None)
            v = int(e['namedSub']['value']['id'], 16)
            if k[0] == 'signedbv' and v >= (1 << (k[1] - 1)):
                v -= (1 << k[1])
            return z3.IntVal(v)
        if i in ('symbol', 'member', 'dereference', 'index'):
            return self.read(self.lpath(e, st), ty(e), st)
        if i == 'address_of':
            return ('addr', self.lpath(sub[0], st))
        if i == 'typecast':
            v = self.ev(sub[0], st)
            ks = tkind(ty(sub[0]))
            kd = tkind(ty(e))
            if kd[0] == 'pointer' or kd[0] == 'void':
                return v
            if kd[0] == 'bool':
                return v != 0 if ks[0] != 'bool' else v
            if ks[0] == 'bool':
                return z3.If(v, z3.IntVal(1), z3.IntVal(0))
            ls, hs = trange(ks)
            ld, hd = trange(kd)
            if ls >= ld and hs <= hd:
                return v
            return self.wrap_elide(v, kd) if kd[0] == 'unsignedbv' else wrap(v, kd)
        if i in ('+', '-', '*'):
            k = tkind(ty(e))
            vs = [self.ev(s, st) for s in sub]
            if k[0] == 'unsignedbv' and i == '+':
                # CBMC canonicalises unsigned x - c to x + (2^n - c): read big constants as negative
                half = 1 << (k[1] - 1)
                nv = []
                for v in vs:
                    sv = z3.simplify(v)
                    nv.append(z3.IntVal(sv.as_long() - 2 * half) if (z3.is_int_value(sv) and sv.as_long() >= half) else v)
                vs = nv
            r = vs[0]
            for v in vs[1:]:
                r = r + v if i == '+' else (r - v if i == '-' else r * v)
            if k[0] != 'unsignedbv':
                return r          # signed overflow is an obligation of its own (overflow-op ASSERT)
            return self.wrap_elide(r, k)
        if i == 'unary-':
            k = tkind(ty(e))
            r = -self.ev(sub[0], st)
            return self.wrap_elide(r, k) if k[0] == 'unsignedbv' else r
        if i in ('/', 'mod', 'div'):
            a = self.ev(sub[0], st)
            b = self.ev(sub[1], st)
            q = tdiv(a, b)
            return q if i != 'mod' else a - b * q
        if i in ('=', 'notequal', '<', '<=', '>', '>='):
            a = self.ev(sub[0], st)
            b = self.ev(sub[1], st)
            if isinstance(a, tuple) or isinstance(b, tuple):
                if i in ('=', 'notequal'):
                    eq = (a == b)
                    return z3.BoolVal(eq if i == '=' else not eq)
                raise Unsupported('pointer comparison')
            if z3.is_bool(a) != z3.is_bool(b):
                a = z3.If(a, z3.IntVal(1), z3.IntVal(0)) if z3.is_bool(a) else a
                b = z3.If(b, z3.IntVal(1), z3.IntVal(0)) if z3.is_bool(b) else b
            if i == '=':
                return a == b
            if i == 'notequal':
                return a != b
            if z3.is_bool(a):
                a = z3.If(a, z3.IntVal(1), z3.IntVal(0))
                b = z3.If(b, z3.IntVal(1), z3.IntVal(0))
            return {'<': lambda: a < b, '<=': lambda: a <= b, '>': lambda: a > b, '>=': lambda: a >= b}[i]()
        if i in ('shl', 'lshr', 'ashr'):
            a = self.ev(sub[0], st)
            b = z3.simplify(self.ev(sub[1], st))
            if not z3.is_int_value(b):
                raise Unsupported('shift by non-constant')
            kk = 1 << b.as_long()
            k = tkind(ty(e))
            if i == 'shl':
                return self.wrap_elide(a * kk, k) if k[0] == 'unsignedbv' else a * kk
            return a / kk       # z3 Int div is floor for a positive divisor
        if i == 'bitand':
            # only masks of the form 2^k - 1 (remainder) are in the fragment
            a = self.ev(sub[0], st)
            b = z3.simplify(self.ev(sub[1], st))
            if z3.is_int_value(b) and (b.as_long() & (b.as_long() + 1)) == 0 and tkind(ty(e))[0] == 'unsignedbv':
                return a % (b.as_long() + 1)
            raise Unsupported('bitand with a non-mask operand')
        if i == 'and':
            return z3.And([self.ev(s, st) for s in sub])
        if i == 'or':
            return z3.Or([self.ev(s, st) for s in sub])
        if i == 'not':
            return z3.Not(self.ev(sub[0], st))
        if i == '=>':
            return z3.Implies(self.ev(sub[0], st), self.ev(sub[1], st))
        if i == 'if':
            c = self.ev(sub[0], st)
            a = self.ev(sub[1], st)
            b = self.ev(sub[2], st)
            if isinstance(a, tuple) or isinstance(b, tuple):
                raise Unsupported('conditional pointer')
            return z3.If(c, a, b)
        if i.startswith('overflow-'):
            op = i[len('overflow-'):]
            k = tkind(ty(sub[0]))
            lo, hi = trange(k)
            if op == 'unary-':
                r = -self.ev(sub[0], st)
            elif op == 'shl':
                a = self.ev(sub[0], st)
                b = z3.simplify(self.ev(sub[1], st))
                if not z3.is_int_value(b):
                    raise Unsupported('overflow-shl by non-constant')
                r = a * (1 << b.as_long())
            else:
                a = self.ev(sub[0], st)
                b = self.ev(sub[1], st)
                if op not in '+-*':
                    raise Unsupported('overflow-' + op)
                r = {'+': a + b, '-': a - b, '*': a * b}[op]
            return z3.Or(r < lo, r > hi)
        if i == 'side_effect' and e['namedSub'].get('statement', {}).get('id') == 'nondet':
            return self.newvar('nondet', tkind(ty(e)))
        if i == 'nondet_symbol':
            return self.newvar('nondet', tkind(ty(e)))
        raise Unsupported('expr ' + i)

    def run(self, fname, st, pc):
        if fname not in self.fns or not self.fns[fname]:
            raise Unsupported('call to function without body: ' + fname)
        self.depth += 1
        if self.depth > 40:
            raise Unsupported('call depth')
        ins = self.fns[fname]
        idx = {x['locationNumber']: n for n, x in enumerate(ins)}
        # map target numbers
        tmap = {}
        for n, x in enumerate(ins):
            if 'targetNumber' in x or 'label' in x:
                pass
        pending = {}
        cur = (pc, st)
        n = 0
        while n < len(ins):
            x = ins[n]
            inc = pending.pop(n, [])
            states = ([cur] if cur is not None else []) + inc
            if not states:
                n += 1
                continue
            if len(states) == 1:
                pc, st = states[0]
            else:
                pc = z3.Or([s[0] for s in states])
                st = {}
                keys = set().union(*[set(s[1].keys()) for s in states])
                for kx in keys:
                    if any(kx not in s[1] for s in states):
                        # written on some incoming paths only: the other paths still hold the value from before the branch
                        if kx in self.kinds:
                            for s_ in states:
                                if kx not in s_[1]:
                                    s_[1][kx] = self.initial_value(kx, self.kinds[kx])
                    vals = [(s[0], s[1][kx]) for s in states if kx in s[1]]
                    v = vals[-1][1]
                    for g, vv in reversed(vals[:-1]):
                        if isinstance(vv, tuple) or isinstance(v, tuple):
                            if vv != v:
                                v = ('addr', None) if (isinstance(vv, tuple) and isinstance(v, tuple)) else vv
                        elif vv is not v:
                            v = z3.If(g, vv, v)
                    st[kx] = v
            cur = (pc, st)
            self.curpc = pc
            op = x['instructionId']
            if op in ('SKIP', 'LOCATION', 'DEAD', 'END_FUNCTION', 'ATOMIC_BEGIN', 'ATOMIC_END'):
                pass
            elif op == 'DECL':
                sym = self.lpath(x['code']['sub'][0], st) if 'code' in x else x['instruction'].split('DECL ')[1].split(' :')[0].strip()
                for p in [p for p in st if p == sym or p.startswith(sym + '.') or p.startswith(sym + '[')]:
                    del st[p]
                for p in [p for p in self.initial if p == sym or p.startswith(sym + '.') or p.startswith(sym + '[')]:
                    del self.initial[p]
            elif op == 'ASSUME':
                self.assumes.append(z3.Implies(pc, self.ev(x['guard'], st)))
            elif op == 'ASSERT':
                sl = x.get('sourceLocation', {})
                if sl.get('propertyClass') == 'overflow' and (sl.get('function', '').startswith(('hz_', 'ALLOC_', 'VIEW_', 'GHOST_')) or sl.get('function', '').endswith('_contract')):
                    # machine-overflow side conditions on SPECIFICATION arithmetic (harness / ghost contract code): engine Z
                    # evaluates specification terms over the mathematical integers, so they cannot wrap - no obligation
                    n += 1
                    continue
                c = self.ev(x['guard'], st)
                self.results.append((sl.get('propertyId', '?'), sl.get('comment', ''), pc, c,
                                     sl.get('line', ''), sl.get('function', ''), sl.get('propertyClass', ''), len(self.assumes)))
            elif op == 'GOTO':
                g = self.ev(x['guard'], st) if 'guard' in x else z3.BoolVal(True)
                tgt = idx[x['targets'][0]] if x['targets'][0] in idx else None
                if tgt is None:
                    raise Unsupported('goto target')
                if tgt <= n:
                    if z3.is_false(z3.simplify(g)):      # `do { ... } while (0)`: the back edge is never taken
                        n += 1
                        continue
                    raise Unsupported('backward goto (loop) in %s' % fname)
                pending.setdefault(tgt, []).append((z3.And(pc, g), dict(st)))
                ng = z3.simplify(z3.And(pc, z3.Not(g)))
                cur = None if z3.is_false(ng) else (ng, st)
            elif op == 'ASSIGN':
                lhs, rhs = x['code']['sub'][0], x['code']['sub'][1]
                lp = self.lpath(lhs, st)
                try:
                    self.kinds[lp] = tkind(ty(lhs))
                except Unsupported:
                    pass
                self.write(lp, self.ev(rhs, st), st)
            elif op == 'FUNCTION_CALL':
                code = x['code']['sub']
                lhs, fn, args = code[0], code[1], code[2].get('sub', [])
                callee = fn['namedSub']['identifier']['id']
                for prm, a in zip(self.params[callee], args):
                    self.write(prm, self.ev(a, st), st)
                _, st = self.run(callee, st, pc)
                if lhs['id'] != 'nil':
                    self.write(self.lpath(lhs, st), st.get(callee + '#return_value'), st)
                cur = (pc, st)
            elif op == 'SET_RETURN_VALUE':
                val = self.ev(x['code']['sub'][0], st)
                key = fname + '#return_value'
                # several returns merge under the path condition: a struct value is copied leaf by leaf into <fn>#return_value.*
                if isinstance(val, tuple) and val[0] == 'struct':
                    self.write(key, val, st)
                    st[key] = ('struct', key)
                else:
                    st[key] = val
            else:
                raise Unsupported('instruction ' + op)
            n += 1
        self.depth -= 1
        return cur if cur else (z3.BoolVal(False), st)


def load_goto(gb):
    rc, out, err, _ = sh(['cbmc', '--no-standard-checks', '--show-goto-functions', '--json-ui', gb], timeout=600, mem_kb=None)
    try:
        d = json.loads(out)
    except ValueError:
        raise Undecided('cannot read goto functions: ' + (out + err)[-500:])
    fns, params = {}, {}
    for e in d:
        if 'functions' in e:
            for f in e['functions']:
                fns[f['name']] = f.get('instructions', [])
                params[f['name']] = f.get('parameterIdentifiers', [])
    return fns, params


import threading
_FAILURE_SEEN = threading.Event()


def solve(job):
    path, timeout, is_vacuity = job
    if _FAILURE_SEEN.is_set():
        # a counterexample of a real obligation exists already: the check fails whatever the remaining queries say; do not spend
        # the full time-out on each of them (a changed body typically makes many of them hard)
        timeout = min(timeout, 10)
    rc, out, err, secs = sh(['z3-new', '-T:%d' % timeout, path], timeout=timeout + 20)
    toks = out.split()
    r = toks[0] if toks and toks[0] in ('sat', 'unsat') else 'unknown'
    model = {}
    if r == 'sat':
        for m in re.finditer(r'\(\(?\|?([^\s()|]+)\|?\s+(\(-\s*\d+\)|-?\d+|true|false)\)', out):
            v = m.group(2)
            if v.startswith('('):
                v = '-' + re.sub(r'\D', '', v)
            model[m.group(1)] = int(v) if v not in ('true', 'false') else (1 if v == 'true' else 0)
    if r == 'sat' and not is_vacuity:
        _FAILURE_SEEN.set()
    return r, model, secs


def run(check, unit_c, wd_dir, tier, extra_defines=()):
    """runs the worker below in a process of its own (the z3 python API is not thread safe)"""
    import sys
    job = dict(name=check.name, harness=check.harness, timeout=check.timeout, zopts=check.zopts or {},
               defines=list(check.defines) + list(extra_defines), gi_flags=list(check.gi_flags),
               no_vacuity=check.no_vacuity, unit_c=unit_c, wd_dir=wd_dir, tier=tier)
    jpath = os.path.join(wd_dir, check.name + '.zjob.json')
    with open(jpath, 'w') as f:
        json.dump(job, f)
    limit = (check.timeout or (60 if tier == 'quick' else 600)) * 4 + 300
    verif = os.path.dirname(os.path.dirname(os.path.abspath(__file__)))
    rc, out, err, secs = sh([sys.executable, '-B', '-m', 'vclib.engine_z', jpath], cwd=verif, timeout=limit,
                            mem_kb=16 * 1024 * 1024)
    try:
        res = json.loads(out)
    except ValueError:
        raise Undecided('engine Z worker failed on %s: %s' % (check.name, (out + err)[-1500:]))
    if 'undecided' in res:
        raise Undecided(res['undecided'])
    obls = []
    for d in res['obligations']:
        o = Obligation(d['name'], d['status'], d['desc'], d['cls'], d['line'], d['seconds'], 'z3-5.1-int', d['func'])
        o.file = ''
        if d.get('model') is not None:
            o.model = d['model']
        obls.append(o)
    res['obligations'] = obls
    return res


class _Job:
    def __init__(self, d):
        self.__dict__.update(d)


def work(check, unit_c, wd_dir, tier):
    tag = check.name
    gb = os.path.join(wd_dir, tag + '.z.gb')
    gb2 = os.path.join(wd_dir, tag + '.zc.gb')
    timeout = check.timeout or (60 if tier == 'quick' else 600)
    zopts = check.zopts or {}
    defs = ['-D' + d for d in list(check.defines)]
    cmd = ['goto-cc', '-DVERIF_CBMC', '-DVERIF_Z', '-I', PRELUDE, '-I', wd_dir] + defs + ['--function', check.harness, unit_c, '-o', gb]
    rc, out, err, _ = sh(cmd, timeout=120)
    if rc != 0:
        raise Undecided('goto-cc failed [%s]: %s' % (tag, (out + err)[-2000:]))
    gi = ['goto-instrument', '--no-pointer-check', '--no-bounds-check', '--no-pointer-primitive-check', '--signed-overflow-check', '--div-by-zero-check', '--undefined-shift-check']
    if zopts.get('unsigned_overflow', False):
        gi.append('--unsigned-overflow-check')
    gi += ['--drop-unused-functions'] + list(check.gi_flags) + [gb, gb2]
    rc, out, err, _ = sh(gi, timeout=120)
    if rc != 0:
        raise Undecided('goto-instrument failed [%s]: %s' % (tag, (out + err)[-2000:]))
    fns, params = load_goto(gb2)
    if True:
        se = SE(fns, params, zopts.get('elide_timeout_ms', 2000))
        try:
            se.run(check.harness, {}, z3.BoolVal(True))
        except Unsupported as e:
            raise Undecided('engine Z: unsupported construct in %s: %s' % (tag, e))
        queries = []
        prior = []
        for n, (pid, comment, pc, cond, line, func, cls, nass) in enumerate(se.results):
            s = z3.Solver()
            s.add(se.typefacts)
            s.add(se.assumes[:nass])
            s.add(prior)
            s.add(pc)
            s.add(z3.Not(cond))
            path = os.path.join(wd_dir, '%s.q%d.smt2' % (tag, n))
            names = sorted(se.inputs.keys())
            getv = '(get-value (%s))\n' % ' '.join('|%s|' % nm for nm in names) if names else ''
            with open(path, 'w') as f:
                f.write(s.to_smt2().replace('(check-sat)', '(check-sat)\n' + getv))
            queries.append((path, timeout, comment.startswith('VACUITY')))
            if not comment.startswith('VACUITY'):
                prior.append(z3.Implies(pc, cond))
    if not queries:
        raise Undecided('engine Z generated no obligations for ' + tag)
    import concurrent.futures as cf
    with cf.ThreadPoolExecutor(max_workers=int(zopts.get('jobs', 4))) as pool:
        answers = list(pool.map(solve, queries))
    obls, vac = [], []
    total = 0.0
    for (pid, comment, pc, cond, line, func, cls, nass), (r, model, secs) in zip(se.results, answers):
        total += secs
        status = {'unsat': 'SUCCESS', 'sat': 'FAILURE', 'unknown': 'UNKNOWN'}[r]
        o = dict(name=pid, status=status, desc=comment, cls=cls or 'assertion', line=line, seconds=secs, func=func, model=None)
        if r == 'sat':
            o['model'] = {k.split('#')[0]: v for k, v in model.items() if '#' not in k}
        if comment.startswith('VACUITY'):
            vac.append(o)
        else:
            obls.append(o)
    if not check.no_vacuity:
        if not vac:
            raise Undecided('harness %s has no VACUITY must-fail assertion' % check.harness)
        # (a failing obligation is assumed by the later queries, so it can make the end of the harness unreachable:
        #  that is a violation to report, not a vacuous proof)
        if any(v['status'] != 'FAILURE' for v in vac) and not any(o['status'] == 'FAILURE' for o in obls):
            raise Undecided('vacuous (engine Z): must-fail assertion in %s is %s' % (check.harness, vac[0]['status']))
    unk = [o for o in obls if o['status'] == 'UNKNOWN']
    if unk and any(o['status'] == 'FAILURE' for o in obls):
        # counterexamples were found: report them; the undecided queries are dropped from the obligation list (they were cut short)
        obls = [o for o in obls if o['status'] != 'UNKNOWN']
        unk = []
    if unk:
        raise Undecided('engine Z: z3 gave unknown/time-out on %s: %s' % (tag, ', '.join('%s[%s]' % (o['name'], o['desc'][:60]) for o in unk[:4])))
    return dict(obligations=obls, log='', seconds=total,
                cmd=' ; '.join([' '.join(cmd), ' '.join(gi), 'vclib/engine_z.py (goto JSON -> SMT-LIB Int) ; z3-new -T:%d <query>.smt2' % timeout]),
                vacuity=vac, wraps_kept=se.nwrap)


if __name__ == '__main__':
    import sys
    from .core import install_cleanup
    install_cleanup()
    job = _Job(json.load(open(sys.argv[1])))
    try:
        print(json.dumps(work(job, job.unit_c, job.wd_dir, job.tier)))
    except Undecided as e:
        print(json.dumps(dict(undecided=str(e))))
    except Unsupported as e:
        print(json.dumps(dict(undecided='engine Z: unsupported: %s' % e)))
