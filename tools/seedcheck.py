#!/usr/bin/env python3
"""Confirm a sub-agent's seeded change and store it under /verif/seeded/<name>/.

usage: seedcheck.py confirm <name> <prop> <dir with patch.diff demo.cpp meta.json>
         - in the scratch worktree /tmp/wt_confirm (created on demand from /repo HEAD): apply the patch,
           build + run the 132 tests, build the demo with and without the patch
       seedcheck.py run <name> [--tier quick]     apply seeded/<name>/patch.diff to /repo, run ./vc check, undo
"""
import json
import os
import shutil
import subprocess
import sys

VERIF = os.path.dirname(os.path.dirname(os.path.abspath(__file__)))
WT = '/tmp/wt_confirm'


def sh(cmd, **kw):
    return subprocess.run(cmd, shell=True, capture_output=True, text=True, **kw)


def ensure_wt():
    if not os.path.isdir(WT):
        r = sh('git -C /repo worktree add --detach %s HEAD' % WT)
        assert r.returncode == 0, r.stderr
    sh('git -C %s checkout -q -- . && git -C %s checkout -q --detach %s' % (WT, WT, sh('git -C /repo rev-parse HEAD').stdout.strip()))
    if not os.path.isdir(WT + '/_build'):
        r = sh('cd %s && cmake -G Ninja -S . -B _build -DCMAKE_BUILD_TYPE=RelWithDebInfo -DBOOST_GIL_BUILD_EXAMPLES=OFF '
               '-DBOOST_GIL_BUILD_HEADER_TESTS=OFF -DCMAKE_CXX_FLAGS=-Wno-error' % WT)
        assert r.returncode == 0, r.stderr[-2000:]


def confirm(name, prop, src):
    ensure_wt()
    out = os.path.join(VERIF, 'seeded', name)
    os.makedirs(out, exist_ok=True)
    patch = os.path.join(src, 'patch.diff')
    demo = os.path.join(src, 'demo.cpp')
    log = {}
    # demo without the change
    r = sh('g++ -std=c++14 -O1 -w -I %s/include %s -o /tmp/seed_demo_clean && /tmp/seed_demo_clean' % (WT, demo), timeout=900)
    log['demo_without_change'] = dict(rc=r.returncode, tail=(r.stdout + r.stderr)[-300:])
    r = sh('git -C %s apply %s' % (WT, patch))
    if r.returncode != 0:
        print('patch does not apply:', r.stderr)
        return 1
    try:
        r = sh('cd %s && cmake --build _build -j16 2>&1 | tail -3 && ctest --test-dir _build -j8 2>&1 | tail -4' % WT, timeout=3600)
        log['tests_with_change'] = r.stdout[-400:]
        r2 = sh('g++ -std=c++14 -O1 -w -I %s/include %s -o /tmp/seed_demo_changed && /tmp/seed_demo_changed' % (WT, demo), timeout=900)
        log['demo_with_change'] = dict(rc=r2.returncode, tail=(r2.stdout + r2.stderr)[-300:])
    finally:
        sh('git -C %s checkout -q -- .' % WT)
    ok = ('100% tests passed' in log['tests_with_change'] and 'out of 132' in log['tests_with_change']
          and log['demo_without_change']['rc'] == 0 and log['demo_with_change']['rc'] != 0)
    meta = {}
    try:
        meta = json.load(open(os.path.join(src, 'meta.json')))
    except Exception as e:
        meta = {'note': 'sub-agent meta.json unreadable: %s' % e}
    meta.update(property=prop, confirmed=ok, confirmation=log,
                what_i_ran='tools/seedcheck.py confirm: scratch worktree /tmp/wt_confirm at /repo HEAD; git apply patch.diff; '
                           'cmake --build + ctest (132 tests); g++ -std=c++14 demo.cpp against patched and unpatched include/')
    shutil.copy(patch, os.path.join(out, 'patch.diff'))
    shutil.copy(demo, os.path.join(out, 'demo.cpp'))
    json.dump(meta, open(os.path.join(out, 'meta.json'), 'w'), indent=1)
    print(json.dumps(log, indent=1))
    print('CONFIRMED' if ok else 'NOT CONFIRMED')
    return 0 if ok else 1


def run(name, tier='quick', extra=''):
    d = os.path.join(VERIF, 'seeded', name)
    meta = json.load(open(os.path.join(d, 'meta.json')))
    prop = meta['property']
    assert sh('git -C /repo status --porcelain --untracked-files=no').stdout.strip() == '', '/repo has local edits'
    r = sh('git -C /repo apply %s/patch.diff' % d)
    if r.returncode != 0:
        print('patch does not apply:', r.stderr)
        return 1
    try:
        r = sh('cd %s && VERIF_EVIDENCE_DIR=/tmp/seed_evidence VERIF_NO_FIDELITY=1 VERIF_FAIL_FAST=1 ./vc check %s --tier %s %s' % (VERIF, prop, tier, extra), timeout=7200)
        lines = [l for l in r.stdout.split('\n') if l.startswith(('VIOLATION', 'UNDECIDED', 'KNOWN', 'property', '  detail'))]
        print('\n'.join(l[:400] for l in lines))
        print('exit', r.returncode)
        meta.setdefault('detection', {})[tier] = dict(exit=r.returncode, lines=[l[:300] for l in lines if not l.startswith('  detail')][:12])
        json.dump(meta, open(os.path.join(d, 'meta.json'), 'w'), indent=1)
        return r.returncode
    finally:
        sh('git -C /repo checkout -- .')


if __name__ == '__main__':
    if sys.argv[1] == 'confirm':
        sys.exit(confirm(sys.argv[2], sys.argv[3], sys.argv[4]))
    if sys.argv[1] == 'run':
        tier = 'quick'
        extra = ''
        if '--tier' in sys.argv:
            tier = sys.argv[sys.argv.index('--tier') + 1]
        if '--extra' in sys.argv:
            extra = sys.argv[sys.argv.index('--extra') + 1]
        sys.exit(run(sys.argv[2], tier, extra))
