#!/usr/bin/env python3-vt
"""Regenerates /verif/MANIFEST.json from the table below and validates it against the schema."""
import json
import os
import sys

VERIF = os.path.dirname(os.path.dirname(os.path.abspath(__file__)))

TRUST = ('Trusted: g++ 12 binding probe (constants / selected specialisation from the real headers), goto-cc C front end, '
         'CBMC 6.11 + DFCC contract instrumentation, z3 5.1 (engine Z), the extraction rules R1-R14 (body text is cut from '
         '/repo/include on every run and differentially run against the real C++ instantiation), IEEE-754 round-to-nearest. ')

CLAIMED = {
    'C07': dict(
        text='Contract proof over the real bodies of div255, div32768, the four channel_multiplier_unsigned bodies, '
             'channel_multiplier::operator(), the signed shift functors, packed_channel_value ctor and channel_invert: '
             'within-one-unit, range, commutativity, monotonicity, identity/annihilator, exact inversion and involution '
             'hold for every channel value of u8/u16/i8/i16/f32/packed (quick) and u32/i32/more packed widths (thorough).',
        note=TRUST + 'Not decided: monotonicity of the IEEE float product for float32 channels.',
        technique='function contracts (requires/ensures/assigns) enforced per function by CBMC DFCC and by integer-theory VCs (z3) on extracted real bodies; lemmas over contracts',
        design='4/C07'),
}

CLAIMED['C06'] = dict(
    text='Contract proof, for each ordered pair of channel models, of the channel_converter_unsigned body that g++ selects '
         '(dispatch read from the real class hierarchy), the signed shift functors and channel_converter::operator(): '
         'min->min, max->max, in range, less than one destination unit from the exact linear map (float32 tolerance where a '
         'float/32-bit channel is involved), monotone, and round trip through a channel with at least as many levels. '
         'Quick: 32 pairs over u8/u16/u32/i8/i16/i32/f32/packed; thorough: all 9x9 pairs plus packed widths.',
    note=TRUST + 'Generic double converter and the uintmax_t specialisation are never selected for provided models (not verified). '
         'Float<->16/32-bit pairs are proved only in the thorough tier.',
    technique='function contracts on the extracted real bodies; integer pairs by integer-theory VCs (z3 5.1), double/float bodies by CBMC DFCC contract enforcement; two-point lemmas over the bodies',
    design='4/C06')

CLAIMED['C08'] = dict(
    text='Contract proof over the real bodies of packed_channel_reference / packed_dynamic_channel_reference (get, set_unsafe, '
         'set_from_reference, operator=), the proxy arithmetic of packed_channel_reference_base (set, ++, --, +=, -=, *=, /=), '
         'get_data/set_data/static_copy_bytes and the bit cursor (bit_range ++/--/bit_advance/bit_distance_to, '
         'bit_aligned_pixel_iterator advance/distance_to) and at_c<K>(bit_aligned_pixel_reference) (the channel reference starts sum_k bits after the pixel and satisfies the precondition of the reference it constructs): a write stores the value, reads back, changes no other bit of the '
         'carrier and no neighbouring byte, for every carrier content; cursor moves are exact and invertible for buffers up to 2^40 bytes.',
    note=TRUST + 'Carrier/width instantiations are a finite list (8/16/32/64-bit carriers, widths 1..32); whole-pixel swap/fill/copy '
         'drivers (template recursion) are not extracted; bit_range accessors inlined by rule.',
    technique='function contracts with frame (assigns) clauses enforced by CBMC DFCC on the extracted real bodies, callees replaced by their contracts; lemma harnesses over contracts',
    design='4/C08')

CLAIMED['C03'] = dict(
    text='Contract proof (integer theory, unbounded within width <= 2^20, |d| <= 2^40, strides <= 2^40) of iterator_from_2d '
         'increment/decrement/advance/distance_to/equal with the representation invariant 0 <= x < width and locator == coordinates; '
         'memory_based_2d_locator offset/+=/-=/cache_location/operator()/x_at/is_1d_traversable/y_distance_to; memunit_step_fn and '
         'the step-iterator ordering operators (also over a base that is itself a step iterator with any non-zero step); planar_pixel_iterator operator[] / distance_to / memunit_step / memunit_distance; the bit cursor. Random-access laws, end()-begin() == w*h, at(x,y)/begin()[y*w+x]/'
         'rbegin()[...] reaching pixel (x,y) and path-independence of locator moves are lemmas over those bodies/contracts.',
    note=TRUST + 'Assumed: boost::iterator_facade operator plumbing; memunit_advance/distance/step of raw, planar and step iterators '
         '(one-line bodies) follow the address model a += d; image_view accessor bodies enter through their index expressions.',
    technique='function contracts and lemma harnesses discharged as integer-theory VCs (goto program -> z3 5.1) on extracted real bodies; CBMC DFCC for the bit cursor',
    design='4/C03')

CLAIMED['C02'] = dict(
    text='Contract proof (integer theory; arbitrary source strides incl. negative and transposed, w,h <= 2^20) that each of '
         'flipped_up_down/left_right, transposed, rotated90cw/ccw/180, subimage (both overloads) and subsampled views has the '
         'documented dimensions and that its pixel (x,y) has exactly the address of the documented source pixel (shallow), over the '
         'real factory bodies, the real locator stepping constructors (mem-initialiser expressions), offset, operator+= and xy_at; '
         'plus the algebra flip^2 = id, rot90cw^4 = id, rot180 = flipLR o flipUD, rot90ccw o rot90cw = id; '
         'nth_channel_view / kth_channel_view of basic views (both make bodies and the `adjacent` dispatch predicate, 10 source view types incl. planar and step): '
         'pixel (x,y) of the result has the address of channel n of source pixel (x,y); make_step_iterator over compound iterators (dereference adaptors over step iterators) installs the requested step and keeps every adaptor\'s function object.',
    note=TRUST + 'channel views of non-basic views, color_converted_view (C09), virtual locators and dynamic-image factories are not covered. '
         'View/locator constructors and make_step_iterator are assumed to store their arguments.',
    technique='function contracts with ghost coordinates, discharged as integer-theory VCs (goto program -> z3 5.1) on extracted real bodies',
    design='4/C02')

CLAIMED['C01'] = dict(
    text='Contract proof over the real bodies of align, get_row_size_in_memunits, total_allocated_size_in_bytes, allocate_, create_view and '
         'the four recreate overloads / constructors: the layout contract (every pixel access of the view built over a block of '
         'total_allocated_size_in_bytes(dims) bytes lies inside the block; first pixel and rows aligned) is proved on the real bodies for '
         'unbounded w,h <= 2^20 per listed alignment value (11 values in the quick tier, every alignment 0..64 and a spread up to 4096 in the thorough tier); every pixel operation inside the '
         'image operations is lowered to an ACCESS obligation (view inside one live block), proved for interleaved, planar and bit-aligned images (for the latter an access covers the sizeof(BitField) bytes the channel accessors load).',
    note=TRUST + 'A symbolic alignment (% by a symbolic divisor) times out in z3 and is not registered; caller-supplied buffers and '
         'derived views rely on C02 (every derived pixel is a source pixel); the allocator is a ghost block table.',
    technique='function contracts (layout contract as callee contract, ghost allocator, representation invariant) discharged as integer-theory VCs (goto program -> z3 5.1) on extracted real bodies',
    design='4/C01')
CLAIMED['C10'] = dict(
    text='Representation invariant (owns exactly one live block of the recorded size and allocator, or none; view inside it; rows aligned) proved '
         'to be established by every constructor and preserved by copy/move construction, copy/move assignment (both allocator-propagation modes), '
         'swap and the four recreate overloads, each harness closed by the destructors with the ghost allocator showing no live block and no '
         'mismatched/double deallocate: leak-freedom over any history of non-throwing operations follows by induction.',
    note=TRUST + 'Exception paths (try/catch roll-back), element-wise construct/destruct balance and converting copies / any_image are not verified; '
         'allocator modelled by a three-block ghost table; pixel loops abstracted to ACCESS obligations.',
    technique='representation-invariant contracts with a ghost allocator, history-closing harnesses, integer-theory VCs (z3 5.1) on extracted real bodies; callee layout contract',
    design='4/C10')

CLAIMED['C20'] = dict(
    text='Contract proof with loop contracts (unbounded, |coordinates| <= 10^6) that bresenham_line_rasterizer writes exactly point_count() '
         'points, first = start, last = end, strictly monotone and 8-connected along the major axis up to the final step; that '
         'midpoint_circle_rasterizer (radius <= 4096) writes 8 points per step, exactly its step count, all inside the bounding box; that '
         'apply_rasterizer writes exactly point_count() pixels, each emitted in the current call; that midpoint_ellipse_rasterizer::draw_curve writes only pixels inside the view and writes every one of the four reflections of a trajectory point that lies inside the view (any view shape, any one-based centre). Bounding box / one-pixel closeness of the '
         'line, closeness / symmetry of the circle and the first-quadrant trajectory of the ellipse (bbox, start, connectivity, painted set) are bounded native stand-ins on the real code, not proofs.',
    note=TRUST + 'Known finding C20-line-overshoot (slope (|dy|+1)/(|dx|+1)) is carved out by its exact failing set. Trigonometric circle, '
         'obtain_trajectory of the ellipse (stand-in only) and ellipse closeness are not covered. Output iterators / std::vector are ghost models.',
    technique='function contracts + loop contracts (invariants, decreases) enforced by CBMC DFCC on extracted real bodies with a ghost emission monitor; bounded native exhaustive stand-ins for float-dependent clauses',
    design='4/C20')

CLAIMED['C09'] = dict(
    text='Contract proof for 8-bit pixels over the real bodies of rgb_to_luminance (integer path), gray->rgb, rgb->gray, rgb->cmyk, cmyk->rgb, '
         'cmyk->gray, <C1,rgba_t> and <rgba_t,C2>: luminance within one unit of 0.30r+0.59g+0.11b, monotone, (v,v,v)->v exactly; black->black and '
         'white->white between rgb and cmyk; rgb->cmyk->rgb within one level (256 partition cells over the black level, all rgb8 pixels); to-rgba '
         'pairs channels BY COLOUR NAME for rgba/bgra/argb/abgr destinations and sets alpha to max (alpha_or_max is the channel range maximum also for 16-bit and float pixels); from-rgba is the conversion of the alpha-premultiplied rgb (rgb and cmyk destinations; transparent -> cmyk black). '
         'Pixels are arrays in memory order with get_color indices measured on the real pixel types.',
    note=TRUST + '16-bit/float pixel instantiations, same-colour-space conversion (static_for_each), color_convert_deref_fn and copy_and_convert_pixels are not covered; '
         '8-bit channel_convert identity taken from C06.',
    technique='function contracts enforced by CBMC DFCC / integer VCs on extracted real bodies, callee contracts for channel_invert / channel_multiply / luminance; partitioned composition lemma',
    design='4/C09')

CLAIMED['C16'] = dict(
    text='Contract proof of the six per-channel lambdas of threshold_binary / threshold_truncate (exact documented comparison for every channel '
         'value, u8/u16/i16) and of detail::morph_impl with loop contracts on all four loops and a ghost neighbour: every read/write in bounds, every '
         'destination pixel written, erode <= src <= dilate, and dilate >= (erode <=) EVERY in-image neighbour under a non-zero structuring-element '
         'entry, for views up to 10^5 x 10^5 and kernels up to 1000 x 1000 (float32 and 8-bit channels); detail::threshold_impl writes every destination pixel exactly once from the source pixel of the same coordinates and never indexes a row iterator past its row in a non-traversable view. Otsu is a bounded native stand-in (UBSan).',
    note=TRUST + 'Median filter, adaptive threshold, opening/closing algebra and the existence half of the extremum (result is one of the inputs) are not covered; '
         'the empty-image case of threshold_optimal was a known finding until it was repaired (fixed entry in known_findings.json); view access is the ghost VIEW_READ/VIEW_WRITE model.',
    technique='function contracts and nested loop contracts with a ghost neighbour (CBMC DFCC) on extracted real bodies; bounded native stand-in for Otsu',
    design='4/C16')

CLAIMED['C18'] = dict(
    text='hsv and hsl only. Proof over the real bodies of rgb->hsv, hsv->rgb and rgb->hsl for ALL float inputs in [0,1]: every result channel is assigned on every path and lies '
         'in its range, greys ignore hue, hsv hue 1 == hue 0 (hsl: thorough tier) (loop-free harnesses over symbolic floats = complete). Exact round trip '
         'rgb8 -> hsv/hsl -> rgb8 and the intermediate ranges are decided by running the real code on ALL 2^24 rgb8 pixels (complete enumeration).',
    note=TRUST + 'xyz, lab, ycbcr, cmyka, gray_alpha and the luminance converter are not covered (powf/cbrt have no usable model). hsl hue periodicity is proved in the thorough tier only; hsl->rgb definedness / range for arbitrary float inputs times out on every back end and is not registered (it is exercised by the complete rgb8 enumeration only). CBMC float model = IEEE-754 round-to-nearest.',
    technique='lemma harnesses with the contract clauses over symbolic floats on extracted real bodies (CBMC SAT / cvc5); complete native enumeration of the rgb8 domain',
    design='4/C18')

CLAIMED['C17'] = dict(
    text='Samplers, rounding, channel cast and matrix3x2 algebra (product, point transform, get_translate / get_scale, identity, inverse checked over the mathematical integers: transform(m1*m2,p) = transform(m2, transform(m1,p)), associativity, inverse(m)*m = identity; floating-point rounding of the matrix code is not modelled). Samplers only. Proof over the real bodies of iround/ifloor (float, double), sample(nearest_neighbor_sampler) and sample(bilinear_sampler) for every '
         'sample point |p| <= 10^6 and every view size up to 10^5 x 10^5 (incl. empty and 1-pixel-wide/high): a point reported outside leaves the result '
         'untouched; inside => 1, 2 or 4 source pixels are read, all INSIDE the source view, all among the pixels surrounding the point, every weight in '
         '[0,1]; at integer coordinates the total weight is exactly 1; nearest reads the nearest pixel; detail::cast_channel_fn reproduces an integral accumulator exactly and stays inside the hull of the surrounding values (float/double accumulators, signed and unsigned 8/16/32-bit channels).',
    note=TRUST + 'Weights summing to 1 for arbitrary (non-integer) points is not proved (sums of float products time out; not registered); resample_pixels driver, resize_view identity, '
         'matrix3x2 algebra and lanczos scaling are not covered. Locator moves and pixel accumulation are the ghost ACCUM model.',
    technique='lemma harnesses with contract clauses over symbolic floats on extracted real bodies (CBMC, loop-free => complete), ghost accumulation monitor with ACCESS preconditions',
    design='4/C17')

CLAIMED['C05'] = dict(
    text='Partial. Contract proof of the layout-converting constructors of homogeneous_color_base (N = 3, 4; mem-initialiser lists cut from '
         'color_base.hpp, mapping_transform values bound by g++ on the real headers, memory index of each colour name measured on real pixel objects): '
         'after dst(src) every named colour of dst equals that of src, for all 4 ordered pairs of rgb/bgr and all 16 ordered pairs of '
         'rgba/bgra/argb/abgr, over fully symbolic channel values; semantic_at_c<K> == at_c<mapping[K]> and the mapping is a permutation. Also: both reference forms (const&, l-value) of the converting constructors '
         'for N = 2..5 over user-style layouts of devicen_t<N> (the K-th colour of dst is the K-th colour of src, memory positions read off channel_mapping_t), the 30 at(integral_constant<int,K>) accessors, and the '
         'planar channel-pointer / channel-reference constructors (pointer / reference K addresses the K-th colour of the pixel, shifted by the byte offset). Packed pixels: complete native enumeration of 2^16 bit fields (stand-in).',
    note=TRUST + 'The recursive static_* algorithms and proxy assignment/equality plumbing are template recursion with no arithmetic and are not '
         'extracted; packed / bit-aligned channel positions are under C08.',
    technique='function contracts (CBMC DFCC) on the extracted mem-initialiser lists with compile-time constants bound by the real compiler',
    design='4/C05')

CLAIMED['C04'] = dict(
    text='Partial. Loop-contract proof (unbounded, n <= 2^40) of the three copier_n specialisations behind copy_pixels / std::copy on views that are not '
         '1-D traversable: every pixel g of [0,n) is copied exactly once, from source pixel g (the per-pixel loop in row-major order); every '
         'chunk handed to copy_n lies inside ONE row of each 2-D side, so row padding and neighbouring pixels are never written; nothing beyond n pixels is written. for_each / generate / fill / transform_pixels and the std::fill overload visit every pixel exactly once (1-D fast path only for traversable views); planar fill_aux pairs planes with the value\'s channels by colour. copy_with_2d_iterators hands a side over as one raw run only when that side is 1-D traversable; detail::copy_fn, the two std::copy(pixel*) overloads and the planar std::copy overload copy exactly the n pixels (every plane once); the memcmp fast paths of equal_n_fn (pixel<T,L> pointers, planar pointers) are true exactly when all channel bytes agree.',
    note=TRUST + 'The 2-D iterator forms of equal_n_fn, uninitialized_* and destruct are not built. iterator += k is the C03 advance contract; copy_n on raw iterators is assumed to copy k consecutive pixels; '
         'the 1-D traversability predicate that selects the copier is under contract in C03.',
    technique='function contracts with loop invariants / decreases clauses and a ghost target pixel, enforced by CBMC DFCC on extracted real bodies',
    design='4/C04')

CLAIMED['C15'] = dict(
    text='detail::convolve_2d_impl under four nested loop contracts: every product entering dst(x,y) is src(x+cx-i, y+cy-j)*kernel(i,j), every kernel cell contributes exactly once when its sample lies inside the image (zero extension), every access in range. Partial (index and boundary bookkeeping). reverse_kernel / convolve_rows / convolve_cols: convolution is correlation with the reversed kernel (coefficients and centre) for every kernel. Loop-contract proof of detail::correlate_rows_impl for all five boundary options (one cell per option) and of '
         'kernel left_size/right_size: for EVERY output pixel (ghost coordinate), width >= 0 incl. narrower than the kernel, kernel size <= 4096, any centre: the '
         'pixel is written at most once; under extend_* it is correlated; under output_zero / output_ignore it is correlated exactly when its window fits inside the row, '
         'otherwise zeroed / left untouched; every buffer write, correlation window, source read and destination write is inside its range; a source row is read before any destination pixel of that row is written (in-place filtering as in detail::convolve_1d).',
    note=TRUST + 'The numerical identity dst(i) = sum_k src(i+k-c)*kernel(k), convolution-vs-correlation, column variants, 2-D convolution and fixed kernels are not covered. '
         'assign_pixels / fill_n / the correlator are ghost range operations.',
    technique='function contract with loop contract and ghost output pixel, enforced by CBMC DFCC on the extracted real body; partitioned over the boundary option',
    design='4/C15')

CLAIMED['C11'] = dict(
    text='Row buffers for bit-aligned pixels (row_buffer_helper constructor, bmp scanline reader 4-bit buffer): the bit-field load of every pixel stays inside the buffer (a one-byte heap over-read on valid 4-bit BMPs was found and fixed in /repo). Partial (GIL-owned decoders). Loop-contract proofs on the real bodies: the PNM text token loop keeps every write inside its 16-byte buffer for EVERY byte sequence '
         'the device can deliver and terminates (variant: bytes remaining); the BMP RLE4/RLE8 state machine (read_palette_image_rle: command loop + four pixel loops), '
         'copy_row_if_needed and read_palette keep every row-buffer write, palette read, iterator step and row copy (source and destination view) in bounds for every '
         'byte sequence and terminate in the bytes remaining; both devices\' read(T(&)[N]) return normally only when all N elements arrived; BMP read_header (no undefined arithmetic on header fields), the 15/16-bit colour-mask set-up and pixel decode of reader and scanline reader (every shift count in range for every BI_BITFIELDS mask triple), count_ones / trailing_zeros against popcount / ctz; the TARGA RLE decoding loop (read_rle_data) keeps every run and raw chunk inside the image buffer, computes its size without overflow (integer-theory lemma) and terminates; the BMP row pitch (reader '
         'and scanline reader) is a multiple of 4 and at least the bytes the row decoders consume for every width <= 2^24 and accepted bit depth. '
         'Bounded native stand-ins (ASan/UBSan, canary frame, watchdog): crafted PNM/BMP byte sequences and all RLE command sequences of length 2 (thorough: 3) through the real read_image / read_view.',
    note=TRUST + 'PNG/JPEG/TIFF (external libraries), TARGA header / colour-mapped / uncompressed paths, the uncompressed BMP row loops and the template drivers are not under contract; '
         'std::vector iterators are lowered to indices; the device is a ghost (arbitrary bytes, throws at end of input: proved for read(T(&)[N]) only); '
         'the requested window lying inside the image is a caller precondition (reader_base::check_coordinates is commented out in the real code).',
    technique='loop contracts (invariant + decreases) and function contracts enforced by CBMC DFCC on mechanically extracted bodies of the real decoders, callers checked against callee contracts; bounded native sanitizer windows',
    design='4/C11')

NOT_APPLICABLE = {
    'C12': 'relates two whole template pipelines through a file/stream and external C libraries; no function contract within reach of a C verifier states what read_image returns after write_view (DESIGN 5)',
    'C13': 'equality of results of different compositions of reader classes/devices/policies over the same bytes is a relational property over I/O histories, not a pre/postcondition of an extractable function (DESIGN 5)',
    'C14': 'type-level forwarding through variant2::visit / binary_operation_obj with no arithmetic; nothing is left after extraction and the CBMC C++ front end cannot read it (DESIGN 5)',
    'C19': 'histogram is a std::unordered_map<std::tuple<...>,double>; every clause is about container contents; no contracts for libstdc++ containers, fill/sub_histogram use parameter packs and generic lambdas that fixed extraction rules cannot lower (DESIGN 5)',
}
NOT_BUILT = 'planned in DESIGN section 4 but the contracts are not built yet in this revision; not claimed'


def main():
    props = [json.loads(l)['id'] for l in open(os.path.join(VERIF, 'properties.jsonl'))]
    checks = []
    for pid in props:
        if pid not in CLAIMED:
            continue
        c = CLAIMED[pid]
        checks.append(dict(
            property_id=pid,
            quick_cmd='./vc check %s --tier quick' % pid,
            thorough_cmd='./vc check %s --tier thorough' % pid,
            evidence_file='evidence/%s.json' % pid,
            replay_cmd_template='./vc replay {path}',
            engine='vc',
            level_claimed=dict(category='proof', text=c['text'], design_ref='DESIGN.md section ' + c['design']),
            level_note=c['note'],
            technique=c['technique'],
        ))
    na = []
    for pid in props:
        if pid in CLAIMED:
            continue
        na.append(dict(property_id=pid, reason=NOT_APPLICABLE.get(pid, NOT_BUILT)))
    m = dict(
        version=1,
        setup_cmd='python3-vt -c "import z3, jsonschema" && cbmc --version && goto-instrument --version && z3-new --version && g++ --version | head -1',
        hooks=dict(guard='BOOST_GIL_VERIF', enable='none needed: the checks read /repo/include as it is (extraction); no source hooks',
                   baseline_off_cmd='cmake --build /repo/_build && ctest --test-dir /repo/_build -j8 --timeout 900',
                   source_commits=[], add_only=True),
        engines=[dict(name='vc', path='vc', serves_properties=sorted(CLAIMED.keys()),
                      kind_free_text='contract-based deductive verification: bodies extracted mechanically from /repo/include, '
                                     'CBMC code contracts via goto-instrument --dfcc (engine S), integer-theory VCs from the goto '
                                     'program via z3 5.1 (engine Z), native replay of counterexamples against the real headers')],
        checks=checks,
        not_applicable=na,
        notes='See DESIGN.md. exit 0 = all obligations discharged (KNOWN-FINDING lines for listed findings), 1 = VIOLATION, 2 = undecided (time-out / extraction break).',
    )
    path = os.path.join(VERIF, 'MANIFEST.json')
    with open(path, 'w') as f:
        json.dump(m, f, indent=1)
    import jsonschema
    jsonschema.validate(m, json.load(open('/root/.vp/MANIFEST.schema.json')))
    for fn in sorted(os.listdir(os.path.join(VERIF, 'evidence'))):
        if fn.endswith('.json'):
            jsonschema.validate(json.load(open(os.path.join(VERIF, 'evidence', fn))), json.load(open('/root/.vp/EVIDENCE.schema.json')))
    print('MANIFEST.json written and valid; %d claimed, %d not applicable' % (len(checks), len(na)))


if __name__ == '__main__':
    sys.exit(main())
