// Helpers for native replay / fidelity drivers (DESIGN 3.8, 3.9).  Arguments are name=value.
#pragma once
#include <cstdio>
#include <cstdlib>
#include <cstring>
#include <cstdint>
#include <string>
#include <map>
namespace vr {
inline std::map<std::string,std::string>& args(){ static std::map<std::string,std::string> m; return m; }
inline void parse(int argc, char** argv){ for(int i=1;i<argc;i++){ const char* e=std::strchr(argv[i],'='); if(e) args()[std::string(argv[i],e-argv[i])]=std::string(e+1);} }
inline bool has(const char* n){ return args().count(n)!=0; }
inline long long i64(const char* n, long long dflt=0){ return has(n)? std::strtoll(args()[n].c_str(),nullptr,0):dflt; }
inline unsigned long long u64(const char* n, unsigned long long dflt=0){ return has(n)? std::strtoull(args()[n].c_str(),nullptr,0):dflt; }
// floats are passed as raw IEEE bits (f32:0x3f800000) or as a decimal literal
inline float f32(const char* n, float dflt=0){ if(!has(n)) return dflt; const std::string& s=args()[n];
  if(s.compare(0,4,"f32:")==0){ uint32_t b=(uint32_t)std::strtoull(s.c_str()+4,nullptr,0); float f; std::memcpy(&f,&b,4); return f;} return std::strtof(s.c_str(),nullptr);}
inline double f64(const char* n, double dflt=0){ if(!has(n)) return dflt; const std::string& s=args()[n];
  if(s.compare(0,4,"f64:")==0){ uint64_t b=std::strtoull(s.c_str()+4,nullptr,0); double f; std::memcpy(&f,&b,8); return f;} return std::strtod(s.c_str(),nullptr);}
inline std::string str(const char* n){ return has(n)? args()[n]:std::string(); }
}
// exit codes of a replay driver: 1 = violation reproduced on the real code, 0 = not reproduced, 3 = bad usage
#define REPRODUCED(...) do{ std::printf("REPRODUCED: " __VA_ARGS__); std::printf("\n"); return 1; }while(0)
#define NOT_REPRODUCED(...) do{ std::printf("not reproduced: " __VA_ARGS__); std::printf("\n"); return 0; }while(0)
