/* Prelude shared by every generated translation unit (DESIGN 3.2, 3.6).
 * VERIF_NATIVE: the same generated C is compiled by gcc for the fidelity check (3.8);
 * contract clauses then expand to nothing. */
#ifndef VPRELUDE_H
#define VPRELUDE_H
#include <stdint.h>
#include <stddef.h>
#include <math.h>
#include <string.h>

#ifdef VERIF_NATIVE
#define __CPROVER_requires(...)
#define __CPROVER_ensures(...)
#define __CPROVER_assigns(...)
#define __CPROVER_frees(...)
#define __CPROVER_loop_invariant(...)
#define __CPROVER_decreases(...)
#define __CPROVER_assert(c, m) ((void)0)
#define __CPROVER_assume(c) ((void)0)
#endif

/* R15: pointer difference (see specs/bits.py) */
#ifdef VERIF_NATIVE
#define PTRDIFF(a, b) ((a) - (b))
#else
#define PTRDIFF(a, b) (__CPROVER_assert(__CPROVER_same_object((a), (b)), "pointer subtraction within one object"), (ptrdiff_t)__CPROVER_POINTER_OFFSET(a) - (ptrdiff_t)__CPROVER_POINTER_OFFSET(b))
#endif
#define MIN(a, b) ((a) < (b) ? (a) : (b))
#define MAX(a, b) ((a) < (b) ? (b) : (a))
#define ABS(a) ((a) < 0 ? -(a) : (a))
#define I64(e) ((int64_t)(e))
#define U64(e) ((uint64_t)(e))
#define I128(e) ((__int128)(e))
#define RET __CPROVER_return_value
#define OLD(e) __CPROVER_old(e)
#define IMPLIES(a, b) (!(a) || (b))

typedef struct { ptrdiff_t x, y; } point_t;
#define POINT2(a, b) {(a), (b)}          /* R12: point_t p(a, b); -> point_t p = POINT2(a, b); */

#endif
